package tsys

import (
	"sort"
	"strings"

	m "verif/harness/internal/model"
)

// Violation is one breach of a type-system rule that property C07 enumerates.
type Violation struct {
	Code     string   // closed vocabulary, see Check
	Detail   string   // human readable
	Involved []string // names of the definitions involved (types, "@directive", "schema")
}

// Extra marks conditions the loader may reject although property C07 does not enumerate them;
// schemas showing them are not judged for "must load".
type Extra struct{ Code string }

type checker struct {
	mg  *Merged
	out []Violation
	ext []Extra
}

func (c *checker) v(code, detail string, involved ...string) {
	c.out = append(c.out, Violation{code, detail, involved})
}

// Check applies the rules named in property C07 to a merged type system.
// Codes: dup-type dup-directive dup-field undefined-type(field|argument|input-field|directive-argument)
// undefined-union-member undefined-interface undefined-root kind(output-field|argument|input-field|directive-argument)
// kind(union-member) kind(implements) missing-interface-field non-covariant-field missing-interface-argument
// interface-argument-type extra-required-argument missing-transitive-interface empty(type|interface|input|enum)
// reserved-name(type|field|argument|input-field|directive|directive-argument) directive-location undefined-directive
// directive-required-argument.
func Check(mg *Merged) ([]Violation, []Extra) {
	c := &checker{mg: mg}
	for _, it := range mg.DupTypes {
		c.v("dup-type", "type "+it.Name+" defined twice", it.Name)
	}
	for _, it := range mg.DupDirectives {
		c.v("dup-directive", "directive "+it.Name+" defined twice", "@"+it.Name)
	}
	if len(mg.SchemaDefs) > 1 {
		c.ext = append(c.ext, Extra{"multiple-schema-definitions"})
	}
	for _, s := range append(append([]*m.Item{}, mg.SchemaDefs...), mg.SchemaExts...) {
		for _, ot := range s.OpTypes {
			if mg.Types[ot.Type] == nil {
				c.v("undefined-root", ot.Op+" root "+ot.Type+" does not exist", "schema")
			}
		}
	}
	c.dirs(mg.SchemaDirs, "SCHEMA", "", "schema")

	for _, n := range mg.TypeNames {
		d := mg.Types[n]
		if d.BuiltIn && len(d.Items) == 1 {
			continue
		}
		c.def(d)
	}
	var dn []string
	for n := range mg.Directives {
		dn = append(dn, n)
	}
	sort.Strings(dn)
	for _, n := range dn {
		it := mg.Directives[n]
		if builtinDirectiveNames[n] && isPreludeItem(it) {
			continue
		}
		if strings.HasPrefix(n, "__") {
			c.v("reserved-name(directive)", "directive @"+n, "@"+n)
		}
		c.args(it.Args, "directive-argument", "@"+n, n)
	}
	return c.out, c.ext
}

func isPreludeItem(it *m.Item) bool {
	for _, p := range PreludeItems() {
		if p == it {
			return true
		}
	}
	return false
}

func (c *checker) typeRef(t *m.Type, where string, wantInput bool, owner string) {
	base := t.Base()
	td := c.mg.Types[base]
	if td == nil {
		c.v("undefined-type("+where+")", owner+" refers to undefined type "+base, owner)
		return
	}
	if wantInput && !td.IsInput() {
		c.v("kind("+where+")", owner+": "+base+" is a "+td.Kind+", not an input type", owner, base)
	}
	if !wantInput && !td.IsOutput() {
		c.v("kind("+where+")", owner+": "+base+" is an input object in an output position", owner, base)
	}
}

func (c *checker) args(as []*m.ArgDef, where, owner, selfDirective string) {
	for _, a := range as {
		if strings.HasPrefix(a.Name, "__") {
			if where == "directive-argument" {
				c.v("reserved-name(directive-argument)", owner+" argument "+a.Name, owner)
			} else {
				c.v("reserved-name(argument)", owner+" argument "+a.Name, owner)
			}
		}
		c.typeRef(a.Type, where, true, owner)
		for _, d := range a.Dirs {
			if selfDirective != "" && d.Name == selfDirective {
				c.ext = append(c.ext, Extra{"directive-self-reference"})
			}
		}
		c.dirs(a.Dirs, "ARGUMENT_DEFINITION", selfDirective, owner)
	}
}

// dirs checks directive applications at a location.
func (c *checker) dirs(ds []m.Dir, loc, selfDirective, owner string) {
	for _, d := range ds {
		if strings.HasPrefix(d.Name, "__") {
			c.v("reserved-name(directive)", "directive application @"+d.Name+" on "+owner, owner)
			continue
		}
		if selfDirective != "" && d.Name == selfDirective {
			continue
		}
		def := c.mg.Directives[d.Name]
		if def == nil {
			c.v("undefined-directive", "@"+d.Name+" on "+owner, owner)
			continue
		}
		ok := false
		for _, l := range def.Locations {
			if l == loc {
				ok = true
			}
		}
		if !ok {
			c.v("directive-location", "@"+d.Name+" is not declared for "+loc+" (on "+owner+")", owner, "@"+d.Name)
			continue
		}
		for _, a := range d.Args {
			found := false
			for _, da := range def.Args {
				if da.Name == a.Name {
					found = true
				}
			}
			if !found {
				c.ext = append(c.ext, Extra{"unknown-directive-argument"})
			}
		}
		for _, da := range def.Args {
			if da.Type.NonNull && da.Default == nil {
				var got *m.Value
				for _, a := range d.Args {
					if a.Name == da.Name {
						got = a.Value
						break
					}
				}
				if got == nil || got.Kind == m.VNull {
					c.v("directive-required-argument", "@"+d.Name+" on "+owner+" lacks required argument "+da.Name, owner, "@"+d.Name)
				}
			}
		}
	}
}

func kindLocation(kind string) string {
	switch kind {
	case "scalar":
		return "SCALAR"
	case "type":
		return "OBJECT"
	case "interface":
		return "INTERFACE"
	case "union":
		return "UNION"
	case "enum":
		return "ENUM"
	}
	return "INPUT_OBJECT"
}

func (c *checker) def(d *Def) {
	mg := c.mg
	if d.KindClash {
		c.ext = append(c.ext, Extra{"extension-kind-mismatch"})
	}
	if !d.BuiltIn && strings.HasPrefix(d.Name, "__") {
		c.v("reserved-name(type)", "type "+d.Name, d.Name)
	}
	c.dirs(d.Dirs, kindLocation(d.Kind), "", d.Name)
	seen := map[string]bool{}
	for _, f := range d.Fields {
		owner := d.Name + "." + f.Name
		if seen[f.Name] {
			c.v("dup-field", owner+" defined twice", d.Name)
		}
		seen[f.Name] = true
		if strings.HasPrefix(f.Name, "__") {
			if d.Kind == "input" {
				c.v("reserved-name(input-field)", owner, d.Name)
			} else {
				c.v("reserved-name(field)", owner, d.Name)
			}
		}
		if d.Kind == "input" {
			c.typeRef(f.Type, "input-field", true, d.Name)
			c.dirs(f.Dirs, "INPUT_FIELD_DEFINITION", "", d.Name)
		} else {
			c.typeRef(f.Type, "output-field", false, d.Name)
			c.args(f.Args, "argument", d.Name, "")
			c.dirs(f.Dirs, "FIELD_DEFINITION", "", d.Name)
		}
	}
	switch d.Kind {
	case "type", "interface", "input":
		if len(d.Fields) == 0 {
			c.v("empty("+d.Kind+")", d.Name+" has no fields", d.Name)
		}
	case "enum":
		if len(d.Values) == 0 {
			c.v("empty(enum)", d.Name+" has no values", d.Name)
		}
		for _, v := range d.Values {
			if v.Name == "true" || v.Name == "false" || v.Name == "null" {
				c.ext = append(c.ext, Extra{"reserved-enum-value"})
			}
			c.dirs(v.Dirs, "ENUM_VALUE", "", d.Name)
		}
	case "union":
		for _, mb := range d.Members {
			md := mg.Types[mb]
			if md == nil {
				c.v("undefined-union-member", d.Name+" member "+mb, d.Name)
			} else if md.Kind != "type" {
				c.v("kind(union-member)", d.Name+" member "+mb+" is a "+md.Kind, d.Name, mb)
			}
		}
	}
	for _, in := range d.Interfaces {
		id := mg.Types[in]
		if id == nil {
			c.v("undefined-interface", d.Name+" implements undefined "+in, d.Name)
			continue
		}
		if id.Kind != "interface" {
			c.v("kind(implements)", d.Name+" implements "+in+", a "+id.Kind, d.Name, in)
			continue
		}
		for _, rf := range id.Fields {
			ff := d.Field(rf.Name)
			if ff == nil {
				c.v("missing-interface-field", d.Name+" lacks "+in+"."+rf.Name, d.Name, in)
				continue
			}
			if !c.covariant(ff.Type, rf.Type) {
				c.v("non-covariant-field", d.Name+"."+rf.Name+": "+ff.Type.String()+" is not a subtype of "+rf.Type.String(), d.Name, in)
			}
			for _, ra := range rf.Args {
				var fa *m.ArgDef
				for _, a := range ff.Args {
					if a.Name == ra.Name {
						fa = a
						break
					}
				}
				if fa == nil {
					c.v("missing-interface-argument", d.Name+"."+rf.Name+" lacks argument "+ra.Name, d.Name, in)
					continue
				}
				if fa.Type.String() != ra.Type.String() {
					c.v("interface-argument-type", d.Name+"."+rf.Name+"("+ra.Name+": "+fa.Type.String()+") but "+in+" declares "+ra.Type.String(), d.Name, in)
				}
			}
			for _, fa := range ff.Args {
				declared := false
				for _, ra := range rf.Args {
					if ra.Name == fa.Name {
						declared = true
					}
				}
				if !declared && fa.Type.NonNull && fa.Default == nil {
					c.v("extra-required-argument", d.Name+"."+rf.Name+" adds required argument "+fa.Name, d.Name, in)
				}
			}
		}
		for _, tr := range id.Interfaces {
			if !d.Implements(tr) {
				c.v("missing-transitive-interface", d.Name+" implements "+in+" but not "+tr, d.Name, in)
			}
		}
	}
}

// covariant is IsValidImplementationFieldType(fieldType, implementedFieldType) of the specification.
func (c *checker) covariant(ft, it *m.Type) bool {
	if ft.NonNull {
		f2 := *ft
		f2.NonNull = false
		i2 := *it
		i2.NonNull = false
		return c.covariant(&f2, &i2)
	}
	if it.NonNull {
		return false
	}
	if ft.Elem != nil || it.Elem != nil {
		if ft.Elem == nil || it.Elem == nil {
			return false
		}
		return c.covariant(ft.Elem, it.Elem)
	}
	if ft.Name == it.Name {
		return true
	}
	fd, id := c.mg.Types[ft.Name], c.mg.Types[it.Name]
	if fd == nil || id == nil {
		return false
	}
	if fd.Kind == "type" && id.Kind == "union" {
		for _, mb := range id.Members {
			if mb == ft.Name {
				return true
			}
		}
		return false
	}
	if (fd.Kind == "type" || fd.Kind == "interface") && id.Kind == "interface" {
		return fd.Implements(it.Name)
	}
	return false
}
