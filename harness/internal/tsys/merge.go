// Package tsys is the semantic layer over type-system model trees: the merged view of a list of
// definitions and extensions, an independent checker for the type-system rules named in
// property C07, a valid-by-construction schema generator and a fault catalogue.
// Nothing here uses gqlparser's loader; the built-in prelude is read once through the parser
// as data.
package tsys

import (
	"sort"
	"sync"

	"github.com/vektah/gqlparser/v2/parser"
	"github.com/vektah/gqlparser/v2/validator"

	m "verif/harness/internal/model"
)

// Def is a type after merging its definition with its extensions.
type Def struct {
	Kind       string // scalar type interface union enum input
	Name       string
	Desc       string
	Interfaces []string
	Fields     []*m.FieldDef
	Values     []*m.EnumVal
	Members    []string
	Dirs       []m.Dir
	Items      []*m.Item // contributing items, base definition first when there is one
	HasBase    bool
	BuiltIn    bool
	KindClash  bool // an extension of a different kind than the base
}

func (d *Def) IsInput() bool  { return d.Kind == "scalar" || d.Kind == "enum" || d.Kind == "input" }
func (d *Def) IsOutput() bool { return d.Kind != "input" }
func (d *Def) IsComposite() bool {
	return d.Kind == "type" || d.Kind == "interface" || d.Kind == "union"
}
func (d *Def) IsLeaf() bool { return d.Kind == "scalar" || d.Kind == "enum" }

func (d *Def) Field(name string) *m.FieldDef {
	for _, f := range d.Fields {
		if f.Name == name {
			return f
		}
	}
	return nil
}

func (d *Def) Implements(intf string) bool {
	for _, i := range d.Interfaces {
		if i == intf {
			return true
		}
	}
	return false
}

func (d *Def) HasDir(name string) bool {
	for _, dd := range d.Dirs {
		if dd.Name == name {
			return true
		}
	}
	return false
}

// Merged is the merged type system of a list of items plus the built-in prelude.
type Merged struct {
	Types         map[string]*Def
	TypeNames     []string // sorted
	Directives    map[string]*m.Item
	DupTypes      []*m.Item // second and later definitions of a name
	DupDirectives []*m.Item
	SchemaDefs    []*m.Item // `schema` definitions (more than one is outside the judged rules)
	SchemaExts    []*m.Item
	Roots         map[string]string // operation -> declared or inferred root type name ("" when none)
	SchemaDirs    []m.Dir
	SchemaDesc    string
}

var (
	preludeOnce  sync.Once
	preludeItems []*m.Item
)

// PreludeItems returns the built-in definitions (scalars, directives, introspection types) as model items.
func PreludeItems() []*m.Item {
	preludeOnce.Do(func() {
		sd, err := parser.ParseSchema(validator.Prelude)
		if err != nil {
			panic("prelude does not parse: " + err.Error())
		}
		preludeItems = m.FromSchemaAST(sd).Items
	})
	return preludeItems
}

var builtinDirectiveNames = map[string]bool{"include": true, "skip": true, "deprecated": true, "specifiedBy": true, "defer": true, "oneOf": true}

// Merge builds the merged view of items (user items only; the prelude is added).
func Merge(items []*m.Item) *Merged {
	mg := &Merged{Types: map[string]*Def{}, Directives: map[string]*m.Item{}, Roots: map[string]string{}}
	add := func(it *m.Item, builtin bool) {
		switch {
		case it.Kind == "schema" && !it.Extend:
			mg.SchemaDefs = append(mg.SchemaDefs, it)
		case it.Kind == "schema":
			mg.SchemaExts = append(mg.SchemaExts, it)
		case it.Kind == "directive":
			if _, dup := mg.Directives[it.Name]; dup {
				if !builtinDirectiveNames[it.Name] {
					mg.DupDirectives = append(mg.DupDirectives, it)
					return // the first definition is kept
				}
				// a specified directive may be declared again by the user's sources: that declaration is the one the
				// schema holds (the loader lets the later definition replace the earlier)
			}
			mg.Directives[it.Name] = it
		case !it.Extend:
			if _, dup := mg.Types[it.Name]; dup {
				mg.DupTypes = append(mg.DupTypes, it)
				return
			}
			mg.Types[it.Name] = &Def{Kind: it.Kind, Name: it.Name, Desc: it.Desc, HasBase: true, BuiltIn: builtin,
				Interfaces: append([]string{}, it.Interfaces...), Fields: append([]*m.FieldDef{}, it.Fields...), Values: append([]*m.EnumVal{}, it.Values...),
				Members: append([]string{}, it.Members...), Dirs: append([]m.Dir{}, it.Dirs...), Items: []*m.Item{it}}
		}
	}
	for _, it := range PreludeItems() {
		add(it, true)
	}
	for _, it := range items {
		add(it, false)
	}
	for _, it := range items {
		if !it.Extend || it.Kind == "schema" || it.Kind == "directive" {
			continue
		}
		d := mg.Types[it.Name]
		if d == nil {
			d = &Def{Kind: it.Kind, Name: it.Name}
			mg.Types[it.Name] = d
		}
		if d.Kind != it.Kind {
			d.KindClash = true
		}
		d.Interfaces = append(d.Interfaces, it.Interfaces...)
		d.Fields = append(d.Fields, it.Fields...)
		d.Values = append(d.Values, it.Values...)
		d.Members = append(d.Members, it.Members...)
		d.Dirs = append(d.Dirs, it.Dirs...)
		d.Items = append(d.Items, it)
	}
	for n := range mg.Types {
		mg.TypeNames = append(mg.TypeNames, n)
	}
	sort.Strings(mg.TypeNames)
	// roots
	if len(mg.SchemaDefs) > 0 {
		sd := mg.SchemaDefs[0]
		mg.SchemaDesc = sd.Desc
		for _, ot := range sd.OpTypes {
			mg.Roots[ot.Op] = ot.Type
		}
		mg.SchemaDirs = append(mg.SchemaDirs, sd.Dirs...)
	}
	for _, se := range mg.SchemaExts {
		for _, ot := range se.OpTypes {
			mg.Roots[ot.Op] = ot.Type
		}
		mg.SchemaDirs = append(mg.SchemaDirs, se.Dirs...)
	}
	if len(mg.SchemaDefs) == 0 {
		for op, def := range map[string]string{"query": "Query", "mutation": "Mutation", "subscription": "Subscription"} {
			if mg.Roots[op] == "" {
				if _, ok := mg.Types[def]; ok {
					mg.Roots[op] = def
				}
			}
		}
	}
	return mg
}

// PossibleTypes returns the names of the object types (and, for interfaces, implementing
// interfaces) that a composite type admits, as the definitions imply.
func (mg *Merged) PossibleTypes(name string) []string {
	d := mg.Types[name]
	if d == nil {
		return nil
	}
	var out []string
	switch d.Kind {
	case "type":
		out = []string{name}
	case "union":
		out = append(out, d.Members...)
	case "interface":
		for _, n := range mg.TypeNames {
			if t := mg.Types[n]; (t.Kind == "type" || t.Kind == "interface") && t.Implements(name) {
				out = append(out, n)
			}
		}
	}
	sort.Strings(out)
	return out
}

// PossibleObjects returns the object types a composite type can be at run time.
func (mg *Merged) PossibleObjects(name string) []string {
	d := mg.Types[name]
	if d == nil {
		return nil
	}
	var out []string
	switch d.Kind {
	case "type":
		out = []string{name}
	case "union":
		for _, mb := range d.Members {
			if t := mg.Types[mb]; t != nil && t.Kind == "type" {
				out = append(out, mb)
			}
		}
	case "interface":
		for _, n := range mg.TypeNames {
			if t := mg.Types[n]; t.Kind == "type" && t.Implements(name) {
				out = append(out, n)
			}
		}
	}
	sort.Strings(out)
	return out
}

// DirectiveNames returns the names of all directives of the merged view (prelude included), sorted.
func (mg *Merged) DirectiveNames() []string {
	out := make([]string, 0, len(mg.Directives))
	for n := range mg.Directives {
		out = append(out, n)
	}
	sort.Strings(out)
	return out
}
