package tsys

import (
	"verif/harness/internal/core"
	m "verif/harness/internal/model"
)

// ---------------------------------------------------------------- deep copies

func cloneValue(v *m.Value) *m.Value {
	if v == nil {
		return nil
	}
	c := *v
	c.Items = nil
	for _, it := range v.Items {
		c.Items = append(c.Items, cloneValue(it))
	}
	c.Fields = nil
	for _, f := range v.Fields {
		c.Fields = append(c.Fields, m.ObjField{Name: f.Name, Value: cloneValue(f.Value)})
	}
	return &c
}

func cloneDirs(ds []m.Dir) []m.Dir {
	var out []m.Dir
	for _, d := range ds {
		nd := m.Dir{Name: d.Name}
		for _, a := range d.Args {
			nd.Args = append(nd.Args, m.Arg{Name: a.Name, Value: cloneValue(a.Value)})
		}
		out = append(out, nd)
	}
	return out
}

func cloneArgDefs(as []*m.ArgDef) []*m.ArgDef {
	var out []*m.ArgDef
	for _, a := range as {
		c := *a
		c.Type = cloneType(a.Type)
		c.Default = cloneValue(a.Default)
		c.Dirs = cloneDirs(a.Dirs)
		out = append(out, &c)
	}
	return out
}

func CloneItem(it *m.Item) *m.Item {
	c := *it
	c.Interfaces = append([]string{}, it.Interfaces...)
	c.Members = append([]string{}, it.Members...)
	c.Locations = append([]string{}, it.Locations...)
	c.OpTypes = append([]m.OpType{}, it.OpTypes...)
	c.Dirs = cloneDirs(it.Dirs)
	c.Args = cloneArgDefs(it.Args)
	c.Fields = nil
	for _, f := range it.Fields {
		nf := *f
		nf.Type = cloneType(f.Type)
		nf.Default = cloneValue(f.Default)
		nf.Dirs = cloneDirs(f.Dirs)
		nf.Args = cloneArgDefs(f.Args)
		c.Fields = append(c.Fields, &nf)
	}
	c.Values = nil
	for _, v := range it.Values {
		nv := *v
		nv.Dirs = cloneDirs(v.Dirs)
		c.Values = append(c.Values, &nv)
	}
	return &c
}

func CloneItems(items []*m.Item) []*m.Item {
	out := make([]*m.Item, len(items))
	for i, it := range items {
		out[i] = CloneItem(it)
	}
	return out
}

// ---------------------------------------------------------------- fault catalogue

// Fault is one injector: it edits items (a private copy) so that exactly the named rule is
// violated, and reports the names of the definitions involved. ok=false: not applicable to this schema.
type Fault struct {
	Code   string // the checker code the injected schema must show
	Inject func(r *core.Rand, items []*m.Item) (out []*m.Item, involved []string, ok bool)
}

func itemsOfKind(items []*m.Item, ext bool, kinds ...string) []*m.Item {
	var out []*m.Item
	for _, it := range items {
		for _, k := range kinds {
			if it.Kind == k && (ext || !it.Extend) {
				out = append(out, it)
			}
		}
	}
	return out
}

func pickItem(r *core.Rand, its []*m.Item) *m.Item {
	if len(its) == 0 {
		return nil
	}
	return its[r.Intn(len(its))]
}

func baseOf(t *m.Type) *m.Type {
	for t.Elem != nil {
		t = t.Elem
	}
	return t
}

func withFields(items []*m.Item, kinds ...string) []*m.Item {
	var out []*m.Item
	for _, it := range itemsOfKind(items, true, kinds...) {
		if len(it.Fields) > 0 {
			out = append(out, it)
		}
	}
	return out
}

// implementer finds (item that declares the interface AND holds the field, interface item, required field).
// loseSubtypeRelation finds an implementer field whose named type is narrower than the interface's and removes the
// relation (union membership, implements) that made it narrower.
func loseSubtypeRelation(r *core.Rand, items []*m.Item) ([]*m.Item, []string, bool) {
	mg := Merge(items)
	type cand struct{ impl, intf, wide, narrow string }
	var cs []cand
	for _, n := range mg.TypeNames {
		d := mg.Types[n]
		if d.BuiltIn || (d.Kind != "type" && d.Kind != "interface") {
			continue
		}
		for _, in := range d.Interfaces {
			id := mg.Types[in]
			if id == nil {
				continue
			}
			for _, rf := range id.Fields {
				for _, ff := range d.Fields {
					if ff.Name == rf.Name && ff.Type.Base() != rf.Type.Base() && !(ff.Type.Base() == n && rf.Type.Base() == in) {
						cs = append(cs, cand{n, in, rf.Type.Base(), ff.Type.Base()})
					}
				}
			}
		}
	}
	if len(cs) == 0 {
		return nil, nil, false
	}
	c := cs[r.Intn(len(cs))]
	wd := mg.Types[c.wide]
	if wd == nil {
		return nil, nil, false
	}
	drop := func(l []string, n string) []string {
		var out []string
		for _, e := range l {
			if e != n {
				out = append(out, e)
			}
		}
		return out
	}
	switch wd.Kind {
	case "union":
		if len(wd.Members) < 2 {
			return nil, nil, false
		}
		var keep []*m.Item
		for _, it := range items {
			if it.Kind == "union" && it.Name == c.wide {
				it.Members = drop(it.Members, c.narrow)
				if it.Extend && len(it.Members) == 0 && len(it.Dirs) == 0 {
					continue // an extension that adds nothing is not in the grammar
				}
			}
			keep = append(keep, it)
		}
		items = keep
	case "interface":
		var keep []*m.Item
		for _, it := range items {
			if (it.Kind == "type" || it.Kind == "interface") && it.Name == c.narrow {
				it.Interfaces = drop(it.Interfaces, c.wide)
				if it.Extend && len(it.Interfaces) == 0 && len(it.Dirs) == 0 && len(it.Fields) == 0 {
					continue
				}
			}
			keep = append(keep, it)
		}
		items = keep
	default:
		return nil, nil, false
	}
	return items, []string{c.impl, c.intf, c.wide, c.narrow}, true
}

func findImplPair(r *core.Rand, items []*m.Item, needArgs bool) (holder *m.Item, impl string, intf *m.Item, rf *m.FieldDef, ff *m.FieldDef) {
	mg := Merge(items)
	type cand struct {
		holder *m.Item
		impl   string
		intf   *m.Item
		rf, ff *m.FieldDef
	}
	var cs []cand
	for _, n := range mg.TypeNames {
		d := mg.Types[n]
		if d.BuiltIn || (d.Kind != "type" && d.Kind != "interface") {
			continue
		}
		for _, in := range d.Interfaces {
			id := mg.Types[in]
			if id == nil {
				continue
			}
			var intfItem *m.Item
			for _, it := range id.Items {
				intfItem = it
				break
			}
			for _, f := range id.Fields {
				if needArgs && len(f.Args) == 0 {
					continue
				}
				for _, it := range d.Items {
					for _, hf := range it.Fields {
						if hf.Name == f.Name {
							cs = append(cs, cand{it, n, intfItem, f, hf})
						}
					}
				}
			}
		}
	}
	if len(cs) == 0 {
		return nil, "", nil, nil, nil
	}
	c := cs[r.Intn(len(cs))]
	return c.holder, c.impl, c.intf, c.rf, c.ff
}

// userDirective: the directive definitions with names of the user's own (a specified directive declared again is not one:
// the loader lets it be declared any number of times).
func userDirective(items []*m.Item) []*m.Item {
	var out []*m.Item
	for _, it := range itemsOfKind(items, false, "directive") {
		if !builtinDirectiveNames[it.Name] {
			out = append(out, it)
		}
	}
	return out
}

// Faults is the catalogue: one injector per rule the loader is meant to enforce.
var Faults = []Fault{
	{"dup-type", func(r *core.Rand, items []*m.Item) ([]*m.Item, []string, bool) {
		it := pickItem(r, itemsOfKind(items, false, "scalar", "type", "interface", "union", "enum", "input"))
		if it == nil {
			return nil, nil, false
		}
		dup := CloneItem(it)
		if r.Bool() {
			dup = &m.Item{Kind: "scalar", Name: it.Name}
		}
		pos := r.Intn(len(items) + 1)
		out := append(append(append([]*m.Item{}, items[:pos]...), dup), items[pos:]...)
		return out, []string{it.Name}, true
	}},
	{"dup-directive", func(r *core.Rand, items []*m.Item) ([]*m.Item, []string, bool) {
		it := pickItem(r, userDirective(items))
		if it == nil {
			return nil, nil, false
		}
		return append(items, CloneItem(it)), []string{"@" + it.Name}, true
	}},
	{"dup-field", func(r *core.Rand, items []*m.Item) ([]*m.Item, []string, bool) {
		it := pickItem(r, withFields(items, "type", "interface", "input"))
		if it == nil {
			return nil, nil, false
		}
		f := it.Fields[r.Intn(len(it.Fields))]
		nf := *f
		dups := []*m.FieldDef{&nf}
		if len(it.Fields) >= 2 && r.Chance(1, 3) {
			// two different names, each defined twice: which one is reported must not depend on anything but the text
			for _, g := range it.Fields {
				if g.Name != f.Name {
					ng := *g
					dups = append(dups, &ng)
					break
				}
			}
			if r.Bool() {
				dups[0], dups[1] = dups[1], dups[0]
			}
		}
		if r.Bool() {
			// through an extension
			return append(items, &m.Item{Kind: it.Kind, Extend: true, Name: it.Name, Fields: dups}), []string{it.Name}, true
		}
		it.Fields = append(it.Fields, dups...)
		return items, []string{it.Name}, true
	}},
	{"undefined-type(output-field)", func(r *core.Rand, items []*m.Item) ([]*m.Item, []string, bool) {
		it := pickItem(r, withFields(items, "type", "interface"))
		if it == nil {
			return nil, nil, false
		}
		baseOf(it.Fields[r.Intn(len(it.Fields))].Type).Name = "Missing"
		return items, []string{it.Name}, true
	}},
	{"undefined-type(input-field)", func(r *core.Rand, items []*m.Item) ([]*m.Item, []string, bool) {
		it := pickItem(r, withFields(items, "input"))
		if it == nil {
			return nil, nil, false
		}
		f := it.Fields[r.Intn(len(it.Fields))]
		baseOf(f.Type).Name = "Missing"
		f.Default = nil
		return items, []string{it.Name}, true
	}},
	{"undefined-type(argument)", func(r *core.Rand, items []*m.Item) ([]*m.Item, []string, bool) {
		var cs []*m.ArgDef
		var owners []string
		for _, it := range withFields(items, "type", "interface") {
			for _, f := range it.Fields {
				for _, a := range f.Args {
					cs = append(cs, a)
					owners = append(owners, it.Name)
				}
			}
		}
		if len(cs) == 0 {
			return nil, nil, false
		}
		i := r.Intn(len(cs))
		baseOf(cs[i].Type).Name = "Missing"
		cs[i].Default = nil
		return items, []string{owners[i]}, true
	}},
	{"undefined-type(directive-argument)", func(r *core.Rand, items []*m.Item) ([]*m.Item, []string, bool) {
		var cs []*m.Item
		for _, it := range userDirective(items) {
			if len(it.Args) > 0 {
				cs = append(cs, it)
			}
		}
		it := pickItem(r, cs)
		if it == nil {
			return nil, nil, false
		}
		a := it.Args[r.Intn(len(it.Args))]
		baseOf(a.Type).Name = "Missing"
		a.Default = nil
		return items, []string{"@" + it.Name}, true
	}},
	{"undefined-union-member", func(r *core.Rand, items []*m.Item) ([]*m.Item, []string, bool) {
		it := pickItem(r, itemsOfKind(items, true, "union"))
		if it == nil || len(it.Members) == 0 {
			return nil, nil, false
		}
		it.Members[r.Intn(len(it.Members))] = "Missing"
		return items, []string{it.Name}, true
	}},
	{"undefined-interface", func(r *core.Rand, items []*m.Item) ([]*m.Item, []string, bool) {
		it := pickItem(r, itemsOfKind(items, true, "type", "interface"))
		if it == nil {
			return nil, nil, false
		}
		it.Interfaces = append(it.Interfaces, "Missing")
		return items, []string{it.Name}, true
	}},
	{"undefined-root", func(r *core.Rand, items []*m.Item) ([]*m.Item, []string, bool) {
		if it := pickItem(r, itemsOfKind(items, true, "schema")); it != nil && len(it.OpTypes) > 0 {
			it.OpTypes[r.Intn(len(it.OpTypes))].Type = "Missing"
			return items, []string{"schema"}, true
		}
		return append(items, &m.Item{Kind: "schema", Extend: true, OpTypes: []m.OpType{{Op: r.Pick("mutation", "subscription"), Type: "Missing"}}}), []string{"schema"}, true
	}},
	{"kind(output-field)", func(r *core.Rand, items []*m.Item) ([]*m.Item, []string, bool) {
		it := pickItem(r, withFields(items, "type", "interface"))
		in := pickItem(r, itemsOfKind(items, false, "input"))
		if it == nil || in == nil {
			return nil, nil, false
		}
		// only a field no interface requirement depends on: pick any, the kind error comes regardless
		baseOf(it.Fields[r.Intn(len(it.Fields))].Type).Name = in.Name
		return items, []string{it.Name, in.Name}, true
	}},
	{"kind(input-field)", func(r *core.Rand, items []*m.Item) ([]*m.Item, []string, bool) {
		it := pickItem(r, withFields(items, "input"))
		ob := pickItem(r, itemsOfKind(items, false, "type", "interface", "union"))
		if it == nil || ob == nil {
			return nil, nil, false
		}
		f := it.Fields[r.Intn(len(it.Fields))]
		baseOf(f.Type).Name = ob.Name
		f.Default = nil
		return items, []string{it.Name, ob.Name}, true
	}},
	{"kind(argument)", func(r *core.Rand, items []*m.Item) ([]*m.Item, []string, bool) {
		ob := pickItem(r, itemsOfKind(items, false, "type", "interface", "union"))
		var cs []*m.ArgDef
		var owners []string
		for _, it := range withFields(items, "type", "interface") {
			for _, f := range it.Fields {
				for _, a := range f.Args {
					cs = append(cs, a)
					owners = append(owners, it.Name)
				}
			}
		}
		if len(cs) == 0 || ob == nil {
			return nil, nil, false
		}
		i := r.Intn(len(cs))
		baseOf(cs[i].Type).Name = ob.Name
		cs[i].Default = nil
		return items, []string{owners[i], ob.Name}, true
	}},
	{"kind(directive-argument)", func(r *core.Rand, items []*m.Item) ([]*m.Item, []string, bool) {
		ob := pickItem(r, itemsOfKind(items, false, "type", "interface", "union"))
		var cs []*m.Item
		for _, it := range userDirective(items) {
			if len(it.Args) > 0 {
				cs = append(cs, it)
			}
		}
		it := pickItem(r, cs)
		if it == nil || ob == nil {
			return nil, nil, false
		}
		a := it.Args[r.Intn(len(it.Args))]
		baseOf(a.Type).Name = ob.Name
		a.Default = nil
		return items, []string{"@" + it.Name, ob.Name}, true
	}},
	{"kind(union-member)", func(r *core.Rand, items []*m.Item) ([]*m.Item, []string, bool) {
		it := pickItem(r, itemsOfKind(items, true, "union"))
		bad := pickItem(r, itemsOfKind(items, false, "interface", "scalar", "enum", "input", "union"))
		if it == nil || bad == nil || bad.Name == it.Name {
			return nil, nil, false
		}
		it.Members = append(it.Members, bad.Name)
		return items, []string{it.Name, bad.Name}, true
	}},
	{"kind(implements)", func(r *core.Rand, items []*m.Item) ([]*m.Item, []string, bool) {
		it := pickItem(r, itemsOfKind(items, true, "type", "interface"))
		bad := pickItem(r, itemsOfKind(items, false, "type", "union", "scalar", "enum", "input"))
		if it == nil || bad == nil || bad.Name == it.Name {
			return nil, nil, false
		}
		it.Interfaces = append(it.Interfaces, bad.Name)
		return items, []string{it.Name, bad.Name}, true
	}},
	{"missing-interface-field", func(r *core.Rand, items []*m.Item) ([]*m.Item, []string, bool) {
		holder, impl, intf, rf, _ := findImplPair(r, items, false)
		if holder == nil {
			return nil, nil, false
		}
		// one required field goes, sometimes a second one too (which of them the error names must be a function of the text)
		drop := map[string]bool{rf.Name: true}
		if r.Chance(1, 3) {
			for _, g := range intf.Fields {
				if g.Name != rf.Name {
					drop[g.Name] = true
					break
				}
			}
		}
		var keep []*m.FieldDef
		for _, f := range holder.Fields {
			if !drop[f.Name] {
				keep = append(keep, f)
			}
		}
		holder.Fields = keep
		if len(keep) == 0 {
			holder.Fields = []*m.FieldDef{{Name: "fillerField", Type: &m.Type{Name: "Int"}}}
			if holder.Kind == "input" {
				return nil, nil, false
			}
		}
		return items, []string{impl, intf.Name}, true
	}},
	{"non-covariant-field", func(r *core.Rand, items []*m.Item) ([]*m.Item, []string, bool) {
		if r.Bool() {
			// the field types stay as they are; what makes the narrower type a subtype goes away (the union loses the
			// member, the object no longer declares the interface): every name is unchanged, only the relation differs
			if out, inv, ok := loseSubtypeRelation(r, items); ok {
				return out, inv, true
			}
		}
		_, impl, intf, rf, ff := findImplPair(r, items, false)
		if ff == nil {
			return nil, nil, false
		}
		switch k := r.Intn(4); {
		case k == 0 && rf.Type.NonNull:
			ff.Type = cloneType(rf.Type)
			ff.Type.NonNull = false
		case k == 1:
			// list-ness mismatch
			if rf.Type.Elem != nil {
				ff.Type = cloneType(rf.Type.Elem)
			} else {
				ff.Type = &m.Type{Elem: cloneType(rf.Type)}
				ff.Type.Elem.NonNull = false
			}
		case k == 2 && rf.Type.Elem != nil && rf.Type.Elem.NonNull:
			ff.Type = cloneType(rf.Type)
			ff.Type.Elem.NonNull = false
		default:
			ff.Type = cloneType(rf.Type)
			b := baseOf(ff.Type)
			if b.Name == "Boolean" {
				b.Name = "Int"
			} else {
				b.Name = "Boolean"
			}
		}
		return items, []string{impl, intf.Name}, true
	}},
	{"missing-interface-argument", func(r *core.Rand, items []*m.Item) ([]*m.Item, []string, bool) {
		_, impl, intf, rf, ff := findImplPair(r, items, true)
		if ff == nil {
			return nil, nil, false
		}
		drop := rf.Args[r.Intn(len(rf.Args))].Name
		var keep []*m.ArgDef
		for _, a := range ff.Args {
			if a.Name != drop {
				keep = append(keep, a)
			}
		}
		ff.Args = keep
		return items, []string{impl, intf.Name}, true
	}},
	{"interface-argument-type", func(r *core.Rand, items []*m.Item) ([]*m.Item, []string, bool) {
		_, impl, intf, rf, ff := findImplPair(r, items, true)
		if ff == nil {
			return nil, nil, false
		}
		ra := rf.Args[r.Intn(len(rf.Args))]
		for _, a := range ff.Args {
			if a.Name != ra.Name {
				continue
			}
			a.Type = cloneType(ra.Type)
			switch k := r.Intn(4); {
			case k == 0 && ra.Type.NonNull:
				// the implementer loosens a required argument to an optional one
				a.Type.NonNull = false
			case k == 1 && !ra.Type.NonNull:
				a.Type.NonNull = true
				a.Default = nil
			case k == 2 && ra.Type.Elem != nil:
				a.Type.Elem.NonNull = !a.Type.Elem.NonNull
				a.Default = nil
			case k == 3 && ra.Type.Elem == nil:
				a.Type = &m.Type{Elem: cloneType(ra.Type), NonNull: false}
				a.Type.Elem.NonNull = false
				a.Default = nil
			default:
				b := baseOf(a.Type)
				if b.Name == "Boolean" {
					b.Name = "Int"
				} else {
					b.Name = "Boolean"
				}
				a.Default = nil
			}
			return items, []string{impl, intf.Name}, true
		}
		return nil, nil, false
	}},
	{"extra-required-argument", func(r *core.Rand, items []*m.Item) ([]*m.Item, []string, bool) {
		_, impl, intf, _, ff := findImplPair(r, items, false)
		if ff == nil {
			return nil, nil, false
		}
		at := r.Intn(len(ff.Args) + 1) // before, between or after the interface's arguments
		ff.Args = append(ff.Args[:at:at], append([]*m.ArgDef{{Name: "requiredExtra", Type: &m.Type{Name: "Int", NonNull: true}}}, ff.Args[at:]...)...)
		return items, []string{impl, intf.Name}, true
	}},
	{"missing-transitive-interface", func(r *core.Rand, items []*m.Item) ([]*m.Item, []string, bool) {
		mg := Merge(items)
		for _, pi := range r.Perm(len(items)) {
			it := items[pi]
			if it.Kind != "type" && it.Kind != "interface" {
				continue
			}
			for _, ii := range r.Perm(len(it.Interfaces)) {
				in := it.Interfaces[ii]
				id := mg.Types[in]
				if id == nil {
					continue
				}
				for _, ti := range r.Perm(len(id.Interfaces)) { // any of the parents, not always the first
					tr := id.Interfaces[ti]
					// drop tr from every item of this type
					d := mg.Types[it.Name]
					for _, di := range d.Items {
						var keep []string
						for _, x := range di.Interfaces {
							if x != tr {
								keep = append(keep, x)
							}
						}
						di.Interfaces = keep
					}
					return items, []string{it.Name, in}, true
				}
			}
		}
		return nil, nil, false
	}},
	{"empty(type)", func(r *core.Rand, items []*m.Item) ([]*m.Item, []string, bool) {
		return append(items, &m.Item{Kind: "type", Name: "EmptyThing"}), []string{"EmptyThing"}, true
	}},
	{"empty(interface)", func(r *core.Rand, items []*m.Item) ([]*m.Item, []string, bool) {
		return append(items, &m.Item{Kind: "interface", Name: "EmptyThing"}), []string{"EmptyThing"}, true
	}},
	{"empty(input)", func(r *core.Rand, items []*m.Item) ([]*m.Item, []string, bool) {
		return append(items, &m.Item{Kind: "input", Name: "EmptyThing"}), []string{"EmptyThing"}, true
	}},
	{"empty(enum)", func(r *core.Rand, items []*m.Item) ([]*m.Item, []string, bool) {
		return append(items, &m.Item{Kind: "enum", Name: "EmptyThing"}), []string{"EmptyThing"}, true
	}},
	{"reserved-name(type)", func(r *core.Rand, items []*m.Item) ([]*m.Item, []string, bool) {
		k := r.Pick("scalar", "type", "enum", "input", "interface", "union")
		name := r.Pick("__Mine", "__Mine", "__", "__x", "___")
		it := &m.Item{Kind: k, Name: name}
		switch k {
		case "type", "interface":
			it.Fields = []*m.FieldDef{{Name: "a", Type: &m.Type{Name: "Int"}}}
		case "input":
			it.Fields = []*m.FieldDef{{Name: "a", Type: &m.Type{Name: "Int"}}}
		case "enum":
			it.Values = []*m.EnumVal{{Name: "A"}}
		case "union":
			ob := pickItem(r, itemsOfKind(items, false, "type"))
			if ob == nil {
				return nil, nil, false
			}
			it.Members = []string{ob.Name}
		}
		if k != "scalar" && r.Chance(1, 3) {
			// the reserved name comes into being through an extension only (no base definition anywhere)
			it.Extend = true
		}
		return append(items, it), []string{name}, true
	}},
	{"reserved-name(field)", func(r *core.Rand, items []*m.Item) ([]*m.Item, []string, bool) {
		it := pickItem(r, withFields(items, "type", "interface"))
		if it == nil {
			return nil, nil, false
		}
		it.Fields = append(it.Fields, &m.FieldDef{Name: r.Pick("__mine", "__", "__f"), Type: &m.Type{Name: "Int"}})
		return items, []string{it.Name}, true
	}},
	{"reserved-name(input-field)", func(r *core.Rand, items []*m.Item) ([]*m.Item, []string, bool) {
		it := pickItem(r, withFields(items, "input"))
		if it == nil {
			return nil, nil, false
		}
		it.Fields = append(it.Fields, &m.FieldDef{Name: r.Pick("__mine", "__", "__f"), Type: &m.Type{Name: "Int"}})
		return items, []string{it.Name}, true
	}},
	{"reserved-name(argument)", func(r *core.Rand, items []*m.Item) ([]*m.Item, []string, bool) {
		it := pickItem(r, withFields(items, "type", "interface"))
		if it == nil {
			return nil, nil, false
		}
		f := it.Fields[r.Intn(len(it.Fields))]
		f.Args = append(f.Args, &m.ArgDef{Name: r.Pick("__mine", "__", "__a"), Type: &m.Type{Name: "Int"}})
		return items, []string{it.Name}, true
	}},
	{"reserved-name(directive)", func(r *core.Rand, items []*m.Item) ([]*m.Item, []string, bool) {
		return append(items, &m.Item{Kind: "directive", Name: "__mine", Locations: []string{"FIELD"}}), []string{"@__mine"}, true
	}},
	{"reserved-name(directive-argument)", func(r *core.Rand, items []*m.Item) ([]*m.Item, []string, bool) {
		it := pickItem(r, userDirective(items))
		if it == nil {
			return nil, nil, false
		}
		it.Args = append(it.Args, &m.ArgDef{Name: r.Pick("__mine", "__", "__a"), Type: &m.Type{Name: "Int"}})
		return items, []string{"@" + it.Name}, true
	}},
	{"directive-location", func(r *core.Rand, items []*m.Item) ([]*m.Item, []string, bool) {
		// a directive declared for executable locations only, applied to a type-system location
		dn := "execOnly"
		items = append(items, &m.Item{Kind: "directive", Name: dn, Locations: []string{"FIELD", "QUERY"}})
		owner := applyDirSomewhere(r, items, m.Dir{Name: dn})
		if owner == "" {
			return nil, nil, false
		}
		return items, []string{owner, "@" + dn}, true
	}},
	{"undefined-directive", func(r *core.Rand, items []*m.Item) ([]*m.Item, []string, bool) {
		owner := applyDirSomewhere(r, items, m.Dir{Name: "nowhereDefined"})
		if owner == "" {
			return nil, nil, false
		}
		return items, []string{owner}, true
	}},
	{"directive-required-argument", func(r *core.Rand, items []*m.Item) ([]*m.Item, []string, bool) {
		dn := "needsArg"
		items = append(items, &m.Item{Kind: "directive", Name: dn, Locations: append([]string{}, AllLocations...), Repeatable: true,
			Args: []*m.ArgDef{{Name: "must", Type: &m.Type{Name: "Int", NonNull: true}}, {Name: "may", Type: &m.Type{Name: "Int"}}}})
		d := m.Dir{Name: dn}
		switch r.Intn(3) {
		case 0:
			d.Args = []m.Arg{{Name: "must", Value: &m.Value{Kind: m.VNull, Raw: "null"}}}
		case 1:
			d.Args = []m.Arg{{Name: "may", Value: &m.Value{Kind: m.VInt, Raw: "1"}}}
		}
		if r.Chance(1, 3) {
			if out, owner := applyGoodAndBad(r, items, m.Dir{Name: dn, Args: []m.Arg{{Name: "must", Value: &m.Value{Kind: m.VInt, Raw: "1"}}}}, d); owner != "" {
				return out, []string{owner, "@" + dn}, true
			}
		}
		owner := applyDirSomewhere(r, items, d)
		if owner == "" {
			return nil, nil, false
		}
		return items, []string{owner, "@" + dn}, true
	}},
}

// applyGoodAndBad applies a repeatable directive twice to one definition: once correctly and once with the fault, one of the
// two through an extension of the definition (which of the two, and whether the extension comes first, is random) - the
// merged list then has the faulty application first or last depending on how the sources are arranged.
func applyGoodAndBad(r *core.Rand, items []*m.Item, good, bad m.Dir) ([]*m.Item, string) {
	for _, pi := range r.Perm(len(items)) {
		it := items[pi]
		if it.Extend {
			continue
		}
		switch it.Kind {
		case "type", "interface", "union", "enum", "input", "scalar":
		default:
			continue
		}
		ext := &m.Item{Kind: it.Kind, Extend: true, Name: it.Name}
		if r.Bool() {
			// both through extensions of their own (extensions are merged in the order they are met)
			ext2 := &m.Item{Kind: it.Kind, Extend: true, Name: it.Name, Dirs: []m.Dir{good}}
			ext.Dirs = []m.Dir{bad}
			if r.Bool() {
				return append(items, ext, ext2), it.Name
			}
			return append(items, ext2, ext), it.Name
		}
		if r.Bool() {
			it.Dirs = append(it.Dirs, good)
			ext.Dirs = []m.Dir{bad}
		} else {
			it.Dirs = append(it.Dirs, bad)
			ext.Dirs = []m.Dir{good}
		}
		if r.Bool() {
			return append(items, ext), it.Name
		}
		out := append([]*m.Item{}, items[:pi]...)
		out = append(out, ext)
		return append(out, items[pi:]...), it.Name
	}
	return nil, ""
}

// applyDirSomewhere attaches d to a random type-system location and returns the owning definition's name.
func applyDirSomewhere(r *core.Rand, items []*m.Item, d m.Dir) string {
	for _, pi := range r.Perm(len(items)) {
		it := items[pi]
		if it.Kind == "directive" && it.Name == d.Name {
			continue
		}
		switch it.Kind {
		case "schema":
			if r.Chance(1, 2) {
				it.Dirs = append(it.Dirs, d)
				return "schema"
			}
		case "scalar", "union":
			it.Dirs = append(it.Dirs, d)
			return it.Name
		case "enum":
			if len(it.Values) > 0 && r.Bool() {
				v := it.Values[r.Intn(len(it.Values))]
				v.Dirs = append(v.Dirs, d)
			} else {
				it.Dirs = append(it.Dirs, d)
			}
			return it.Name
		case "type", "interface", "input":
			if len(it.Fields) > 0 && r.Chance(2, 3) {
				f := it.Fields[r.Intn(len(it.Fields))]
				if len(f.Args) > 0 && r.Bool() {
					a := f.Args[r.Intn(len(f.Args))]
					a.Dirs = append(a.Dirs, d)
				} else {
					f.Dirs = append(f.Dirs, d)
				}
			} else {
				it.Dirs = append(it.Dirs, d)
			}
			return it.Name
		case "directive":
			if len(it.Args) > 0 {
				a := it.Args[r.Intn(len(it.Args))]
				a.Dirs = append(a.Dirs, d)
				return "@" + it.Name
			}
		}
	}
	return ""
}

// ExtraFaults violate rules the loader enforces beyond the enumeration of property C07 (the
// reference checker reports them as Extra). They are used where only order independence is
// judged (C17), never for C07's verdicts.
var ExtraFaults = []Fault{
	{"root-not-object", func(r *core.Rand, items []*m.Item) ([]*m.Item, []string, bool) {
		// a root operation type that is not an object type (the loader does not look at the kind; the property does not list it)
		var sch *m.Item
		for _, it := range items {
			if it.Kind == "schema" && len(it.OpTypes) > 0 {
				sch = it
			}
		}
		other := itemsOfKind(items, false, "interface", "union", "enum", "input", "scalar")
		if sch == nil || len(other) == 0 {
			return nil, nil, false
		}
		o := pickItem(r, other)
		i := r.Intn(len(sch.OpTypes))
		sch.OpTypes[i].Type = o.Name
		inv := []string{o.Name}
		if r.Bool() {
			// two (or three) roots that are not objects, each of another type where there are several: a loader that looks
			// at the roots in no particular order names now this one, now that one
			for _, op := range []string{"query", "mutation", "subscription"} {
				o2 := pickItem(r, other)
				found := false
				for k := range sch.OpTypes {
					if sch.OpTypes[k].Op == op {
						found = true
						if k != i {
							sch.OpTypes[k].Type = o2.Name
							inv = append(inv, o2.Name)
						}
					}
				}
				if !found && r.Bool() {
					sch.OpTypes = append(sch.OpTypes, m.OpType{Op: op, Type: o2.Name})
					inv = append(inv, o2.Name)
				}
			}
		}
		return items, inv, true
	}},
	{"extension-kind-mismatch", func(r *core.Rand, items []*m.Item) ([]*m.Item, []string, bool) {
		it := pickItem(r, itemsOfKind(items, false, "type", "interface", "input", "enum", "union", "scalar"))
		if it == nil {
			return nil, nil, false
		}
		// a correct extension and a wrong-kind extension of the same type
		good := &m.Item{Kind: it.Kind, Extend: true, Name: it.Name}
		switch it.Kind {
		case "type", "interface":
			good.Fields = []*m.FieldDef{{Name: "extraGood", Type: &m.Type{Name: "Int"}}}
		case "input":
			good.Fields = []*m.FieldDef{{Name: "extraGood", Type: &m.Type{Name: "Int"}}}
		case "enum":
			good.Values = []*m.EnumVal{{Name: "EXTRA_GOOD"}}
		default:
			good = nil
		}
		wrongKind := "interface"
		if it.Kind == "interface" {
			wrongKind = "type"
		}
		bad := &m.Item{Kind: wrongKind, Extend: true, Name: it.Name, Fields: []*m.FieldDef{{Name: "extraBad", Type: &m.Type{Name: "Int"}}}}
		if good != nil {
			items = append(items, good)
		}
		pos := r.Intn(len(items) + 1)
		out := append(append(append([]*m.Item{}, items[:pos]...), bad), items[pos:]...)
		return out, []string{it.Name}, true
	}},
	{"multiple-schema-definitions", func(r *core.Rand, items []*m.Item) ([]*m.Item, []string, bool) {
		q := "Query"
		for _, it := range items {
			if it.Kind == "schema" && !it.Extend && len(it.OpTypes) > 0 {
				q = it.OpTypes[0].Type
			}
		}
		have := false
		for _, it := range items {
			if it.Kind == "schema" && !it.Extend {
				have = true
			}
		}
		if !have {
			items = append(items, &m.Item{Kind: "schema", OpTypes: []m.OpType{{Op: "query", Type: q}}})
		}
		return append(items, &m.Item{Kind: "schema", OpTypes: []m.OpType{{Op: "query", Type: q}}}), []string{"schema"}, true
	}},
	{"unknown-directive-argument", func(r *core.Rand, items []*m.Item) ([]*m.Item, []string, bool) {
		dn := "noArgs"
		items = append(items, &m.Item{Kind: "directive", Name: dn, Locations: append([]string{}, AllLocations...), Repeatable: true})
		if r.Chance(1, 3) {
			if out, owner := applyGoodAndBad(r, items, m.Dir{Name: dn}, m.Dir{Name: dn, Args: []m.Arg{{Name: "nope", Value: &m.Value{Kind: m.VInt, Raw: "1"}}}}); owner != "" {
				return out, []string{owner, "@" + dn}, true
			}
		}
		owner := applyDirSomewhere(r, items, m.Dir{Name: dn, Args: []m.Arg{{Name: "nope", Value: &m.Value{Kind: m.VInt, Raw: "1"}}}})
		if owner == "" {
			return nil, nil, false
		}
		return items, []string{owner, "@" + dn}, true
	}},
}

func init() {
	// the same rules, violated inside an extension of a built-in (prelude) type: extensions are merged into
	// the built-in definition, which must still be validated
	ext := func(kind, name string) *m.Item { return &m.Item{Kind: kind, Extend: true, Name: name} }
	Faults = append(Faults,
		Fault{"undefined-type(output-field)", func(r *core.Rand, items []*m.Item) ([]*m.Item, []string, bool) {
			n := r.Pick("__Schema", "__Type", "__Field")
			e := ext("type", n)
			e.Fields = []*m.FieldDef{{Name: "extraField", Type: &m.Type{Name: "Missing"}}}
			return append(items, e), []string{n}, true
		}},
		Fault{"undefined-directive", func(r *core.Rand, items []*m.Item) ([]*m.Item, []string, bool) {
			n := r.Pick("String", "Int", "ID")
			e := ext("scalar", n)
			e.Dirs = []m.Dir{{Name: "nowhereDefined"}}
			return append(items, e), []string{n}, true
		}},
		Fault{"dup-field", func(r *core.Rand, items []*m.Item) ([]*m.Item, []string, bool) {
			e := ext("type", "__Type")
			e.Fields = []*m.FieldDef{{Name: "name", Type: &m.Type{Name: "String"}}}
			return append(items, e), []string{"__Type"}, true
		}},
		Fault{"kind(output-field)", func(r *core.Rand, items []*m.Item) ([]*m.Item, []string, bool) {
			in := pickItem(r, itemsOfKind(items, false, "input"))
			if in == nil {
				return nil, nil, false
			}
			e := ext("type", "__Directive")
			e.Fields = []*m.FieldDef{{Name: "extraField", Type: &m.Type{Name: in.Name}}}
			return append(items, e), []string{"__Directive", in.Name}, true
		}},
		Fault{"undefined-type(input-field)", func(r *core.Rand, items []*m.Item) ([]*m.Item, []string, bool) {
			// an enum extension is fine, an undefined directive argument type on a new directive is not; here: an
			// extension of a built-in enum that applies an undefined directive to a value would be directive, so use
			// a plain kind error instead: built-in enum extended with a value carrying an undefined directive
			e := ext("enum", "__TypeKind")
			e.Values = []*m.EnumVal{{Name: "EXTRA", Dirs: []m.Dir{{Name: "nowhereDefined"}}}}
			return append(items, e), []string{"__TypeKind"}, true
		}},
	)
	// the last entry's code is what the checker reports for it
	Faults[len(Faults)-1].Code = "undefined-directive"
}
