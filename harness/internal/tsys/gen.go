package tsys

import (
	"fmt"
	"strings"

	"verif/harness/internal/core"
	m "verif/harness/internal/model"
)

// GenOpts steers the valid-by-construction schema generator.
type GenOpts struct {
	Hostile    bool // hostile description strings
	Descs      bool // descriptions at all
	Extensions bool // split definitions into extensions
	ExtOnly    bool // allow types that exist only through extensions (accepted by the loader; used by C13/C17)
	Small      bool
}

var AllLocations = []string{
	"QUERY", "MUTATION", "SUBSCRIPTION", "FIELD", "FRAGMENT_DEFINITION", "FRAGMENT_SPREAD", "INLINE_FRAGMENT", "VARIABLE_DEFINITION",
	"SCHEMA", "SCALAR", "OBJECT", "FIELD_DEFINITION", "ARGUMENT_DEFINITION", "INTERFACE", "UNION", "ENUM", "ENUM_VALUE", "INPUT_OBJECT", "INPUT_FIELD_DEFINITION",
}

var hostileDescs = []string{
	"a", "é", `"`, `say "hi"`, `\`, `back\slash`, `"""`, `a """ b`, `\"""`, " lead", "trail ", "\n\nx\n\n", "  a\n    b\n  c", "line1\n line2", "tab\there",
	"😀", " ", "   ", "ends with quote\"", `""`, `""""`, "#not comment", "\ttabfirst", "a\n\n\nb", "x\n  \ny", " \n ", "\nleading newline", "trailing newline\n",
	"  indented first\nsecond", " nbsp", "​", "{}[]()$@!|&=:", "...", "\\u0041", "\\n", "a\\", "q\"\"", "multi\n\"\"\"\nline",
	`two """ and """ more`, `"""""" twice in a row`, "first \"\"\" line\nsecond \"\"\" line",
	"  first\n\n  second", "\tone\n\n\ttwo", "  a\n\n\n  b\n   c", "\U000F0000 private use", "tag \U000E0001 char", "\u00ad soft hyphen", "\u200b\u001f\u000b",
}
var plainDescs = []string{"a description", "x", "multi\nline", "Ends.", "The thing"}

type sgen struct {
	r *core.Rand
	o *GenOpts

	scalars, enums, inputs, ifaces, objects, unions, dirs []string
	enumVals                                              map[string][]string
	impl                                                  map[string][]string // object/interface -> interfaces (closed)
	members                                               map[string][]string
	oneOf                                                 map[string]bool
	items                                                 map[string]*m.Item
	dirDefs                                               []*m.Item
	order                                                 []*m.Item
	inputIdx                                              map[string]int
}

func pickN(r *core.Rand, pool []string, n int) []string {
	p := r.Perm(len(pool))
	if n > len(pool) {
		n = len(pool)
	}
	out := make([]string, 0, n)
	for _, i := range p[:n] {
		out = append(out, pool[i])
	}
	return out
}

// Schema generates a list of top-level items forming a valid type system.
func Schema(r *core.Rand, o *GenOpts) []*m.Item {
	g := &sgen{r: r, o: o, enumVals: map[string][]string{}, impl: map[string][]string{}, members: map[string][]string{}, oneOf: map[string]bool{}, items: map[string]*m.Item{}, inputIdx: map[string]int{}}
	k := 1
	if !o.Small {
		k = 2
	}
	g.scalars = pickN(r, []string{"Date", "JSON", "Url"}, r.Intn(2*k))
	g.enums = pickN(r, []string{"Color", "Colour", "Dir", "Unit"}, 1+r.Intn(k+1))
	g.inputs = pickN(r, []string{"Filter", "Point", "Opts", "Choice", "Fliter", "FILTER"}, 1+r.Intn(k+1))
	g.ifaces = pickN(r, []string{"Node", "Named", "Entity", "Res", "Nodes", "NODE"}, r.Intn(2*k+1))
	g.objects = pickN(r, []string{"User", "Post", "Comment", "Dog", "Doh", "Cat", "Dot", "DOG", "dog"}, 2+r.Intn(2*k))
	g.unions = pickN(r, []string{"SearchResult", "Pet", "Pat"}, r.Intn(k+1))
	g.dirs = pickN(r, []string{"tag", "auth", "meta", "rep", "tags"}, 1+r.Intn(k+1))

	// roots
	queryName, mutName, subName := "Query", "", ""
	schemaBlock := r.Chance(1, 2)
	if schemaBlock && r.Chance(2, 3) {
		queryName = r.Pick("QueryRoot", "RootQ", "Q")
	}
	if r.Chance(1, 2) {
		mutName = "Mutation"
		if schemaBlock && r.Chance(1, 2) {
			mutName = r.Pick("MutationRoot", "M")
		}
	}
	if r.Chance(1, 3) {
		subName = "Subscription"
		if schemaBlock && r.Chance(1, 2) {
			subName = r.Pick("SubscriptionRoot", "S")
		}
	}
	// without a schema definition the conventional names make the roots; a schema extension may still add a root of
	// another name (and, further down, schema directives) on top of them
	var extOps []m.OpType
	if !schemaBlock && r.Chance(1, 5) {
		if subName == "" && r.Bool() {
			subName = r.Pick("SubscriptionRoot", "S")
			extOps = append(extOps, m.OpType{Op: "subscription", Type: subName})
		} else if mutName == "" {
			mutName = r.Pick("MutationRoot", "M")
			extOps = append(extOps, m.OpType{Op: "mutation", Type: mutName})
		}
	}
	roots := []string{queryName}
	if mutName != "" {
		roots = append(roots, mutName)
	}
	if subName != "" {
		roots = append(roots, subName)
	}
	// with a schema block, types that merely carry a default root name are ordinary objects
	// ... or types of any other kind: with an explicit schema definition the names mean nothing
	other := func(name string) {
		switch r.Intn(6) {
		case 0:
			g.enums = append(g.enums, name)
		case 1:
			g.scalars = append(g.scalars, name)
		case 2:
			g.inputs = append(g.inputs, name)
		case 3:
			g.ifaces = append(g.ifaces, name)
		default:
			g.objects = append(g.objects, name)
		}
	}
	if schemaBlock && mutName != "Mutation" && r.Chance(1, 3) {
		other("Mutation")
	}
	if schemaBlock && subName != "Subscription" && r.Chance(1, 4) {
		other("Subscription")
	}
	if schemaBlock && queryName != "Query" && r.Chance(1, 4) {
		g.objects = append(g.objects, "Query")
	}
	g.objects = append(g.objects, roots...)

	// relations planned before any field is generated
	for i, in := range g.ifaces {
		set := map[string]bool{}
		for j := 0; j < i; j++ {
			if r.Chance(1, 3) {
				set[g.ifaces[j]] = true
				for _, t := range g.impl[g.ifaces[j]] {
					set[t] = true
				}
			}
		}
		for _, c := range g.ifaces[:i] {
			if set[c] {
				g.impl[in] = append(g.impl[in], c)
			}
		}
	}
	for _, ob := range g.objects {
		set := map[string]bool{}
		for _, in := range g.ifaces {
			if r.Chance(1, 3) {
				set[in] = true
				for _, t := range g.impl[in] {
					set[t] = true
				}
			}
		}
		for _, c := range g.ifaces {
			if set[c] {
				g.impl[ob] = append(g.impl[ob], c)
			}
		}
	}
	plain := g.objects[:len(g.objects)-len(roots)]
	for _, u := range g.unions {
		src := plain
		if len(src) == 0 {
			src = g.objects
		}
		g.members[u] = pickN(r, src, 1+r.Intn(len(src)))
	}
	for i, in := range g.inputs {
		g.inputIdx[in] = i
		if r.Chance(1, 4) {
			g.oneOf[in] = true
		}
	}

	// definitions
	for _, s := range g.scalars {
		it := &m.Item{Kind: "scalar", Name: s}
		if r.Chance(1, 3) {
			it.Dirs = append(it.Dirs, m.Dir{Name: "specifiedBy", Args: []m.Arg{{Name: "url", Value: &m.Value{Kind: m.VString, Raw: "https://example.com/" + strings.ToLower(s)}}}})
		}
		g.add(it)
	}
	valuePools := [][]string{{"RED", "GREEN", "BLUE"}, {"NORTH", "SOUTH", "north"}, {"A", "B", "C", "D"}, {"ON", "OFF"}, {"on", "query", "fragment", "type"}, {"TRUE", "False", "Null", "nULL"}, {"True", "FALSE", "NULL", "truE"}}
	for _, e := range g.enums {
		it := &m.Item{Kind: "enum", Name: e}
		pool := valuePools[r.Intn(len(valuePools))]
		vals := pickN(r, pool, 1+r.Intn(len(pool)))
		g.enumVals[e] = vals
		for _, v := range vals {
			it.Values = append(it.Values, &m.EnumVal{Name: v})
		}
		g.add(it)
	}
	// directive definitions (arguments use scalars, enums and inputs)
	for _, d := range g.dirs {
		it := &m.Item{Kind: "directive", Name: d, Repeatable: r.Chance(1, 3)}
		it.Locations = pickN(r, AllLocations, 1+r.Intn(8))
		if r.Chance(1, 4) {
			it.Locations = append([]string{}, AllLocations...)
		}
		it.Args = g.argDefs(r.Intn(4), false)
		g.dirDefs = append(g.dirDefs, it)
		g.items["@"+d] = it
		g.order = append(g.order, it)
	}
	for _, in := range g.inputs {
		it := &m.Item{Kind: "input", Name: in}
		n := 1 + r.Intn(4)
		used := map[string]bool{}
		for i := 0; i < n; i++ {
			fn := g.fieldName(used)
			f := &m.FieldDef{Name: fn}
			f.Type = g.inputType(in, g.oneOf[in])
			if !g.oneOf[in] && r.Chance(1, 3) {
				f.Default = g.ConstValue(f.Type, 2)
			}
			it.Fields = append(it.Fields, f)
		}
		if g.oneOf[in] {
			it.Dirs = append(it.Dirs, m.Dir{Name: "oneOf"})
			leaf := false
			for _, f := range it.Fields {
				if _, isInput := g.inputIdx[baseOf(f.Type).Name]; !isInput {
					leaf = true
				}
			}
			if !leaf {
				it.Fields = append(it.Fields, &m.FieldDef{Name: g.fieldName(used), Type: &m.Type{Name: "Int"}})
			}
		}
		g.add(it)
	}
	ifaceOwn := map[string]bool{}
	for _, in := range g.ifaces {
		it := &m.Item{Kind: "interface", Name: in, Interfaces: append([]string{}, g.impl[in]...)}
		used := map[string]bool{}
		g.inherit(it, used, true)
		n := 1 + r.Intn(3)
		for i := 0; i < n; i++ {
			// own fields of interfaces are unique across all interfaces, so that a type implementing
			// several of them never faces two unrelated requirements for one field name
			for k := range ifaceOwn {
				used[k] = true
			}
			f := g.outField(used)
			ifaceOwn[f.Name] = true
			it.Fields = append(it.Fields, f)
		}
		g.add(it)
	}
	for _, ob := range g.objects {
		it := &m.Item{Kind: "type", Name: ob, Interfaces: append([]string{}, g.impl[ob]...)}
		used := map[string]bool{}
		g.inherit(it, used, false)
		n := 1 + r.Intn(4)
		if len(it.Fields) > 0 {
			n = r.Intn(3)
		}
		for i := 0; i < n; i++ {
			it.Fields = append(it.Fields, g.outField(used))
		}
		g.add(it)
	}
	for _, u := range g.unions {
		g.add(&m.Item{Kind: "union", Name: u, Members: append([]string{}, g.members[u]...), LeadSep: r.Chance(1, 5)})
	}
	var schemaItem *m.Item
	if schemaBlock {
		schemaItem = &m.Item{Kind: "schema"}
		schemaItem.OpTypes = append(schemaItem.OpTypes, m.OpType{Op: "query", Type: queryName})
		if mutName != "" {
			schemaItem.OpTypes = append(schemaItem.OpTypes, m.OpType{Op: "mutation", Type: mutName})
		}
		if subName != "" {
			schemaItem.OpTypes = append(schemaItem.OpTypes, m.OpType{Op: "subscription", Type: subName})
		}
		g.order = append(g.order, schemaItem)
	}

	if !schemaBlock && (len(extOps) > 0 || r.Chance(1, 6)) {
		ext := &m.Item{Kind: "schema", Extend: true, OpTypes: extOps}
		ext.Dirs = g.maybeDirs("SCHEMA", nil, "")
		if len(ext.Dirs) == 0 {
			if d, ok := g.dirFor("SCHEMA", nil, ""); ok {
				ext.Dirs = []m.Dir{d}
			}
		}
		if len(ext.OpTypes) == 0 {
			ext.NoBody = true
		}
		if len(ext.OpTypes) > 0 && len(ext.Dirs) > 0 && r.Bool() {
			// two extensions: one with directives only, one with the operation type, in either order
			dirsOnly := &m.Item{Kind: "schema", Extend: true, Dirs: ext.Dirs, NoBody: true}
			ext.Dirs = nil
			pair := []*m.Item{dirsOnly, ext}
			if r.Bool() {
				pair = []*m.Item{ext, dirsOnly}
			}
			at := r.Intn(len(g.order) + 1)
			g.order = append(g.order[:at], append(pair, g.order[at:]...)...)
		} else if len(ext.OpTypes) > 0 || len(ext.Dirs) > 0 {
			at := r.Intn(len(g.order) + 1)
			g.order = append(g.order[:at], append([]*m.Item{ext}, g.order[at:]...)...)
		}
	}
	// directive applications at every definitional location
	g.applyAll(schemaItem)
	if o.Descs {
		g.describeAll()
	}
	items := g.order
	if o.Extensions {
		items = g.split(items, schemaItem)
	}
	return items
}

func (g *sgen) add(it *m.Item) {
	g.items[it.Name] = it
	g.order = append(g.order, it)
}

var fieldNames = []string{"id", "name", "title", "body", "owner", "items", "count", "kind", "node", "next", "tags", "score", "parent", "nmae", "a", "b", "on", "type", "query", "fragment", "nme"}
var argNames = []string{"first", "after", "id", "filter", "where", "flag", "kind", "n", "ids", "input", "frist", "on"}

func (g *sgen) fieldName(used map[string]bool) string {
	for i := 0; ; i++ {
		n := fieldNames[g.r.Intn(len(fieldNames))]
		if i > 30 {
			n = fmt.Sprintf("f%d", i)
		}
		if !used[n] {
			used[n] = true
			return n
		}
	}
}

func wrap(r *core.Rand, base string, forceNullable bool) *m.Type {
	t := &m.Type{Name: base}
	switch r.Intn(8) {
	case 0:
		t = &m.Type{Elem: t}
	case 1:
		t.NonNull = true
		t = &m.Type{Elem: t}
	case 2:
		t = &m.Type{Elem: &m.Type{Elem: t}}
	case 3:
		t.NonNull = true
		t = &m.Type{Elem: &m.Type{Elem: t, NonNull: r.Bool()}}
	case 4:
		// three (sometimes four) list levels, each with its own nullability
		t.NonNull = r.Bool()
		for k, n := 0, 3+r.Intn(2)*r.Intn(2); k < n; k++ {
			t = &m.Type{Elem: t, NonNull: k < n-1 && r.Bool()}
		}
	}
	if !forceNullable && r.Chance(1, 3) {
		t.NonNull = true
	}
	return t
}

var builtinScalars = []string{"Int", "Float", "String", "Boolean", "ID"}

func (g *sgen) outputType() *m.Type {
	r := g.r
	var base string
	switch k := r.Intn(10); {
	case k < 4:
		base = builtinScalars[r.Intn(5)]
	case k < 5 && len(g.scalars) > 0:
		base = g.scalars[r.Intn(len(g.scalars))]
	case k < 6:
		base = g.enums[r.Intn(len(g.enums))]
	case k < 8:
		base = g.objects[r.Intn(len(g.objects))]
	case k < 9 && len(g.ifaces) > 0:
		base = g.ifaces[r.Intn(len(g.ifaces))]
	case len(g.unions) > 0:
		base = g.unions[r.Intn(len(g.unions))]
	default:
		base = g.objects[r.Intn(len(g.objects))]
	}
	if r.Chance(1, 40) {
		// the introspection types are ordinary output types: a user field may return them
		base = r.Pick("__Type", "__TypeKind", "__Schema", "__DirectiveLocation", "__Field")
	}
	return wrap(r, base, false)
}

// inputType picks an input type; references to input objects that could form a non-null cycle are kept nullable.
func (g *sgen) inputType(owner string, nullableOnly bool) *m.Type {
	r := g.r
	var base string
	risky := false
	switch k := r.Intn(10); {
	case k < 5:
		base = builtinScalars[r.Intn(5)]
	case k < 6 && len(g.scalars) > 0:
		base = g.scalars[r.Intn(len(g.scalars))]
	case k < 8:
		base = g.enums[r.Intn(len(g.enums))]
	default:
		base = g.inputs[r.Intn(len(g.inputs))]
		if owner != "" {
			if oi, ok := g.inputIdx[owner]; ok && g.inputIdx[base] >= oi {
				risky = true
			}
		}
	}
	t := wrap(r, base, nullableOnly || risky)
	if risky {
		// a directly nested non-null reference would make the type uninhabitable
		for e := t; e != nil; e = e.Elem {
			if e.Elem == nil {
				e.NonNull = false
			}
		}
		t.NonNull = false
	}
	return t
}

func (g *sgen) argDefs(n int, allowRequired bool) []*m.ArgDef {
	var out []*m.ArgDef
	used := map[string]bool{}
	for i := 0; i < n; i++ {
		an := argNames[g.r.Intn(len(argNames))]
		if used[an] {
			continue
		}
		used[an] = true
		a := &m.ArgDef{Name: an, Type: g.inputType("", false)}
		if g.r.Chance(1, 3) {
			a.Default = g.ConstValue(a.Type, 2)
		}
		out = append(out, a)
	}
	return out
}

func (g *sgen) outField(used map[string]bool) *m.FieldDef {
	f := &m.FieldDef{Name: g.fieldName(used), Type: g.outputType()}
	if g.r.Chance(1, 2) {
		f.Args = g.argDefs(1+g.r.Intn(3), true)
	}
	return f
}

func cloneType(t *m.Type) *m.Type {
	if t == nil {
		return nil
	}
	c := *t
	c.Elem = cloneType(t.Elem)
	return &c
}

// narrow returns a covariant variant of t.
func (g *sgen) narrow(t *m.Type) *m.Type {
	c := cloneType(t)
	r := g.r
	for e := c; e != nil; e = e.Elem {
		if !e.NonNull && r.Chance(1, 4) {
			e.NonNull = true
		}
		if e.Elem == nil && r.Chance(1, 3) {
			// narrow the named type
			var cands []string
			for _, n := range append(append([]string{}, g.objects...), g.ifaces...) {
				for _, i := range g.impl[n] {
					if i == e.Name {
						cands = append(cands, n)
					}
				}
			}
			cands = append(cands, g.members[e.Name]...)
			if len(cands) > 0 {
				e.Name = cands[r.Intn(len(cands))]
			}
		}
	}
	return c
}

// inherit copies the fields required by the item's interfaces (covariantly narrowed, with optional extra arguments).
func (g *sgen) inherit(it *m.Item, used map[string]bool, exact bool) {
	for _, in := range it.Interfaces {
		id := g.items[in]
		for _, rf := range id.Fields {
			if used[rf.Name] {
				// already provided through another interface: it must satisfy both; keep the interface's own
				// requirement satisfiable by reusing the identical definition when types agree
				continue
			}
			used[rf.Name] = true
			f := &m.FieldDef{Name: rf.Name, Type: cloneType(rf.Type)}
			if !exact {
				f.Type = g.narrow(rf.Type)
			}
			for _, a := range rf.Args {
				na := &m.ArgDef{Name: a.Name, Type: cloneType(a.Type)}
				if a.Default != nil && g.r.Chance(1, 2) {
					na.Default = a.Default
				} else if g.r.Chance(1, 4) {
					na.Default = g.ConstValue(na.Type, 2)
				}
				f.Args = append(f.Args, na)
			}
			if !exact && g.r.Chance(1, 4) {
				extra := &m.ArgDef{Name: "extra", Type: g.inputType("", true)}
				if g.r.Chance(1, 2) {
					extra.Type.NonNull = true
					extra.Default = g.ConstValue(extra.Type, 2)
				}
				// anywhere among the interface's arguments: the rules match arguments by name, not by position
				at := g.r.Intn(len(f.Args) + 1)
				f.Args = append(f.Args[:at], append([]*m.ArgDef{extra}, f.Args[at:]...)...)
			}
			if !exact && len(f.Args) > 1 && g.r.Chance(1, 3) {
				p := g.r.Perm(len(f.Args))
				sh := make([]*m.ArgDef, len(f.Args))
				for i, j := range p {
					sh[i] = f.Args[j]
				}
				f.Args = sh
			}
			it.Fields = append(it.Fields, f)
		}
	}
}

func (g *sgen) typeKind(name string) string {
	if it := g.items[name]; it != nil {
		return it.Kind
	}
	return "scalar"
}

// ConstValue generates a constant literal that is valid for input type t.
func (g *sgen) ConstValue(t *m.Type, depth int) *m.Value {
	return GenValue(g.r, func(name string) *m.Item { return g.items[name] }, t, depth, true)
}

// GenValue generates a literal valid for type t. lookup returns the defining item of a named type
// (nil for built-in scalars). When nullOK is false a null literal is never produced at the top.
func GenValue(r *core.Rand, lookup func(string) *m.Item, t *m.Type, depth int, nullOK bool) *m.Value {
	if !t.NonNull && nullOK && r.Chance(1, 6) {
		return &m.Value{Kind: m.VNull, Raw: "null"}
	}
	if t.Elem != nil {
		if r.Chance(1, 6) && t.Elem.Elem == nil {
			// list coercion of a single value
			return GenValue(r, lookup, t.Elem, depth, false)
		}
		v := &m.Value{Kind: m.VList}
		n := r.Intn(3)
		if depth <= 0 {
			n = 0
		} else if t.Elem.Elem == nil && r.Chance(1, 80) {
			// a long list (more items than anything that shortens lists for display would keep)
			n = 129 + r.Intn(200)
		}
		for i := 0; i < n; i++ {
			v.Items = append(v.Items, GenValue(r, lookup, t.Elem, depth-1, true))
		}
		return v
	}
	switch t.Name {
	case "Int":
		return &m.Value{Kind: m.VInt, Raw: r.Pick("0", "1", "-1", "42", "2147483647", "-2147483648", "7")}
	case "Float":
		if r.Bool() {
			return &m.Value{Kind: m.VFloat, Raw: r.Pick("1.5", "-0.5", "1e3", "6.02E23", "0.0", "1E3", "-2E+10", "-0.0", "1e-7", "0e0")}
		}
		return &m.Value{Kind: m.VInt, Raw: r.Pick("0", "3", "-2")}
	case "String":
		return &m.Value{Kind: m.VString, Raw: r.Pick("", "a", "hello world", "x\"y", "é", "usage:\n  first\n  second", "a\n\tb\n\tc", "ends in a backslash\\", "two\nlines", "  indented first line\nrest")}
	case "Boolean":
		return &m.Value{Kind: m.VBool, Raw: r.Pick("true", "false")}
	case "ID":
		if r.Bool() {
			return &m.Value{Kind: m.VString, Raw: r.Pick("id1", "42", "")}
		}
		return &m.Value{Kind: m.VInt, Raw: r.Pick("1", "99")}
	}
	it := lookup(t.Name)
	if it == nil {
		return &m.Value{Kind: m.VString, Raw: "?"}
	}
	switch it.Kind {
	case "enum":
		if len(it.Values) == 0 {
			return &m.Value{Kind: m.VNull, Raw: "null"}
		}
		return &m.Value{Kind: m.VEnum, Raw: it.Values[r.Intn(len(it.Values))].Name}
	case "scalar":
		// custom scalar: any literal
		switch r.Intn(6) {
		case 0:
			return &m.Value{Kind: m.VInt, Raw: r.Pick("1", "99999999999", "-5", "7", "99999999999999999999")}
		case 1:
			return &m.Value{Kind: m.VString, Raw: "2020-01-01"}
		case 2:
			return &m.Value{Kind: m.VObject, Fields: []m.ObjField{{Name: "k", Value: &m.Value{Kind: m.VList, Items: []*m.Value{{Kind: m.VInt, Raw: "1"}, {Kind: m.VEnum, Raw: "X"}}}}}}
		case 3:
			return &m.Value{Kind: m.VFloat, Raw: "1.25"}
		case 4:
			return &m.Value{Kind: m.VBool, Raw: "true"}
		}
		return &m.Value{Kind: m.VEnum, Raw: "ANY"}
	case "input":
		v := &m.Value{Kind: m.VObject}
		oneOf := false
		for _, d := range it.Dirs {
			if d.Name == "oneOf" {
				oneOf = true
			}
		}
		if depth < -6 {
			return v
		}
		if oneOf {
			f := it.Fields[r.Intn(len(it.Fields))]
			if depth <= 0 {
				// terminate: prefer a member that is not itself an input object
				for _, c := range it.Fields {
					if ci := lookup(baseOf(c.Type).Name); ci == nil || ci.Kind != "input" {
						f = c
						break
					}
				}
			}
			nn := cloneType(f.Type)
			nn.NonNull = true
			v.Fields = append(v.Fields, m.ObjField{Name: f.Name, Value: GenValue(r, lookup, nn, depth-1, false)})
			return v
		}
		for _, f := range it.Fields {
			required := f.Type.NonNull && f.Default == nil
			if required || (depth > 0 && r.Chance(1, 2)) {
				v.Fields = append(v.Fields, m.ObjField{Name: f.Name, Value: GenValue(r, lookup, f.Type, depth-1, true)})
			}
		}
		return v
	}
	return &m.Value{Kind: m.VNull, Raw: "null"}
}

// ---------------------------------------------------------------- directives and descriptions

func (g *sgen) dirFor(loc string, have []m.Dir, exclude string) (m.Dir, bool) {
	var cands []*m.Item
	for _, d := range g.dirDefs {
		if d.Name == exclude {
			continue
		}
		for _, l := range d.Locations {
			if l == loc {
				already := false
				for _, h := range have {
					if h.Name == d.Name {
						already = true
					}
				}
				if !already || d.Repeatable {
					cands = append(cands, d)
				}
				break
			}
		}
	}
	if len(cands) == 0 {
		return m.Dir{}, false
	}
	def := cands[g.r.Intn(len(cands))]
	d := m.Dir{Name: def.Name}
	for _, a := range def.Args {
		required := a.Type.NonNull && a.Default == nil
		if required || g.r.Chance(1, 2) {
			d.Args = append(d.Args, m.Arg{Name: a.Name, Value: GenValue(g.r, func(n string) *m.Item { return g.items[n] }, a.Type, 2, !required)})
		}
	}
	return d, true
}

func (g *sgen) maybeDirs(loc string, have []m.Dir, exclude string) []m.Dir {
	out := have
	for g.r.Chance(1, 5) {
		d, ok := g.dirFor(loc, out, exclude)
		if !ok {
			break
		}
		out = append(out, d)
	}
	return out
}

func (g *sgen) deprecated(have []m.Dir) []m.Dir {
	if !g.r.Chance(1, 8) {
		return have
	}
	d := m.Dir{Name: "deprecated"}
	if g.r.Bool() {
		d.Args = []m.Arg{{Name: "reason", Value: &m.Value{Kind: m.VString, Raw: g.r.Pick("old", "use other", "", "No longer supported", "no longer supported")}}}
	}
	return append(have, d)
}

func (g *sgen) applyAll(schemaItem *m.Item) {
	if schemaItem != nil {
		schemaItem.Dirs = g.maybeDirs("SCHEMA", schemaItem.Dirs, "")
	}
	for _, it := range g.order {
		switch it.Kind {
		case "scalar":
			it.Dirs = g.maybeDirs("SCALAR", it.Dirs, "")
		case "type":
			it.Dirs = g.maybeDirs("OBJECT", it.Dirs, "")
		case "interface":
			it.Dirs = g.maybeDirs("INTERFACE", it.Dirs, "")
		case "union":
			it.Dirs = g.maybeDirs("UNION", it.Dirs, "")
		case "enum":
			it.Dirs = g.maybeDirs("ENUM", it.Dirs, "")
			for _, v := range it.Values {
				v.Dirs = g.deprecated(g.maybeDirs("ENUM_VALUE", v.Dirs, ""))
			}
		case "input":
			it.Dirs = g.maybeDirs("INPUT_OBJECT", it.Dirs, "")
			for _, f := range it.Fields {
				f.Dirs = g.maybeDirs("INPUT_FIELD_DEFINITION", f.Dirs, "")
				if !f.Type.NonNull || f.Default != nil {
					f.Dirs = g.deprecated(f.Dirs)
				}
			}
		case "directive":
			for _, a := range it.Args {
				a.Dirs = g.maybeDirs("ARGUMENT_DEFINITION", a.Dirs, it.Name)
			}
		}
		if it.Kind == "type" || it.Kind == "interface" {
			for _, f := range it.Fields {
				f.Dirs = g.deprecated(g.maybeDirs("FIELD_DEFINITION", f.Dirs, ""))
				for _, a := range f.Args {
					a.Dirs = g.maybeDirs("ARGUMENT_DEFINITION", a.Dirs, "")
				}
			}
		}
	}
}

func (g *sgen) desc() (string, bool) {
	if !g.r.Chance(1, 3) {
		return "", false
	}
	pool := plainDescs
	if g.o.Hostile {
		pool = hostileDescs
	}
	return pool[g.r.Intn(len(pool))], true
}

func (g *sgen) describeAll() {
	for _, it := range g.order {
		if it.Extend {
			continue // the grammar gives extensions no description
		}
		it.Desc, it.HasDesc = g.desc()
		it.DescBlock = g.r.Bool()
		for _, f := range it.Fields {
			f.Desc, f.HasDesc = g.desc()
			for _, a := range f.Args {
				a.Desc, a.HasDesc = g.desc()
			}
		}
		for _, v := range it.Values {
			v.Desc, v.HasDesc = g.desc()
		}
		for _, a := range it.Args {
			a.Desc, a.HasDesc = g.desc()
		}
	}
}

// split moves parts of definitions into extensions.
func (g *sgen) split(items []*m.Item, schemaItem *m.Item) []*m.Item {
	r := g.r
	var out []*m.Item
	for _, it := range items {
		out = append(out, it)
		if it.Extend || !r.Chance(1, 3) {
			continue
		}
		if (it.Kind == "type" || it.Kind == "interface") && len(it.Interfaces) > 0 && r.Chance(1, 4) {
			// an extension without a body: it only adds the interfaces (and possibly directives)
			ext := &m.Item{Kind: it.Kind, Extend: true, Name: it.Name, Interfaces: it.Interfaces}
			it.Interfaces = nil
			if len(it.Dirs) > 0 && r.Bool() {
				ext.Dirs, it.Dirs = it.Dirs, nil
			}
			out = append(out, ext)
			continue
		}
		switch it.Kind {
		case "type", "interface", "input":
			if len(it.Fields) >= 2 {
				k := 1 + r.Intn(len(it.Fields)-1)
				ext := &m.Item{Kind: it.Kind, Extend: true, Name: it.Name, Fields: it.Fields[k:]}
				it.Fields = it.Fields[:k:k]
				if len(it.Dirs) > 0 && r.Bool() {
					ext.Dirs, it.Dirs = it.Dirs, nil
				}
				if it.Kind != "input" && len(it.Interfaces) > 0 && r.Bool() {
					ext.Interfaces, it.Interfaces = it.Interfaces, nil
				}
				// a directive applied to the definition AND to its extension (nothing in the loader's rules forbids it)
				if len(it.Dirs) > 0 && r.Chance(1, 8) {
					ext.Dirs = append(ext.Dirs, it.Dirs[r.Intn(len(it.Dirs))])
				}
				out = append(out, ext)
				if g.o.ExtOnly && r.Chance(1, 6) && !it.HasDesc {
					// the base definition disappears: the type exists only through extensions
					ext2 := &m.Item{Kind: it.Kind, Extend: true, Name: it.Name, Fields: it.Fields, Dirs: it.Dirs, Interfaces: it.Interfaces}
					out[len(out)-2] = ext2
					if it.Kind != "input" && len(ext2.Interfaces) > 0 && r.Bool() {
						// ... through three extensions, one of them without a body (interfaces only), placed first or last
						ext3 := &m.Item{Kind: it.Kind, Extend: true, Name: it.Name, Interfaces: ext2.Interfaces}
						ext2.Interfaces = nil
						if r.Bool() {
							out = append(out, ext3)
						} else {
							out = append(out[:len(out)-2], append([]*m.Item{ext3}, out[len(out)-2:]...)...)
						}
					}
				}
			}
		case "enum":
			if len(it.Values) >= 2 {
				k := 1 + r.Intn(len(it.Values)-1)
				ext := &m.Item{Kind: "enum", Extend: true, Name: it.Name, Values: it.Values[k:]}
				it.Values = it.Values[:k:k]
				out = append(out, ext)
			}
		case "union":
			if len(it.Members) >= 2 {
				k := 1 + r.Intn(len(it.Members)-1)
				ext := &m.Item{Kind: "union", Extend: true, Name: it.Name, Members: it.Members[k:], LeadSep: r.Chance(1, 4)}
				it.Members = it.Members[:k:k]
				out = append(out, ext)
			}
		case "scalar":
			if len(it.Dirs) >= 1 {
				ext := &m.Item{Kind: "scalar", Extend: true, Name: it.Name, Dirs: it.Dirs}
				it.Dirs = nil
				out = append(out, ext)
			}
		case "schema":
			if len(it.OpTypes) >= 2 {
				k := 1 + r.Intn(len(it.OpTypes)-1)
				ext := &m.Item{Kind: "schema", Extend: true, OpTypes: it.OpTypes[k:]}
				it.OpTypes = it.OpTypes[:k:k]
				if len(it.Dirs) > 0 && r.Bool() {
					ext.Dirs, it.Dirs = it.Dirs, nil
				}
				out = append(out, ext)
			} else if len(it.Dirs) > 0 {
				ext := &m.Item{Kind: "schema", Extend: true, Dirs: it.Dirs, NoBody: true}
				it.Dirs = nil
				out = append(out, ext)
			}
		}
	}
	return out
}
