package gen

import (
	"verif/harness/internal/core"
	m "verif/harness/internal/model"
)

// SOpts steers the syntax-level type-system document generator (no semantic validity).
type SOpts struct {
	Hostile      bool // hostile description strings
	KeywordNames bool
	MaxItems     int
	NoExtend     bool
}

var AllLocations = []string{
	"QUERY", "MUTATION", "SUBSCRIPTION", "FIELD", "FRAGMENT_DEFINITION", "FRAGMENT_SPREAD", "INLINE_FRAGMENT", "VARIABLE_DEFINITION",
	"SCHEMA", "SCALAR", "OBJECT", "FIELD_DEFINITION", "ARGUMENT_DEFINITION", "INTERFACE", "UNION", "ENUM", "ENUM_VALUE", "INPUT_OBJECT", "INPUT_FIELD_DEFINITION",
}

func sname(r *core.Rand, o *SOpts) string {
	if o.KeywordNames && r.Chance(1, 4) {
		return keywordNames[r.Intn(len(keywordNames))]
	}
	return r.Pick("A", "B", "C", "Query", "Mutation", "T", "U", "In", "E", "I", "J", "Node", "x", "y", "id", "name", "f_1", "_a")
}

func sdesc(r *core.Rand, o *SOpts) (string, bool) {
	if !r.Chance(1, 3) {
		return "", false
	}
	pool := []string{"a description", "x", "multi\nline", "Ends."}
	if o.Hostile {
		pool = HostileStrings
	}
	d := pool[r.Intn(len(pool))]
	if d == "" {
		return "", false // an empty description is indistinguishable from none in the AST
	}
	return d, true
}

func constDirs(r *core.Rand, o *SOpts) []m.Dir {
	if !r.Chance(1, 4) {
		return nil
	}
	q := &QOpts{KeywordNames: o.KeywordNames, Hostile: o.Hostile}
	n := 1 + r.Intn(2)
	var ds []m.Dir
	for i := 0; i < n; i++ {
		ds = append(ds, m.Dir{Name: sname(r, o), Args: args(r, q, true)})
	}
	return ds
}

func argDefs(r *core.Rand, o *SOpts) []*m.ArgDef {
	if !r.Chance(1, 3) {
		return nil
	}
	q := &QOpts{KeywordNames: o.KeywordNames, Hostile: o.Hostile}
	n := 1 + r.Intn(3)
	var as []*m.ArgDef
	for i := 0; i < n; i++ {
		a := &m.ArgDef{Name: sname(r, o), Type: Type(r, q, 2+r.Intn(3)), Dirs: constDirs(r, o)}
		a.Desc, a.HasDesc = sdesc(r, o)
		if r.Chance(1, 3) {
			a.Default = Value(r, q, 2, true)
		}
		as = append(as, a)
	}
	return as
}

func fieldDefs(r *core.Rand, o *SOpts, input bool) []*m.FieldDef {
	q := &QOpts{KeywordNames: o.KeywordNames, Hostile: o.Hostile}
	n := 1 + r.Intn(4)
	var fs []*m.FieldDef
	for i := 0; i < n; i++ {
		f := &m.FieldDef{Name: sname(r, o), Type: Type(r, q, 2+r.Intn(3)), Dirs: constDirs(r, o)}
		f.Desc, f.HasDesc = sdesc(r, o)
		if input {
			if r.Chance(1, 3) {
				f.Default = Value(r, q, 2, true)
			}
		} else {
			f.Args = argDefs(r, o)
		}
		fs = append(fs, f)
	}
	return fs
}

func nameList(r *core.Rand, o *SOpts) []string {
	n := 1 + r.Intn(3)
	var out []string
	for i := 0; i < n; i++ {
		out = append(out, sname(r, o))
	}
	return out
}

// SchemaItem generates one random top-level item that is derivable from the grammar.
func SchemaItem(r *core.Rand, o *SOpts) *m.Item {
	kinds := []string{"schema", "scalar", "type", "type", "interface", "union", "enum", "input", "directive"}
	it := &m.Item{Kind: kinds[r.Intn(len(kinds))]}
	if !o.NoExtend && it.Kind != "directive" && r.Chance(1, 4) {
		it.Extend = true
	}
	if !it.Extend {
		it.Desc, it.HasDesc = sdesc(r, o)
		it.DescBlock = r.Chance(1, 2)
	}
	it.LeadSep = r.Chance(1, 5)
	switch it.Kind {
	case "schema":
		it.Dirs = constDirs(r, o)
		n := 1 + r.Intn(3)
		if it.Extend && len(it.Dirs) > 0 && r.Chance(1, 2) {
			n = 0
			it.NoBody = true
		}
		for i := 0; i < n; i++ {
			it.OpTypes = append(it.OpTypes, m.OpType{Op: r.Pick("query", "mutation", "subscription"), Type: sname(r, o)})
		}
	case "scalar":
		it.Name = sname(r, o)
		it.Dirs = constDirs(r, o)
		if it.Extend && len(it.Dirs) == 0 {
			it.Dirs = []m.Dir{{Name: "d"}}
		}
	case "type", "interface":
		it.Name = sname(r, o)
		if r.Chance(1, 3) {
			it.Interfaces = nameList(r, o)
		}
		it.Dirs = constDirs(r, o)
		if r.Chance(3, 4) {
			it.Fields = fieldDefs(r, o, false)
		}
		if it.Extend && len(it.Interfaces) == 0 && len(it.Dirs) == 0 && len(it.Fields) == 0 {
			it.Fields = fieldDefs(r, o, false)
		}
	case "union":
		it.Name = sname(r, o)
		it.Dirs = constDirs(r, o)
		if r.Chance(3, 4) {
			it.Members = nameList(r, o)
		}
		if it.Extend && len(it.Dirs) == 0 && len(it.Members) == 0 {
			it.Members = nameList(r, o)
		}
	case "enum":
		it.Name = sname(r, o)
		it.Dirs = constDirs(r, o)
		if r.Chance(3, 4) {
			n := 1 + r.Intn(3)
			for i := 0; i < n; i++ {
				v := &m.EnumVal{Name: enumName(r, &QOpts{KeywordNames: o.KeywordNames}), Dirs: constDirs(r, o)}
				v.Desc, v.HasDesc = sdesc(r, o)
				it.Values = append(it.Values, v)
			}
		}
		if it.Extend && len(it.Dirs) == 0 && len(it.Values) == 0 {
			it.Values = []*m.EnumVal{{Name: "V"}}
		}
	case "input":
		it.Name = sname(r, o)
		it.Dirs = constDirs(r, o)
		if r.Chance(3, 4) {
			it.Fields = fieldDefs(r, o, true)
		}
		if it.Extend && len(it.Dirs) == 0 && len(it.Fields) == 0 {
			it.Fields = fieldDefs(r, o, true)
		}
	case "directive":
		it.Name = sname(r, o)
		it.Args = argDefs(r, o)
		it.Repeatable = r.Chance(1, 3)
		n := 1 + r.Intn(3)
		for i := 0; i < n; i++ {
			it.Locations = append(it.Locations, AllLocations[r.Intn(len(AllLocations))])
		}
	}
	return it
}

// SchemaDoc generates a syntactically valid type-system document.
func SchemaDoc(r *core.Rand, o *SOpts) *m.SDoc {
	if o.MaxItems == 0 {
		o.MaxItems = 4
	}
	d := &m.SDoc{}
	n := 1 + r.Intn(o.MaxItems)
	for i := 0; i < n; i++ {
		d.Items = append(d.Items, SchemaItem(r, o))
	}
	return d
}

// SchemaText renders a random type-system document with the given renderer.
func SchemaText(r *core.Rand, rn *m.Renderer, i int) string {
	d := SchemaDoc(r, &SOpts{Hostile: i%4 == 1, KeywordNames: i%3 == 1})
	return rn.RenderSDoc(d)
}
