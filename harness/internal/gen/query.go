// Package gen holds the workload generators.
package gen

import (
	"strings"

	"verif/harness/internal/core"
	m "verif/harness/internal/model"
)

// QOpts steers the untyped (syntax-level) executable document generator.
type QOpts struct {
	MaxDepth     int
	Hostile      bool // hostile string contents
	FragVars     bool // fragment variable definitions (documented experimental feature)
	VarDirs      bool // directives on variable definitions
	KeywordNames bool // use keywords as names where the grammar allows
	MaxDefs      int
	NoBlock      bool
}

var plainNames = []string{"a", "b", "c", "x", "y", "id", "name", "f1", "F", "Ab_9", "_", "__typename", "user", "T", "U"}
var keywordNames = []string{"on", "query", "mutation", "subscription", "fragment", "true", "false", "null", "type", "schema", "extend", "implements", "input", "repeatable", "directive", "enum", "union", "scalar", "interface",
	// the JSON keys of the syntax tree's own encoding: a name that equals a key must stay a name
	"ON", "On", "Query", "TRUE", "Null", "FRAGMENT", "Alias", "Name", "Arguments", "Directives", "SelectionSet", "TypeCondition", "Definition", "ObjectDefinition", "Position", "Kind", "Raw", "Children", "Value", "VariableDefinition", "Operation"}

func name(r *core.Rand, o *QOpts) string {
	if o.KeywordNames && r.Chance(1, 4) {
		return keywordNames[r.Intn(len(keywordNames))]
	}
	return plainNames[r.Intn(len(plainNames))]
}

func fragName(r *core.Rand, o *QOpts) string {
	for {
		n := name(r, o)
		if n != "on" {
			return n
		}
	}
}

func enumName(r *core.Rand, o *QOpts) string {
	for {
		n := name(r, o)
		if n != "true" && n != "false" && n != "null" {
			return n
		}
	}
}

var intLits = []string{"0", "-0", "1", "-1", "7", "42", "-12", "2147483647", "2147483648", "-2147483649", "99999999999999999999", "1000000"}
var floatLits = []string{"1.0", "-0.5", "1e10", "1E-3", "6.02e+23", "0.0e0", "-1.5E+2", "0.1", "123.456e7", "1e999", "1E3", "-2E+10", "-0.0"}

var PlainStrings = []string{"", "a", "hello world", "x y", "A1", "text"}
var HostileStrings = []string{
	"", "a", "é", `"`, `\`, "\n", "\t", "a\nb", " lead", "trail ", "\n\nx\n\n", `"""`, `\"""`, "\x00", "\x07", "\x1f", "\x7f",
	" ", "😀", "\uFEFF", "   ", "  a\n    b\n  c", `ends with quote"`, `back\`, `A`, "#not comment", "\r", "a\r\nb",
	"\b\f", "/slash/", `""`, `""""`, "tab\there", "\ttabfirst", "line1\n line2", "\n", " \n ", "é́", "\U0001F600x", " nbsp", "{}[]()$@!|&=:", "...", "on",
	"a\n\n\nb", "  indented first\nsecond", "x\n  \ny", "\x1b[0m", "\u0085", "\u200B",
	"100%", "a%b %s %d %v %!", "%", "red,green", "a, b", ",", ", ,", "\uFFFD", "x\uFFFDy",
	"\U000F0000", "\U000E0001tag", "\u00ad", "\u000b\u001f\u200b", "  first\n\n  second", "\u00ff\u0abc\ufffe",
}

func strVal(r *core.Rand, o *QOpts) *m.Value {
	pool := PlainStrings
	if o.Hostile {
		pool = HostileStrings
	}
	s := pool[r.Intn(len(pool))]
	if o.Hostile && r.Chance(1, 5) {
		s += pool[r.Intn(len(pool))]
	}
	return &m.Value{Kind: m.VString, Raw: s, Block: !o.NoBlock && r.Chance(1, 3)}
}

// Value generates a random literal; constOnly forbids variables.
func Value(r *core.Rand, o *QOpts, depth int, constOnly bool) *m.Value {
	k := r.Intn(12)
	if depth <= 0 && k >= 9 {
		k = r.Intn(9)
	}
	switch k {
	case 0, 1:
		if !constOnly {
			return &m.Value{Kind: m.VVar, Raw: name(r, o)}
		}
		return &m.Value{Kind: m.VInt, Raw: intLits[r.Intn(len(intLits))]}
	case 2:
		return &m.Value{Kind: m.VInt, Raw: intLits[r.Intn(len(intLits))]}
	case 3:
		return &m.Value{Kind: m.VFloat, Raw: floatLits[r.Intn(len(floatLits))]}
	case 4, 5:
		return strVal(r, o)
	case 6:
		return &m.Value{Kind: m.VBool, Raw: r.Pick("true", "false")}
	case 7:
		return &m.Value{Kind: m.VNull, Raw: "null"}
	case 8:
		return &m.Value{Kind: m.VEnum, Raw: enumName(r, o)}
	case 9, 10:
		v := &m.Value{Kind: m.VList}
		n := r.Intn(4)
		if r.Chance(1, 150) {
			// a long flat list, and sometimes an object literal with as many fields
			n = 129 + r.Intn(200)
			if r.Chance(1, 3) {
				ov := &m.Value{Kind: m.VObject}
				for i := 0; i < n; i++ {
					ov.Fields = append(ov.Fields, m.ObjField{Name: name(r, o), Value: Value(r, o, 0, constOnly)})
				}
				return ov
			}
			for i := 0; i < n; i++ {
				v.Items = append(v.Items, Value(r, o, 0, constOnly))
			}
			return v
		}
		for i := 0; i < n; i++ {
			v.Items = append(v.Items, Value(r, o, depth-1, constOnly))
		}
		return v
	default:
		v := &m.Value{Kind: m.VObject}
		n := r.Intn(4)
		for i := 0; i < n; i++ {
			v.Fields = append(v.Fields, m.ObjField{Name: name(r, o), Value: Value(r, o, depth-1, constOnly)})
		}
		return v
	}
}

func Type(r *core.Rand, o *QOpts, depth int) *m.Type {
	t := &m.Type{NonNull: r.Chance(1, 3)}
	if depth > 0 && r.Chance(1, 3) {
		t.Elem = Type(r, o, depth-1)
	} else {
		t.Name = r.Pick("Int", "String", "T", "ID", "Boolean", "on", "In")
	}
	return t
}

func args(r *core.Rand, o *QOpts, constOnly bool) []m.Arg {
	if !r.Chance(1, 3) {
		return nil
	}
	n := 1 + r.Intn(3)
	var as []m.Arg
	for i := 0; i < n; i++ {
		as = append(as, m.Arg{Name: name(r, o), Value: Value(r, o, 2, constOnly)})
	}
	return as
}

func dirs(r *core.Rand, o *QOpts, constOnly bool) []m.Dir {
	if !r.Chance(1, 4) {
		return nil
	}
	n := 1 + r.Intn(2)
	var ds []m.Dir
	for i := 0; i < n; i++ {
		ds = append(ds, m.Dir{Name: name(r, o), Args: args(r, o, constOnly)})
	}
	return ds
}

func sels(r *core.Rand, o *QOpts, depth int, required bool) []*m.Sel {
	if !required && (depth <= 0 || r.Chance(1, 2)) {
		return nil
	}
	n := 1 + r.Intn(4)
	var ss []*m.Sel
	for i := 0; i < n; i++ {
		switch k := r.Intn(8); {
		case k < 5 || depth <= 0:
			s := &m.Sel{Kind: m.SField, Name: name(r, o)}
			if r.Chance(1, 4) {
				s.Alias = name(r, o)
			}
			s.Args = args(r, o, false)
			s.Dirs = dirs(r, o, false)
			s.Sel = sels(r, o, depth-1, false)
			ss = append(ss, s)
		case k < 6:
			ss = append(ss, &m.Sel{Kind: m.SSpread, Name: fragName(r, o), Dirs: dirs(r, o, false)})
		default:
			s := &m.Sel{Kind: m.SInline, Dirs: dirs(r, o, false)}
			if r.Chance(2, 3) {
				s.TypeCond = name(r, o)
			}
			s.Sel = sels(r, o, depth-1, true)
			ss = append(ss, s)
		}
	}
	return ss
}

func varDefs(r *core.Rand, o *QOpts) []m.VarDef {
	if !r.Chance(1, 3) {
		return nil
	}
	n := 1 + r.Intn(3)
	var vs []m.VarDef
	for i := 0; i < n; i++ {
		v := m.VarDef{Name: name(r, o), Type: Type(r, o, 2+r.Intn(3))}
		if r.Chance(1, 3) {
			v.Default = Value(r, o, 2, true)
		}
		if o.VarDirs {
			v.Dirs = dirs(r, o, true) // Directives[Const]
		}
		vs = append(vs, v)
	}
	return vs
}

// QueryDoc generates a syntactically valid executable document (no typing).
func QueryDoc(r *core.Rand, o *QOpts) *m.Doc {
	if o.MaxDepth == 0 {
		o.MaxDepth = 3
	}
	if o.MaxDefs == 0 {
		o.MaxDefs = 3
	}
	d := &m.Doc{}
	n := 1 + r.Intn(o.MaxDefs)
	for i := 0; i < n; i++ {
		def := &m.Def{}
		if r.Chance(1, 3) {
			def.IsFragment = true
			def.Name = fragName(r, o)
			def.TypeCond = name(r, o)
			if o.FragVars {
				def.Vars = varDefs(r, o)
			}
		} else {
			def.Op = r.Pick("query", "query", "mutation", "subscription")
			if r.Chance(1, 2) {
				def.Name = name(r, o)
			}
			def.Vars = varDefs(r, o)
			if def.Op == "query" && def.Name == "" && len(def.Vars) == 0 && r.Chance(1, 2) {
				def.Shorthand = true
			}
		}
		if !def.Shorthand {
			def.Dirs = dirs(r, o, false)
		}
		def.Sel = sels(r, o, o.MaxDepth, true)
		d.Defs = append(d.Defs, def)
	}
	return d
}

// DeepSelections builds a document that nests all three selection kinds to the given depth
// in the given order pattern (used by C19).
func DeepSelections(r *core.Rand, depth int) *m.Doc {
	var build func(d int) []*m.Sel
	build = func(d int) []*m.Sel {
		if d == 0 {
			return []*m.Sel{{Kind: m.SField, Name: "leaf"}}
		}
		perm := r.Perm(3)
		var ss []*m.Sel
		for _, k := range perm {
			switch k {
			case 0:
				ss = append(ss, &m.Sel{Kind: m.SField, Name: "f" + strings.Repeat("x", d%3), Alias: r.Pick("", "al"), Sel: build(d - 1)})
			case 1:
				ss = append(ss, &m.Sel{Kind: m.SSpread, Name: "Frag", Dirs: dirs(r, &QOpts{}, false)})
			case 2:
				ss = append(ss, &m.Sel{Kind: m.SInline, TypeCond: r.Pick("", "T"), Sel: build(d - 1)})
			}
		}
		return ss
	}
	return &m.Doc{Defs: []*m.Def{
		{Op: "query", Name: "Q", Sel: build(depth)},
		{IsFragment: true, Name: "Frag", TypeCond: "T", Sel: build(depth - 1)},
	}}
}
