package mon

import (
	"fmt"
	"math"
	"sort"
	"strconv"
	"strings"

	gqlparser "github.com/vektah/gqlparser/v2"
	"github.com/vektah/gqlparser/v2/ast"
	"github.com/vektah/gqlparser/v2/parser"
	"github.com/vektah/gqlparser/v2/validator"
	"github.com/vektah/gqlparser/v2/verifhook"

	"verif/harness/internal/core"
	"verif/harness/internal/dgen"
	"verif/harness/internal/gen"
	"verif/harness/internal/model"
	"verif/harness/internal/tsys"
)

// C02 — schema loading and validation never crash and terminate on every document.
func init() {
	core.Register(&core.Monitor{
		ID: "C02",
		Rule: "every schema text (valid generated, one injected fault from the 39-entry catalogue, random syntax-level SDL, token-mutated SDL) goes through LoadSchema, and every syntactically valid document (valid, 1-3 injected faults, collision documents, type-blind nonsense with unknown types, undefined variables, cyclic and unused fragments) through Validate against every schema that loaded (one document in four also as the same parsed object against a second schema sharing names with the first, alternating twice), " +
			"in isolated workers under a deterministic step budget counted by hooks in the walker and in every rule that follows fragment spreads or type references: panic, fatal exit, hang or more than C*n^2*log2(n) steps (n = bytes of document + schema) is a violation. " +
			"Size-parametrised adversarial families (fragment fan-out under a field, under __schema, under a subscription root, with overlapping aliases; fragment cycles through fields; mutually spreading fragments; deep alias chains; wide same-name siblings; many sibling fragments; deep literals; @oneOf variables; interface chains and diamonds for the loader) " +
			"are measured at k, 2k for k = 4..32 (64 thorough): steps(2k) <= 24*steps(k) (polynomial degree <= ~4.5), and the largest member must stay within the absolute budget. distinct = (family, k) points measured plus distinct error-rule sets of random pairs; non-trivial = documents validated or schemas rejected",
		Assumptions: []string{
			"time is measured in hook steps (deterministic), not seconds; a loop without a hook is only caught by the worker watchdog",
			"budget constant C is fixed with >=20x headroom over the honest quadratic family (k same-named sibling fields)",
		},
		Shards:          func(tier string) int { return 16 },
		Run:             c02Run,
		Check:           c02Check,
		DistinctClasses: []string{"family-point", "rule-set"},
		MinEvaluations:  func(tier string) int64 { return 5000 },
		RequiredCounts:  []string{"documents_validated", "documents_revalidated_against_another_schema", "schemas_rejected", "family_points", "growth_ratios_checked"},
		ShardTimeoutS:   600,
	})
}

// c02Budget is the absolute step budget for n bytes of document+schema.
func c02Budget(n int) int64 {
	if n < 64 {
		n = 64
	}
	f := float64(n)
	return int64(40*f*f*math.Log2(f)/64) + 200000
}

const c02FamilySchema = `interface Node { id: ID friend: Node friends: [Node] name: String }
type User implements Node { id: ID friend: Node friends: [Node] name: String nick: String }
type Bot implements Node { id: ID friend: Node friends: [Node] name: String model: Int }
input In { a: Int b: In l: [In] }
input One @oneOf { a: Int b: String }
type Query { node: Node me: User deep(in: In): Int one(arg: One): Int list(l: [[[Int]]]): Int }
type Mutation { set(in: In): Int }
type Subscription { tick: Int node: Node }`

type c02Family struct {
	name   string
	schema func(k int) string // nil: the fixed family schema
	doc    func(k int) string // nil: loader family (schema only)
}

func rep(k int, f func(i int) string) string {
	var b strings.Builder
	for i := 0; i < k; i++ {
		b.WriteString(f(i))
	}
	return b.String()
}

var c02Families = []c02Family{
	{"fanout-field", nil, func(k int) string {
		return "{ node { ...F0 } } " + rep(k, func(i int) string { return fmt.Sprintf("fragment F%d on Node { ...F%d ...F%d } ", i, i+1, i+1) }) + fmt.Sprintf("fragment F%d on Node { id }", k)
	}},
	{"fanout-introspection", nil, func(k int) string {
		return "{ __schema { types { ...T0 } } } " + rep(k, func(i int) string { return fmt.Sprintf("fragment T%d on __Type { ...T%d ...T%d } ", i, i+1, i+1) }) + fmt.Sprintf("fragment T%d on __Type { name }", k)
	}},
	{"fanout-introspection-type", nil, func(k int) string {
		return `{ __type(name: "Node") { ...T0 } } ` + rep(k, func(i int) string {
			return fmt.Sprintf("fragment T%d on __Type { ofType { ...T%d } ...T%d } ", i, i+1, i+1)
		}) + fmt.Sprintf("fragment T%d on __Type { name }", k)
	}},
	{"fanout-introspection-two-depths", nil, func(k int) string {
		// the same fan-out chain is reached at two list depths, the shallower one first
		return "{ __schema { types { ...T0 fields { type { ...T0 } } } } } " + rep(k, func(i int) string { return fmt.Sprintf("fragment T%d on __Type { name ...T%d ...T%d } ", i, i+1, i+1) }) + fmt.Sprintf("fragment T%d on __Type { name }", k)
	}},
	{"fanout-introspection-deeper-first", nil, func(k int) string {
		return "{ __schema { types { fields { type { ...T0 } } ...T0 } } } " + rep(k, func(i int) string { return fmt.Sprintf("fragment T%d on __Type { ...T%d kind ...T%d } ", i, i+1, i+1) }) + fmt.Sprintf("fragment T%d on __Type { name }", k)
	}},
	{"fanout-subscription", nil, func(k int) string {
		return "subscription { ...S0 } " + rep(k, func(i int) string { return fmt.Sprintf("fragment S%d on Subscription { ...S%d ...S%d } ", i, i+1, i+1) }) + fmt.Sprintf("fragment S%d on Subscription { tick }", k)
	}},
	{"fanout-aliases", nil, func(k int) string {
		return "{ node { ...F0 } } " + rep(k, func(i int) string {
			return fmt.Sprintf("fragment F%d on Node { x: friend { ...F%d } x: friend { ...F%d } } ", i, i+1, i+1)
		}) + fmt.Sprintf("fragment F%d on Node { id }", k)
	}},
	{"fanout-inline", nil, func(k int) string {
		return "{ node { ...F0 } } " + rep(k, func(i int) string {
			return fmt.Sprintf("fragment F%d on Node { ... on User { ...F%d } ... on Bot { ...F%d } } ", i, i+1, i+1)
		}) + fmt.Sprintf("fragment F%d on Node { id }", k)
	}},
	{"exclusive-parents-diamond", nil, func(k int) string {
		// the same composite field under two object types that exclude each other; below it a diamond chain in which
		// every fragment has a field of its own
		return "{ node { ... on User { friend { id ...F0 } } ... on Bot { friend { id ...F0 } } } } " + rep(k, func(i int) string {
			return fmt.Sprintf("fragment F%d on Node { name ...G%d ...H%d } fragment G%d on Node { id ...F%d } fragment H%d on Node { name ...F%d } ", i, i, i, i, i+1, i, i+1)
		}) + fmt.Sprintf("fragment F%d on Node { id }", k)
	}},
	{"exclusive-parents-fanout", nil, func(k int) string {
		return "{ me { friend { ... on User { x: friend { name ...F0 } } ... on Bot { x: friend { name ...F0 } } } } } " + rep(k, func(i int) string {
			return fmt.Sprintf("fragment F%d on Node { id ...F%d friends { id } ...F%d } ", i, i+1, i+1)
		}) + fmt.Sprintf("fragment F%d on Node { id }", k)
	}},
	{"exclusive-parents-diamond-in-fragments", nil, func(k int) string {
		return "{ node { ...U ...B } } fragment U on User { friend { ...F0 nick: name } } fragment B on Bot { friend { nick: name ...F0 } } " + rep(k, func(i int) string {
			return fmt.Sprintf("fragment F%d on Node { name ...G%d ...H%d } fragment G%d on Node { id ...F%d } fragment H%d on Node { name ...F%d } ", i, i, i, i, i+1, i, i+1)
		}) + fmt.Sprintf("fragment F%d on Node { id }", k)
	}},
	{"cycle-through-fields", nil, func(k int) string {
		return "{ node { ...F0 } } " + rep(k, func(i int) string { return fmt.Sprintf("fragment F%d on Node { friend { ...F%d } } ", i, (i+1)%k) })
	}},
	{"mutual-spreads", nil, func(k int) string {
		return "{ node { ...A0 ...B0 } } " + rep(k, func(i int) string {
			return fmt.Sprintf("fragment A%d on Node { friend { ...B%d name } } fragment B%d on Node { friend { ...A%d id } } ", i, (i+1)%k, i, (i+1)%k)
		})
	}},
	{"alias-chain", nil, func(k int) string {
		return "{ node { " + rep(k, func(i int) string { return fmt.Sprintf("a%d: friend { ", i) }) + "id" + strings.Repeat(" }", k) + " } }"
	}},
	{"same-name-siblings", nil, func(k int) string {
		return "{ node { " + rep(k, func(i int) string { return "name " }) + "} }"
	}},
	{"same-name-composite-siblings", nil, func(k int) string {
		return "{ node { " + rep(k, func(i int) string { return "friend { name id } " }) + "} }"
	}},
	{"sibling-fragments", nil, func(k int) string {
		return "{ node { " + rep(k, func(i int) string { return fmt.Sprintf("...F%d ", i) }) + "} } " + rep(k, func(i int) string { return fmt.Sprintf("fragment F%d on Node { name friend { id } } ", i) })
	}},
	{"deep-input-object", nil, func(k int) string {
		return "{ deep(in: " + rep(k, func(i int) string { return "{b: " }) + "{a: 1}" + strings.Repeat("}", k) + ") }"
	}},
	{"deep-list-literal", nil, func(k int) string {
		return "{ list(l: " + strings.Repeat("[", k) + "1" + strings.Repeat("]", k) + ") deep(in: {l: " + strings.Repeat("[", k) + "{a: 1}" + strings.Repeat("]", k) + "}) }"
	}},
	{"oneof-variables", nil, func(k int) string {
		return "query Q($v: Int) { " + rep(k, func(i int) string {
			return fmt.Sprintf("o%d: one(arg: {a: $v}) u%d: one(arg: {a: $undefined%d}) ", i, i, i)
		}) + " ...Unused } fragment Unused on Query { one(arg: {b: $nowhere}) } fragment NeverSpread on Query { one(arg: {a: $x, b: $y}) }"
	}},
	{"variables-everywhere", nil, func(k int) string {
		return "query Q(" + rep(k, func(i int) string { return fmt.Sprintf("$v%d: Int ", i) }) + ") { " + rep(k, func(i int) string { return fmt.Sprintf("d%d: deep(in: {a: $v%d, l: [{a: $v%d}]}) ", i, i, (i+1)%k) }) + "}"
	}},
	{"loader-interface-chain", func(k int) string {
		return "type Query { a: I0 } interface I0 { f: Int } " + rep(k, func(i int) string {
			return fmt.Sprintf("interface I%d implements I%d { f: Int } ", i+1, i) // missing transitive interfaces beyond the first: must be rejected quickly
		})
	}, nil},
	{"loader-diamond", func(k int) string {
		return "type Query { t: T } " + rep(k, func(i int) string { return fmt.Sprintf("interface I%d { f(a: Int): T } ", i) }) + "type T implements " + rep(k, func(i int) string {
			if i == 0 {
				return "I0"
			}
			return fmt.Sprintf(" & I%d", i)
		}) + " { f(a: Int): T }"
	}, nil},
	{"loader-union-of-many", func(k int) string {
		return "type Query { u: U } " + rep(k, func(i int) string { return fmt.Sprintf("type T%d { f: U } ", i) }) + "union U = " + rep(k, func(i int) string {
			if i == 0 {
				return "T0"
			}
			return fmt.Sprintf(" | T%d", i)
		})
	}, nil},
	{"loader-directive-ring", func(k int) string {
		// directive definitions whose arguments carry the next directive, the last one the first again (whatever the
		// loader's verdict, it has to arrive at it)
		return "type Query { a(x: Int @d0(x: 1)): Int } " + rep(k, func(i int) string {
			return fmt.Sprintf("directive @d%d(x: Int @d%d(x: 1)) on ARGUMENT_DEFINITION ", i, (i+1)%k)
		})
	}, nil},
	{"loader-directive-chain-fanout", func(k int) string {
		return "type Query { a(x: Int @d0(x: 1, y: 2)): Int } " + rep(k, func(i int) string {
			return fmt.Sprintf("directive @d%d(x: Int @d%d(x: 1, y: 2), y: Int @d%d(x: 1, y: 2)) on ARGUMENT_DEFINITION ", i, i+1, i+1)
		}) + fmt.Sprintf("directive @d%d(x: Int, y: Int) on ARGUMENT_DEFINITION", k)
	}, nil},
	{"loader-input-default-ring", func(k int) string {
		return "type Query { a(x: I0 = {}): Int } " + rep(k, func(i int) string {
			return fmt.Sprintf("input I%d { next: I%d = {} n: [I%d] } ", i, (i+1)%k, (i+1)%k)
		})
	}, nil},
	{"loader-blank-descriptions", func(k int) string {
		// descriptions that are block strings holding nothing but blanks and blank lines (their value is empty)
		blanks := []string{`""""""`, `"""   """`, "\"\"\"\n\n\"\"\"", "\"\"\" \t\n  \n\"\"\"", "\"\"\"\r\n\"\"\"", `""`}
		return blanks[k%len(blanks)] + " type Query { " + rep(k, func(i int) string {
			return fmt.Sprintf("%s f%d(%s a: Int): Int ", blanks[i%len(blanks)], i, blanks[(i+1)%len(blanks)])
		}) + "}"
	}, nil},
	{"interface-clique", func(k int) string {
		// interfaces that all implement each other and themselves (the loader takes that), one object type under them
		all := rep(k, func(i int) string {
			if i == 0 {
				return "I0"
			}
			return fmt.Sprintf(" & I%d", i)
		})
		return "type Query { n: I0 } type T implements " + all + " { id: ID } " + rep(k, func(i int) string { return fmt.Sprintf("interface I%d implements %s { id: ID } ", i, all) })
	}, func(k int) string {
		return "{ n { ...F0 " + rep(k, func(i int) string { return fmt.Sprintf("... on I%d { ", i) }) + "id" + strings.Repeat(" }", k) + " } } " +
			rep(k, func(i int) string {
				return fmt.Sprintf("fragment F%d on I%d { id ...F%d ... on T { id } } ", i, i, i+1)
			}) + fmt.Sprintf("fragment F%d on I0 { id }", k)
	}},
	{"self-implementing-interface", func(k int) string {
		return "interface Node implements Node { id: ID next: Node } type Query { n: Node } " + rep(k, func(i int) string { return fmt.Sprintf("type T%d implements Node { id: ID next: Node } ", i) })
	}, func(k int) string {
		return "{ n { ...F0 } } " + rep(k, func(i int) string {
			return fmt.Sprintf("fragment F%d on Node { ... on T%d { next { ...F%d } } } ", i, i, i+1)
		}) + fmt.Sprintf("fragment F%d on Node { id }", k)
	}},
	{"conflict-at-depth", nil, func(k int) string {
		// two same-named fields whose sub-selections differ only at the bottom of k levels: the one error that is reported
		// quotes every level on the way down
		return "{ node {" + strings.Repeat(" friend {", k) + " x: id" + strings.Repeat(" }", k) + " } node {" + strings.Repeat(" friend {", k) + " x: name" + strings.Repeat(" }", k) + " } }"
	}},
	{"conflict-at-depth-two-branches", nil, func(k int) string {
		return "{ node {" + strings.Repeat(" friend { y: id", k) + " x: id" + strings.Repeat(" }", k) + " } node {" + strings.Repeat(" friend { y: name", k) + " x: name" + strings.Repeat(" }", k) + " } }"
	}},
	{"loader-extensions", func(k int) string {
		return "type Query { a: Int } " + rep(k, func(i int) string { return fmt.Sprintf("extend type Query { f%d: Int } ", i) })
	}, nil},
}

func c02Run(x *core.Ctx) {
	ns := 150
	if !x.Quick() {
		ns = 4000
	}
	r := x.Rand(uint64(x.Shard))
	rn := &model.Renderer{}
	prevSrc := ""
	for i := 0; i < ns; i++ {
		items := tsys.Schema(r, &tsys.GenOpts{Extensions: i%3 == 0, Small: i%4 == 0, Descs: i%5 == 0})
		mg := tsys.Merge(items)
		ssrc := rn.RenderSDoc(&model.SDoc{Items: items})
		// the schema itself, faulted variants, random SDL
		sc := core.NewCase("schema", "schema", ssrc)
		x.Do(sc, func() { c02Check(x, sc) })
		all := append(append([]tsys.Fault{}, tsys.Faults...), tsys.ExtraFaults...)
		for k := 0; k < 4; k++ {
			f := all[r.Intn(len(all))]
			if out, _, ok := f.Inject(r, tsys.CloneItems(items)); ok {
				// a second fault on top, sometimes
				if r.Chance(1, 3) {
					if out2, _, ok2 := all[r.Intn(len(all))].Inject(r, out); ok2 {
						out = out2
					}
				}
				fc := core.NewCase("schema", "schema", rn.RenderSDoc(&model.SDoc{Items: out}))
				x.Do(fc, func() { c02Check(x, fc) })
			}
		}
		for k := 0; k < 3; k++ {
			d := gen.SchemaDoc(r, &gen.SOpts{KeywordNames: k == 0, MaxItems: 8})
			toks := rn.SDocTokens(d)
			if k == 2 {
				toks = mutateTokens(r, toks)
			}
			rc := core.NewCase("schema", "schema", rn.Text(toks))
			x.Do(rc, func() { c02Check(x, rc) })
		}
		// documents against the valid schema
		for j := 0; j < 12; j++ {
			var doc *model.Doc
			switch j % 4 {
			case 0, 1:
				g := dgen.New(r, mg, &dgen.Opts{MaxDepth: 1 + r.Intn(3), MaxOps: 1 + r.Intn(3), Introspect: j%3 == 0, DeepValues: j%2 == 0})
				doc = g.Doc()
				n := r.Intn(4)
				for k := 0; k < n; k++ {
					dgen.Faults[r.Intn(len(dgen.Faults))].Do(dgen.NewFCtx(r, mg, doc))
				}
			case 2:
				doc = dgen.CollisionDoc(r, mg)
				if j%8 == 2 {
					doc = dgen.CyclicCollisionDoc(r, mg)
				}
				// overlapping selections AND ordinary faults (unknown fields, wrong arguments) in the same document: the
				// merging rule compares nodes the other rules have already given up on
				for k := r.Intn(3); k > 0; k-- {
					dgen.Faults[r.Intn(len(dgen.Faults))].Do(dgen.NewFCtx(r, mg, doc))
				}
			default:
				doc = gen.QueryDoc(r, &gen.QOpts{MaxDepth: 3, VarDirs: true, MaxDefs: 4, Hostile: j%8 == 3})
			}
			if len(doc.Defs) == 0 {
				continue
			}
			pc := core.NewCase("pair", "schema", ssrc, "doc", rn.RenderDoc(doc))
			x.Do(pc, func() { c02Check(x, pc) })
			if j%3 == 0 && prevSrc != "" {
				// one parsed document validated against this schema, then (the same object) against another schema that
				// shares names with it, then against this one again: a server that reloads its schema keeps parsed documents
				xc := core.NewCase("pair2", "schema", ssrc, "schema2", prevSrc, "doc", pc.Get("doc"))
				x.Do(xc, func() { c02Check(x, xc) })
			}
		}
		prevSrc = ssrc
	}
	// the fixed "pets" schema: two fragments compared under mutually exclusive parents and side by side, with a spread cycle
	// through them
	if sd, err := parser.ParseSchema(&ast.Source{Name: "pets.graphql", Input: c08PetsSchema}); err == nil {
		pmg := tsys.Merge(model.FromSchemaAST(sd).Items)
		for j := 0; j < ns*6; j++ {
			d := dgen.CyclicPetsScenarioDoc(r, pmg)
			if j%2 == 1 {
				// fields compared under exclusive parents, some of them unknown or otherwise wrong
				d = dgen.PetsScenarioDoc(r, pmg)
				if j%4 == 3 {
					d = dgen.CollisionDoc(r, pmg)
				}
				for k := 1 + r.Intn(3); k > 0; k-- {
					f := dgen.Faults[r.Intn(len(dgen.Faults))]
					if k == 1 {
						for _, cand := range dgen.Faults {
							if cand.Name == "unknown-field" || cand.Name == "near-miss-field" {
								if r.Bool() {
									f = cand
								}
							}
						}
					}
					f.Do(dgen.NewFCtx(r, pmg, d))
				}
			}
			pc := core.NewCase("pair", "schema", c08PetsSchema, "doc", rn.RenderDoc(d))
			x.Do(pc, func() { c02Check(x, pc) })
		}
	}
	// families: distributed over the shards
	ks := []int{4, 8, 16, 32}
	if !x.Quick() {
		ks = []int{4, 8, 16, 32, 64}
	}
	for fi, f := range c02Families {
		if fi%x.NShards != x.Shard {
			continue
		}
		for _, k := range ks {
			fc := core.NewCase("family", "family", f.name, "k", strconv.Itoa(k))
			x.Do(fc, func() { c02Check(x, fc) })
		}
	}
}

// c02Steps runs f under the hook counters with an absolute budget; it returns the steps used.
func c02Steps(budget int64, f func()) int64 {
	verifhook.Reset()
	verifhook.Budget = budget
	verifhook.Mode = verifhook.ModeCount
	defer func() {
		verifhook.Mode = verifhook.ModeOff
		verifhook.Budget = 0
	}()
	f()
	return verifhook.Total
}

func dominantSite() string {
	best, at := int64(-1), 0
	for i, v := range verifhook.Counts {
		if v > best {
			best, at = v, i
		}
	}
	return fmt.Sprintf("site%d", at)
}

// c02Probe writes a document from a loaded schema: one fragment per object or interface type, every field twice.
func c02Probe(s *ast.Schema) string {
	names := make([]string, 0, len(s.Types))
	for n := range s.Types {
		names = append(names, n)
	}
	sort.Strings(names)
	var b strings.Builder
	b.WriteString("{ __typename }")
	for i, n := range names {
		def := s.Types[n]
		if def == nil || (def.Kind != ast.Object && def.Kind != ast.Interface) || len(def.Fields) == 0 || len(b.String()) > 6000 {
			continue
		}
		fmt.Fprintf(&b, " fragment P%d on %s {", i, n)
		for j, f := range def.Fields {
			sub := " { __typename }"
			if f.Type != nil {
				if t := s.Types[f.Type.Name()]; t != nil && (t.Kind == ast.Scalar || t.Kind == ast.Enum) {
					sub = ""
				}
			}
			fmt.Fprintf(&b, " a%d: %s%s a%d: %s%s", j, f.Name, sub, j, f.Name, sub)
		}
		b.WriteString(" }")
	}
	return b.String()
}

func c02Check(x *core.Ctx, c *core.Case) {
	x.OnPanic = func(v interface{}) (string, bool) {
		if b, ok := v.(verifhook.BudgetExceeded); ok {
			verifhook.Mode = verifhook.ModeOff
			return fmt.Sprintf("steps:budget:site%d", b.Site), true
		}
		verifhook.Mode = verifhook.ModeOff
		return "", false
	}
	switch c.Kind {
	case "schema":
		src := c.Get("schema")
		var err error
		var s *ast.Schema
		steps := c02Steps(c02Budget(len(src)), func() {
			s, err = gqlparser.LoadSchema(&ast.Source{Name: "schema.graphql", Input: src})
		})
		x.Max("schema_steps_per_budget_permille", 1000*steps/c02Budget(len(src)))
		if err != nil {
			x.Count("schemas_rejected")
			x.Nontrivial()
			if s != nil {
				x.Violate("result-shape:load", "both a schema and an error", "a schema or an error")
			}
		} else {
			x.Count("schemas_loaded")
			if s == nil {
				x.Violate("result-shape:load", "neither a schema nor an error", "a schema or an error")
				return
			}
			// whatever loaded - a generated schema, or a faulted or random one the loader happens to take - is a schema
			// documents are validated against: a probe written from the loaded object itself selects every field of every
			// object and interface type (the introspection types too) twice under one alias, with a sub-selection where the
			// field's type is not a known leaf (after seeded change C02-wave10-A: definitions of built-in sources were no
			// longer checked, and a field of an undefined type crashed the field-merging rule)
			probe := c02Probe(s)
			if d, perr := parser.ParseQuery(&ast.Source{Name: "probe.graphql", Input: probe}); perr == nil {
				c02Steps(c02Budget(len(src)+len(probe)), func() { validator.Validate(s, d) })
				x.Count("probe_documents_validated_against_whatever_loaded")
			} else {
				x.HarnessBug("probe document does not parse: " + perr.Error())
			}
		}
	case "pair":
		c02Pair(x, c.Get("schema"), c.Get("doc"), "")
	case "pair2":
		c02Revalidate(x, c.Get("schema"), c.Get("schema2"), c.Get("doc"))
	case "family":
		c02FamilyPoint(x, c.Get("family"), c.Get("k"))
	}
}

func c02Revalidate(x *core.Ctx, s1, s2, dsrc string) {
	a, err1 := gqlparser.LoadSchema(&ast.Source{Name: "schema.graphql", Input: s1})
	b, err2 := gqlparser.LoadSchema(&ast.Source{Name: "schema2.graphql", Input: s2})
	doc, perr := parser.ParseQuery(&ast.Source{Name: "doc.graphql", Input: dsrc})
	if err1 != nil || err2 != nil || perr != nil {
		x.Count("skipped:revalidation-inputs")
		return
	}
	n := len(s1) + len(s2) + len(dsrc)
	for _, s := range []*ast.Schema{a, b, a, b} {
		c02Steps(c02Budget(n), func() { validator.Validate(s, doc) })
	}
	x.Count("documents_revalidated_against_another_schema")
	x.Nontrivial()
}

func c02Pair(x *core.Ctx, ssrc, dsrc, family string) int64 {
	schema, err := gqlparser.LoadSchema(&ast.Source{Name: "schema.graphql", Input: ssrc})
	if err != nil {
		x.Count("skipped:schema-does-not-load")
		return -1
	}
	doc, perr := parser.ParseQuery(&ast.Source{Name: "doc.graphql", Input: dsrc})
	if perr != nil {
		x.Count("skipped:document-does-not-parse")
		return -1
	}
	n := len(ssrc) + len(dsrc)
	var rulesSeen []string
	steps := c02Steps(c02Budget(n), func() {
		errs := validator.Validate(schema, doc)
		set := map[string]bool{}
		for _, e := range errs {
			if !set[e.Rule] {
				set[e.Rule] = true
				rulesSeen = append(rulesSeen, e.Rule)
			}
		}
	})
	x.Count("documents_validated")
	x.Nontrivial()
	if family == "" {
		x.Distinct("rule-set", strings.Join(rulesSeen, ","))
	}
	x.Max("document_steps_per_budget_permille", 1000*steps/c02Budget(n))
	// a second validation of the same tree must terminate as well
	c02Steps(c02Budget(n), func() { validator.Validate(schema, doc) })
	return steps
}

func c02FamilyPoint(x *core.Ctx, name, ks string) {
	k, _ := strconv.Atoi(ks)
	var fam *c02Family
	for i := range c02Families {
		if c02Families[i].name == name {
			fam = &c02Families[i]
		}
	}
	if fam == nil {
		return
	}
	measure := func(k int) (int64, int) {
		ssrc := c02FamilySchema
		if fam.schema != nil {
			ssrc = fam.schema(k)
		}
		if fam.doc == nil {
			var s int64
			s = c02Steps(c02Budget(len(ssrc)), func() {
				gqlparser.LoadSchema(&ast.Source{Name: "family.graphql", Input: ssrc}) //nolint
			})
			return s, len(ssrc)
		}
		dsrc := fam.doc(k)
		return c02Pair(x, ssrc, dsrc, name), len(ssrc) + len(dsrc)
	}
	a, na := measure(k)
	b, nb := measure(2 * k)
	x.Count("family_points")
	x.Distinct("family-point", fmt.Sprintf("%s/%d", name, k))
	if a < 0 || b < 0 {
		x.HarnessBug(fmt.Sprintf("family %s k=%d does not load or parse", name, k))
		return
	}
	x.Count("growth_ratios_checked")
	ratio := float64(b+50) / float64(a+50)
	x.Max("growth_ratio_x100:"+name, int64(ratio*100))
	if ratio > 24 {
		x.Violate("steps:growth:"+name, fmt.Sprintf("steps(k=%d, %d bytes) = %d, steps(k=%d, %d bytes) = %d: ratio %.1f (dominant %s)", k, na, a, 2*k, nb, b, ratio, dominantSite()), "ratio <= 24 when the input doubles (polynomial of degree <= 4.5)")
	}
	if x.WantSample() && k >= 16 {
		x.Sample(map[string]interface{}{"family": name, "k": k, "bytes": na, "steps_k": a, "steps_2k": b, "ratio": ratio, "verdict": "polynomial growth"})
	}
}
