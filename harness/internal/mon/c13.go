package mon

import (
	"bytes"
	"fmt"
	"strings"

	gqlparser "github.com/vektah/gqlparser/v2"
	"github.com/vektah/gqlparser/v2/ast"
	"github.com/vektah/gqlparser/v2/formatter"
	"github.com/vektah/gqlparser/v2/parser"

	"verif/harness/internal/core"
	"verif/harness/internal/gen"
	"verif/harness/internal/model"
	"verif/harness/internal/ref"
	"verif/harness/internal/tsys"
)

// C13 — formatting a schema (document or loaded) and loading it back preserves it.
func init() {
	core.Register(&core.Monitor{
		ID: "C13",
		Rule: "(a) type-system documents (random syntax-level trees and valid generated schemas, hostile descriptions, extensions, schema directives, repeatable directives, described arguments) are parsed, formatted with FormatSchemaDocument under every configuration " +
			"{comments} x {compacted} x {builtin} x {no description} x 5 indents (80), re-parsed and compared through an AST->model adapter (definitions, extensions, members, defaults, directives, descriptions unless switched off), and the second format must equal the first; " +
			"(b) valid generated schemas (custom root names, types named like default roots that are not roots, schema directives with and without a schema block, extension-only types) are loaded, formatted with FormatSchema under the 40 configurations without the builtin flag, " +
			"the text is loaded again and the canonical schemas (types, fields, arguments, defaults, directives, roots, relations, descriptions) must be equal, and formatting the reloaded schema must reproduce the text; the builtin flag is exercised for totality only. " +
			"distinct = feature signatures (description classes, root patterns, definition kinds) of round-tripped schemas; non-trivial = every round-tripped document or schema",
		Assumptions: []string{
			"FormatSchema with WithBuiltin prints the prelude and the injected introspection fields, which no loader accepts back; that flag is judged for totality only on loaded schemas",
			"positions and comments are not compared; FormatSchemaDocument's grouping (schema, extensions, directives, definitions) is respected by comparing group by group",
		},
		Shards:          func(tier string) int { return 16 },
		Run:             c13Run,
		Check:           c13Check,
		DistinctClasses: []string{"feature", "shape"},
		MinEvaluations:  func(tier string) int64 { return 1000 },
		RequiredCounts:  []string{"doc_roundtrips", "schema_roundtrips", "configs_checked", "with_hostile_description", "with_custom_root", "with_schema_directive"},
	})
}

func c13Run(x *core.Ctx) {
	n := 300 // x16 = 4.8k
	if !x.Quick() {
		n = 6000
	}
	r := x.Rand(uint64(x.Shard))
	for i := 0; i < n; i++ {
		rn := &model.Renderer{R: r.Fork(uint64(i)), BlockValue: ref.BlockStringValue, Trivia: i % 3, WideComments: true}
		switch i % 3 {
		case 0:
			d := gen.SchemaDoc(r, &gen.SOpts{Hostile: i%2 == 0, KeywordNames: i%4 == 0, MaxItems: 5})
			c := core.NewCase("doc", "src", rn.RenderSDoc(d))
			x.Do(c, func() { c13Check(x, c) })
		case 1:
			items := tsys.Schema(r, &tsys.GenOpts{Descs: true, Hostile: i%2 == 1, Extensions: true, ExtOnly: true, Small: i%4 == 1})
			if i%9 < 3 {
				items = c13RedefineBuiltin(r, items)
			}
			c := core.NewCase("doc", "src", rn.RenderSDoc(&model.SDoc{Items: items}))
			x.Do(c, func() { c13Check(x, c) })
		default:
			items := tsys.Schema(r, &tsys.GenOpts{Descs: true, Hostile: i%2 == 0, Extensions: i%4 < 2, ExtOnly: i%8 == 2, Small: i%5 == 0})
			if i%9 < 3 {
				items = c13RedefineBuiltin(r, items)
			}
			c := core.NewCase("schema", "src", rn.RenderSDoc(&model.SDoc{Items: items}))
			x.Do(c, func() { c13Check(x, c) })
		}
	}
}

// c13RedefineBuiltin appends a definition of one of the specified directives written in the user's own source (the loader
// allows it and the user's definition wins); the extra optional argument keeps every existing application valid and makes
// the definition distinguishable from the prelude's.
func c13RedefineBuiltin(r *core.Rand, items []*model.Item) []*model.Item {
	str := func(nonNull bool) *model.Type { return &model.Type{Name: "String", NonNull: nonNull} }
	var it *model.Item
	switch r.Intn(3) {
	case 0:
		it = &model.Item{Kind: "directive", Name: "deprecated", Locations: []string{"FIELD_DEFINITION", "ARGUMENT_DEFINITION", "INPUT_FIELD_DEFINITION", "ENUM_VALUE"},
			Args: []*model.ArgDef{{Name: "reason", Type: str(false), Default: &model.Value{Kind: model.VString, Raw: "No longer supported"}}, {Name: "since", Type: str(false)}}}
	case 1:
		it = &model.Item{Kind: "directive", Name: "specifiedBy", Locations: []string{"SCALAR"}, Args: []*model.ArgDef{{Name: "url", Type: str(true)}, {Name: "note", Type: str(false)}}}
	default:
		it = &model.Item{Kind: "directive", Name: "oneOf", Locations: []string{"INPUT_OBJECT"}, Args: []*model.ArgDef{{Name: "note", Type: str(false)}}}
	}
	if r.Bool() {
		it.HasDesc, it.Desc = true, "redefined in the user's source"
	}
	at := r.Intn(len(items) + 1)
	out := append([]*model.Item{}, items[:at]...)
	return append(append(out, it), items[at:]...)
}

func fmtSchemaDoc(doc *ast.SchemaDocument, opts []formatter.FormatterOption) string {
	var b bytes.Buffer
	formatter.NewFormatter(&b, opts...).FormatSchemaDocument(doc)
	return b.String()
}

func fmtSchema(s *ast.Schema, opts []formatter.FormatterOption) string {
	var b bytes.Buffer
	formatter.NewFormatter(&b, opts...).FormatSchema(s)
	return b.String()
}

// descClass classifies a description for diversity counts and signatures.
func descClass(s string) string {
	var cl []string
	if strings.Contains(s, `"""`) {
		cl = append(cl, "triple")
	} else if strings.Contains(s, `"`) {
		cl = append(cl, "quote")
	}
	if strings.Contains(s, `\`) {
		cl = append(cl, "backslash")
	}
	if s != strings.TrimSpace(s) {
		if strings.TrimLeft(s, " \t\n") != s {
			cl = append(cl, "leading-blank")
		}
		if strings.TrimRight(s, " \t\n") != s {
			cl = append(cl, "trailing-blank")
		}
	}
	if strings.Contains(s, "\n") {
		cl = append(cl, "multiline")
	}
	for _, r := range s {
		if r > 0x7f {
			cl = append(cl, "non-ascii")
			break
		}
	}
	if len(cl) == 0 {
		return "plain"
	}
	return strings.Join(cl, "+")
}

func sdocFeatures(x *core.Ctx, d *model.SDoc) (hostile bool) {
	see := func(has bool, s string) {
		if !has {
			return
		}
		c := descClass(s)
		x.Distinct("feature", "desc:"+c)
		if c != "plain" {
			hostile = true
		}
	}
	kinds := map[string]bool{}
	for _, it := range d.Items {
		k := it.Kind
		if it.Extend {
			k = "extend-" + k
		}
		kinds[k] = true
		see(it.HasDesc, it.Desc)
		for _, f := range it.Fields {
			see(f.HasDesc, f.Desc)
			for _, a := range f.Args {
				see(a.HasDesc, a.Desc)
				if a.HasDesc {
					x.Distinct("feature", "described-argument")
				}
			}
		}
		for _, v := range it.Values {
			see(v.HasDesc, v.Desc)
		}
		for _, a := range it.Args {
			see(a.HasDesc, a.Desc)
		}
		if it.Kind == "directive" && it.Repeatable {
			x.Distinct("feature", "repeatable")
		}
		if it.Kind == "schema" && len(it.Dirs) > 0 {
			x.Distinct("feature", fmt.Sprintf("schema-directive/extend=%v/block=%v", it.Extend, len(it.OpTypes) > 0))
		}
	}
	for k := range kinds {
		x.Distinct("feature", "kind:"+k)
	}
	shape := ""
	for i, it := range d.Items {
		if i < 12 {
			shape += it.Kind[:2]
			if it.Extend {
				shape += "+"
			}
			if it.HasDesc {
				shape += "d"
			}
		}
	}
	x.Distinct("shape", shape)
	return hostile
}

func c13Check(x *core.Ctx, c *core.Case) {
	src := c.Get("src")
	switch c.Kind {
	case "doc":
		c13Doc(x, src)
	case "schema":
		c13Schema(x, src)
	}
}

func c13Doc(x *core.Ctx, src string) {
	doc, err := parser.ParseSchema(&ast.Source{Name: "c13.graphql", Input: src})
	if err != nil {
		x.Count("skipped_unparsable")
		return
	}
	want := model.FromSchemaAST(doc)
	x.Count("doc_roundtrips")
	x.Nontrivial()
	if sdocFeatures(x, want) {
		x.Count("with_hostile_description")
	}
	reported := map[string]bool{}
	rot := int(core.HashString(src) & 3)
	_ = rot
	{
		// one formatter used twice writes the same text twice
		cfg := allCfgs(0, true)[int(core.HashString(src)>>4)%80]
		var b bytes.Buffer
		f := formatter.NewFormatter(&b, cfg.opts()...)
		f.FormatSchemaDocument(doc)
		n := b.Len()
		f.FormatSchemaDocument(doc)
		x.Count("formatter_reuses")
		if one, two := b.String()[:n], b.String()[n:]; one != two {
			x.Violate("doc:formatter-reuse("+cfg.tag()+")", fmt.Sprintf("[%s] second use:\n%s", cfg, two), "first use:\n"+one)
		}
	}
	for _, cfg := range allCfgs(0, true) {
		x.Count("configs_checked")
		out := fmtSchemaDoc(doc, cfg.opts())
		back, perr := parser.ParseSchema(&ast.Source{Name: "formatted.graphql", Input: out})
		if perr != nil {
			sig := "doc:reparse-fails(" + templateOf(perr.Error()) + ")"
			if !reported[sig] {
				reported[sig] = true
				x.Violate(sig, fmt.Sprintf("[%s] %s\nformatted:\n%s", cfg, perr.Error(), out), "formatted text parses")
			}
			continue
		}
		got := model.FromSchemaAST(back)
		code, detail := c13CountDiff(want, got)
		if code == "" {
			code, detail = model.DiffSDocs(want, got, !cfg.nodesc)
		}
		if code != "" {
			sig := "doc:model-differs(" + code + ")"
			if !reported[sig] {
				reported[sig] = true
				x.Violate(sig, fmt.Sprintf("[%s] %s\nformatted:\n%s", cfg, detail, out), "the parsed original")
			}
			continue
		}
		if again := fmtSchemaDoc(back, cfg.opts()); again != out {
			sig := "doc:not-fixpoint(" + fixpointDiffClass(out, again, cfg) + ")"
			if !reported[sig] {
				reported[sig] = true
				x.Violate(sig, fmt.Sprintf("[%s] second format:\n%s", cfg, again), "first format:\n"+out)
			}
		}
	}
	if x.WantSample() && len(src) < 500 {
		x.Sample(map[string]interface{}{"kind": "schema document", "source": src, "formatted_default": fmtSchemaDoc(doc, nil), "configurations": 80, "verdict": "every configuration re-parses to the same model and is a fixpoint"})
	}
}

// fixpointDiffClass names how the second format differs from the first: only in commas (the
// formatter's comma placement depends on descriptions that the first pass dropped), or otherwise
// (then tagged with the options in force).
func fixpointDiffClass(first, second string, c fmtCfg) string {
	strip := func(s string) string {
		return strings.Join(strings.Fields(strings.ReplaceAll(s, ",", " ")), " ")
	}
	if c.nodesc && strip(first) == strip(second) {
		return "commas-only+nodesc"
	}
	return c.tag() + nodescTag(c)
}

func nodescTag(c fmtCfg) string {
	if c.nodesc {
		return "+nodesc"
	}
	return ""
}

func c13Schema(x *core.Ctx, src string) {
	s, err := gqlparser.LoadSchema(&ast.Source{Name: "c13.graphql", Input: src})
	if err != nil {
		x.Count("skipped_unloadable")
		return
	}
	x.Count("schema_roundtrips")
	x.Nontrivial()
	// features of the loaded schema
	custom := false
	for op, d := range map[string]*ast.Definition{"Query": s.Query, "Mutation": s.Mutation, "Subscription": s.Subscription} {
		if d != nil && d.Name != op {
			custom = true
		}
		if t := s.Types[op]; t != nil && t != d {
			x.Distinct("feature", "default-root-name-not-root:"+op)
			x.Count("with_default_named_non_root")
		}
	}
	if custom {
		x.Count("with_custom_root")
		x.Distinct("feature", "custom-root")
	}
	if len(s.SchemaDirectives) > 0 {
		x.Count("with_schema_directive")
		x.Distinct("feature", fmt.Sprintf("schema-directive/custom-root=%v", custom))
	}
	if sd, perr := parser.ParseSchema(&ast.Source{Name: "c13.graphql", Input: src}); perr == nil {
		if sdocFeatures(x, model.FromSchemaAST(sd)) {
			x.Count("with_hostile_description")
		}
	}
	reported := map[string]bool{}
	{
		cfg := allCfgs(0, true)[int(core.HashString(src)>>4)%80]
		var b bytes.Buffer
		f := formatter.NewFormatter(&b, cfg.opts()...)
		f.FormatSchema(s)
		n := b.Len()
		f.FormatSchema(s)
		x.Count("formatter_reuses")
		if one, two := b.String()[:n], b.String()[n:]; one != two {
			x.Violate("schema:formatter-reuse("+cfg.tag()+")", fmt.Sprintf("[%s] second use:\n%s", cfg, two), "first use:\n"+one)
		}
	}
	for _, cfg := range allCfgs(0, true) {
		x.Count("configs_checked")
		out := fmtSchema(s, cfg.opts())
		if cfg.builtin {
			continue // totality only (see Assumptions)
		}
		back, lerr := gqlparser.LoadSchema(&ast.Source{Name: "formatted.graphql", Input: out})
		if lerr != nil {
			sig := "schema:reload-fails(" + templateOf(lerr.Error()) + ")"
			if !reported[sig] {
				reported[sig] = true
				x.Violate(sig, fmt.Sprintf("[%s] %s\nformatted:\n%s", cfg, lerr.Error(), out), "formatted schema loads")
			}
			continue
		}
		o := model.CanonOpts{NoBuiltins: true, NoDesc: cfg.nodesc}
		a, b := model.CanonSchema(s, o), model.CanonSchema(back, o)
		if a != b {
			la, lb := model.FirstDiff(a, b)
			sig := "schema:model-differs(" + c13DiffClass(la, lb) + ")"
			if !reported[sig] {
				reported[sig] = true
				x.Violate(sig, fmt.Sprintf("[%s] reloaded: %s\nformatted:\n%s", cfg, lb, out), "original: "+la)
			}
			continue
		}
		if again := fmtSchema(back, cfg.opts()); again != out {
			sig := "schema:not-fixpoint(" + fixpointDiffClass(out, again, cfg) + ")"
			if !reported[sig] {
				reported[sig] = true
				x.Violate(sig, fmt.Sprintf("[%s] second format:\n%s", cfg, again), "first format:\n"+out)
			}
		}
	}
	if x.WantSample() && len(src) < 1200 {
		x.Sample(map[string]interface{}{"kind": "loaded schema", "source": src, "formatted_default": fmtSchema(s, nil), "configurations": 40, "verdict": "every configuration reloads to the same canonical schema and is a fixpoint"})
	}
}

// c13DiffClass names the kind of the first differing line of two canonical schema dumps.
func c13DiffClass(la, lb string) string {
	l := strings.TrimSpace(la)
	if l == "" {
		l = strings.TrimSpace(lb)
	}
	// a line present on one side only: root and schema lines sort first, name the side that has one
	for _, cand := range []string{la, lb} {
		if c := strings.TrimSpace(cand); strings.HasPrefix(c, "root ") || strings.HasPrefix(c, "schema ") {
			l = c
			break
		}
	}
	f := strings.Fields(l)
	if len(f) == 0 {
		return "end"
	}
	kind := f[0]
	switch kind {
	case "root":
		return "root"
	case "schema":
		if len(f) > 1 {
			return "schema-" + strings.SplitN(f[1], "=", 2)[0]
		}
	case "possible", "implements":
		return kind
	}
	if strings.Contains(la, "desc=") != strings.Contains(lb, "desc=") || descPart(la) != descPart(lb) {
		return kind + ":description"
	}
	return kind
}

func descPart(l string) string {
	i := strings.Index(l, "desc=")
	if i < 0 {
		return ""
	}
	return l[i:]
}

// c13CountDiff compares the number of top-level items per kind.
func c13CountDiff(a, b *model.SDoc) (string, string) {
	count := func(d *model.SDoc) map[string]int {
		mp := map[string]int{}
		for _, it := range d.Items {
			k := it.Kind
			if it.Extend {
				k = "extend-" + k
			}
			mp[k]++
		}
		return mp
	}
	ca, cb := count(a), count(b)
	// several schema definitions / extensions are merged into one by design (findings F-C13-03/04): that is the finding only
	// as long as nothing the originals said is lost - the operation types and the directives of all of them, in order
	for _, ext := range []bool{false, true} {
		said := func(d *model.SDoc) string {
			var b strings.Builder
			for _, it := range d.Items {
				if it.Kind == "schema" && it.Extend == ext {
					for _, ot := range it.OpTypes {
						b.WriteString(ot.Op + ":" + ot.Type + ";")
					}
				}
			}
			b.WriteString(" | ")
			for _, it := range d.Items {
				if it.Kind == "schema" && it.Extend == ext {
					b.WriteString(canonModelDirs(it.Dirs, false) + " ")
				}
			}
			return strings.Join(strings.Fields(b.String()), " ")
		}
		k := "schema"
		if ext {
			k = "extend-schema"
		}
		if ca[k] != cb[k] && ca[k] > 1 && said(a) != said(b) {
			return "merged-" + k + "-loses-content", fmt.Sprintf("%d %s items said %q, the formatted text says %q", ca[k], k, said(a), said(b))
		}
	}
	for _, k := range []string{"schema", "extend-schema", "directive", "scalar", "type", "interface", "union", "enum", "input", "extend-scalar", "extend-type", "extend-interface", "extend-union", "extend-enum", "extend-input"} {
		if ca[k] != cb[k] {
			return "count(" + k + ")", fmt.Sprintf("%d %s items became %d", ca[k], k, cb[k])
		}
	}
	return "", ""
}
