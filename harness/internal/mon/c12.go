package mon

import (
	"bytes"
	"fmt"
	"strings"

	gqlparser "github.com/vektah/gqlparser/v2"
	"github.com/vektah/gqlparser/v2/ast"
	"github.com/vektah/gqlparser/v2/formatter"
	"github.com/vektah/gqlparser/v2/parser"
	"github.com/vektah/gqlparser/v2/validator"

	"verif/harness/internal/core"
	"verif/harness/internal/dgen"
	"verif/harness/internal/gen"
	"verif/harness/internal/model"
	"verif/harness/internal/ref"
)

// C12 — format ∘ parse round trip for executable documents.
func init() {
	core.Register(&core.Monitor{
		ID: "C12",
		Rule: "documents rendered from random syntax trees (hostile string values incl. quotes, backslashes, C0 controls, DEL, non-BMP, block strings with triple quotes and odd indentation; directives on operations, variable definitions, fields, spreads, inline fragments, fragment definitions; " +
			"fragment variables; comments in every position) are parsed, formatted under every configuration {comments} x {compacted} x indent in {\"\",\" \",\"\\t\",\"    \",\" \\t\"} (builtin / no-description flags rotated), re-parsed and compared through an AST->model adapter " +
			"(string values byte for byte; quoted and block strings with the same value are equal), and the re-parsed document is formatted again and must give the same text; one formatter value used for the document twice must write the same text twice; " +
			"distinct = distinct (value-kind, directive-position, string-class) feature signatures seen in round-tripped documents; non-trivial = documents with a string value, a directive or a fragment",
		Assumptions: []string{
			"model equality ignores positions and comments (the property lists operations, fragments, selections, arguments, values, types, directives)",
			"the order of operations relative to fragments is not compared (the formatter documents that it emits operations first)",
		},
		Shards:          func(tier string) int { return 16 },
		Run:             c12Run,
		Check:           c12Check,
		DistinctClasses: []string{"feature"},
		MinEvaluations:  func(tier string) int64 { return 1000 },
		RequiredCounts:  []string{"validated_documents_formatted", "roundtrips", "configs_checked", "with_hostile_string", "with_var_directive", "with_block_string", "with_comments"},
	})
}

var c12Indents = []string{"", " ", "\t", "    ", " \t"}

func c12Run(x *core.Ctx) {
	n := 640 // x16 ≈ 10k documents x 20 configurations
	if !x.Quick() {
		n = 15000
	}
	r := x.Rand(uint64(x.Shard))
	for i := 0; i < n; i++ {
		rn := &model.Renderer{R: r.Fork(uint64(i)), BlockValue: ref.BlockStringValue, Trivia: i % 3, WideComments: true}
		var d *model.Doc
		if i%7 == 0 {
			d = gen.DeepSelections(r, 1+r.Intn(4))
		} else {
			d = gen.QueryDoc(r, &gen.QOpts{MaxDepth: 1 + r.Intn(4), Hostile: i%4 != 3, FragVars: true, VarDirs: true, KeywordNames: i%3 == 0})
		}
		c := core.NewCase("doc", "doc", rn.RenderDoc(d))
		x.Do(c, func() { c12Check(x, c) })
		if i%8 == 5 {
			// a typed document that is VALIDATED before it is formatted (servers log and forward the documents they have
			// validated): what validation hangs on the tree is not part of the document
			sc := c08MakeSchema(r, i)
			td := dgen.New(r, sc.mg, &dgen.Opts{MaxDepth: 1 + r.Intn(3), MaxOps: 1 + r.Intn(2), Introspect: i%3 == 0}).Doc()
			if len(td.Defs) > 0 {
				ct := core.NewCase("doc", "doc", rn.RenderDoc(td), "schema", sc.src)
				x.Do(ct, func() { c12Check(x, ct) })
			}
		}
	}
}

func fmtQuery(doc *ast.QueryDocument, opts []formatter.FormatterOption) string {
	var b bytes.Buffer
	formatter.NewFormatter(&b, opts...).FormatQueryDocument(doc)
	return b.String()
}

type fmtCfg struct {
	comments, compacted, builtin, nodesc bool
	indent                               string
}

func (c fmtCfg) opts() []formatter.FormatterOption {
	o := []formatter.FormatterOption{formatter.WithIndent(c.indent)}
	if c.comments {
		o = append(o, formatter.WithComments())
	}
	if c.compacted {
		o = append(o, formatter.WithCompacted())
	}
	if c.builtin {
		o = append(o, formatter.WithBuiltin())
	}
	if c.nodesc {
		o = append(o, formatter.WithoutDescription())
	}
	return o
}

func (c fmtCfg) String() string {
	var fl []string
	if c.comments {
		fl = append(fl, "comments")
	}
	if c.compacted {
		fl = append(fl, "compacted")
	}
	if c.builtin {
		fl = append(fl, "builtin")
	}
	if c.nodesc {
		fl = append(fl, "nodesc")
	}
	return fmt.Sprintf("indent=%q %s", c.indent, strings.Join(fl, "+"))
}

// tag names the option a defect depends on, for signatures: the minimal flags under which it was seen are
// found by the caller trying the plain configuration first.
func (c fmtCfg) tag() string {
	t := ""
	if c.comments {
		t += "+comments"
	}
	if c.compacted {
		t += "+compacted"
	}
	if t == "" {
		t = "plain"
	}
	return t
}

func allCfgs(rot int, full bool) []fmtCfg {
	var out []fmtCfg
	k := rot
	for _, cm := range []bool{false, true} {
		for _, cp := range []bool{false, true} {
			for _, in := range c12Indents {
				if full {
					for _, bi := range []bool{false, true} {
						for _, nd := range []bool{false, true} {
							out = append(out, fmtCfg{cm, cp, bi, nd, in})
						}
					}
				} else {
					out = append(out, fmtCfg{cm, cp, k&1 == 1, k&2 == 2, in})
					k++
				}
			}
		}
	}
	return out
}

// stringClass classifies a string value for the diversity count and the escape signature.
func stringClass(s string) string {
	var cl []string
	has := func(f func(r rune) bool) bool { return strings.IndexFunc(s, f) >= 0 }
	if has(func(r rune) bool { return r < 0x20 && r != '\n' && r != '\t' && r != '\r' && r != '\b' && r != '\f' }) {
		cl = append(cl, "c0")
	}
	if has(func(r rune) bool { return r == '\b' || r == '\f' }) {
		cl = append(cl, "bf")
	}
	if strings.ContainsRune(s, 0x7f) {
		cl = append(cl, "del")
	}
	if has(func(r rune) bool { return r > 0xFFFF }) {
		cl = append(cl, "nonbmp")
	}
	if has(func(r rune) bool { return r >= 0x80 && r <= 0xFFFF }) {
		cl = append(cl, "bmp")
	}
	if strings.Contains(s, `"""`) {
		cl = append(cl, "triple")
	} else if strings.Contains(s, `"`) {
		cl = append(cl, "quote")
	}
	if strings.Contains(s, `\`) {
		cl = append(cl, "backslash")
	}
	if strings.ContainsAny(s, "\n\r") {
		cl = append(cl, "newline")
	}
	if len(cl) == 0 {
		return "plain"
	}
	return strings.Join(cl, "+")
}

type docFeatures struct {
	strClasses map[string]bool
	hostile    bool
	block      bool
	varDir     bool
	dirs       int
	frags      int
	comments   bool
}

func featuresOf(d *model.Doc, src string) *docFeatures {
	f := &docFeatures{strClasses: map[string]bool{}}
	var val func(v *model.Value)
	val = func(v *model.Value) {
		if v == nil {
			return
		}
		switch v.Kind {
		case model.VString:
			c := stringClass(v.Raw)
			f.strClasses[c] = true
			if c != "plain" {
				f.hostile = true
			}
			if v.Block {
				f.block = true
			}
		case model.VList:
			for _, it := range v.Items {
				val(it)
			}
		case model.VObject:
			for _, of := range v.Fields {
				val(of.Value)
			}
		}
	}
	dirs := func(ds []model.Dir) {
		f.dirs += len(ds)
		for _, dd := range ds {
			for _, a := range dd.Args {
				val(a.Value)
			}
		}
	}
	for _, def := range d.Defs {
		if def.IsFragment {
			f.frags++
		}
		dirs(def.Dirs)
		for _, v := range def.Vars {
			if len(v.Dirs) > 0 {
				f.varDir = true
			}
			dirs(v.Dirs)
			val(v.Default)
		}
		model.WalkSels(def.Sel, func(s *model.Sel, depth int) {
			dirs(s.Dirs)
			for _, a := range s.Args {
				val(a.Value)
			}
		})
	}
	f.comments = strings.Contains(src, "#")
	return f
}

func c12Check(x *core.Ctx, c *core.Case) {
	src := c.Get("doc")
	doc, err := parser.ParseQuery(&ast.Source{Name: "c12.graphql", Input: src})
	if err != nil {
		x.Count("skipped_unparsable")
		return
	}
	want := model.FromAST(doc)
	if ssrc := c.Get("schema"); ssrc != "" {
		schema, lerr := gqlparser.LoadSchema(&ast.Source{Name: "schema.graphql", Input: ssrc})
		if lerr != nil {
			x.Count("skipped:schema-does-not-load")
			return
		}
		if errs := validator.Validate(schema, doc); len(errs) > 0 {
			x.Count("rejected_documents_formatted")
		}
		x.Count("validated_documents_formatted")
	} else if core.HashString(src)%2 == 0 {
		// a validation whose verdict nobody looks at (against a schema that has nothing to do with the document): what it
		// leaves on the tree - variables marked used or not, links - is not part of the document (after seeded change
		// C12-wave10-B: the formatter printed only the variable definitions marked used once any was)
		validator.Validate(c20TinySchema(), doc)
		x.Count("documents_formatted_after_an_unrelated_validation")
	}
	if core.HashString(src)%8 == 3 && len(doc.Operations)+len(doc.Fragments) >= 2 {
		// one document put together from two sources (the same text read from two files): the definitions of the first file,
		// then those of the second, is what was put together and what must come back
		if doc2, err2 := parser.ParseQuery(&ast.Source{Name: "c12-second.graphql", Input: src}); err2 == nil {
			both := &ast.QueryDocument{Operations: append(append(ast.OperationList{}, doc.Operations...), doc2.Operations...), Fragments: append(append(ast.FragmentDefinitionList{}, doc.Fragments...), doc2.Fragments...)}
			wantBoth := model.FromAST(both)
			out := fmtQuery(both, nil)
			x.Count("two_source_documents")
			if back, perr := parser.ParseQuery(&ast.Source{Name: "formatted.graphql", Input: out}); perr != nil {
				x.Violate("two-sources:reparse-fails("+templateOf(perr.Error())+")", perr.Error()+"\nformatted:\n"+out, "formatted text parses")
			} else if code, detail := model.DiffDocs(wantBoth, model.FromAST(back)); code != "" {
				x.Violate("two-sources:model-differs("+code+")", detail+"\nformatted:\n"+out, "the definitions of the first source, then those of the second")
			}
		}
	}
	ft := featuresOf(want, src)
	x.Count("roundtrips")
	if ft.hostile {
		x.Count("with_hostile_string")
	}
	if ft.block {
		x.Count("with_block_string")
	}
	if ft.varDir {
		x.Count("with_var_directive")
	}
	if ft.comments {
		x.Count("with_comments")
	}
	if len(ft.strClasses) > 0 || ft.dirs > 0 || ft.frags > 0 {
		x.Nontrivial()
	}
	for cl := range ft.strClasses {
		x.Distinct("feature", "string:"+cl)
	}
	x.Distinct("feature", fmt.Sprintf("dirs:%d/frags:%d/vardir:%v/block:%v", min(ft.dirs, 6), min(ft.frags, 3), ft.varDir, ft.block))
	rot := int(core.HashString(src) & 3)
	reported := map[string]bool{}
	for _, cfg := range allCfgs(rot, false) {
		x.Count("configs_checked")
		out := fmtQuery(doc, cfg.opts())
		back, perr := parser.ParseQuery(&ast.Source{Name: "formatted.graphql", Input: out})
		if perr != nil {
			sig := "reparse-fails(" + c12ReparseReason(want, perr.Error()) + ")"
			if !reported[sig] {
				reported[sig] = true
				x.Violate(sig, fmt.Sprintf("[%s] %s\nformatted:\n%s", cfg, perr.Error(), out), "formatted text parses")
			}
			continue
		}
		got := model.FromAST(back)
		if code, detail := model.DiffDocs(want, got); code != "" {
			sig := "model-differs(" + code + ")"
			if !reported[sig] {
				reported[sig] = true
				x.Violate(sig, fmt.Sprintf("[%s] %s\nformatted:\n%s", cfg, detail, out), "original:\n"+want.Canon())
			}
			continue
		}
		again := fmtQuery(back, cfg.opts())
		if again != out {
			sig := "not-fixpoint(" + cfg.tag() + ")"
			if !reported[sig] {
				reported[sig] = true
				x.Violate(sig, fmt.Sprintf("[%s] second format:\n%s", cfg, again), "first format:\n"+out)
			}
		}
	}
	// one formatter used twice: the second document must come out as the first did (no state carried between calls)
	{
		cfg := allCfgs(rot, false)[int(core.HashString(src)>>4)%20]
		var b bytes.Buffer
		f := formatter.NewFormatter(&b, cfg.opts()...)
		f.FormatQueryDocument(doc)
		n := b.Len()
		f.FormatQueryDocument(doc)
		x.Count("formatter_reuses")
		if one, two := b.String()[:n], b.String()[n:]; one != two {
			x.Violate("formatter-reuse("+cfg.tag()+")", fmt.Sprintf("[%s] second use:\n%s", cfg, two), "first use:\n"+one)
		}
	}
	if x.WantSample() && ft.hostile && len(src) < 400 {
		x.Sample(map[string]interface{}{"document": src, "formatted_default": fmtQuery(doc, nil), "configurations": 20, "verdict": "every configuration re-parses to the same model and is a fixpoint"})
	}
}

// c12ReparseReason names why formatted text did not parse: the class of the string value whose
// rendering cannot be lexed, or the parser's message template.
func c12ReparseReason(want *model.Doc, msg string) string {
	switch {
	case strings.Contains(msg, "escape sequence"), strings.Contains(msg, "Invalid character escape"):
		return "string-escape"
	case strings.Contains(msg, "Unterminated string"):
		return "unterminated-string"
	case strings.Contains(msg, "Invalid character within String"):
		return "raw-control-in-string"
	}
	return "parser:" + templateOf(msg)
}

// templateOf normalises an error message to its template: drops the file:line prefix, quoted names and numerals.
func templateOf(msg string) string {
	if i := strings.Index(msg, ": "); i >= 0 && i < 40 && strings.Contains(msg[:i], ".graphql") {
		msg = msg[i+2:]
	}
	var b strings.Builder
	inQ := byte(0)
	for i := 0; i < len(msg); i++ {
		ch := msg[i]
		if inQ != 0 {
			if ch == inQ {
				inQ = 0
				b.WriteByte('_')
			}
			continue
		}
		switch {
		case ch == '"' || ch == '`':
			inQ = ch
		case ch >= '0' && ch <= '9':
			if b.Len() == 0 || b.String()[b.Len()-1] != 'N' {
				b.WriteByte('N')
			}
		default:
			b.WriteByte(ch)
		}
	}
	return clipStr(b.String(), 80)
}

func clipStr(s string, n int) string {
	if len(s) > n {
		return s[:n]
	}
	return s
}
