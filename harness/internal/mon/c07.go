package mon

import (
	"fmt"
	"sort"
	"strings"

	gqlparser "github.com/vektah/gqlparser/v2"
	"github.com/vektah/gqlparser/v2/ast"
	"github.com/vektah/gqlparser/v2/parser"
	"github.com/vektah/gqlparser/v2/validator"

	"verif/harness/internal/core"
	"verif/harness/internal/gen"
	"verif/harness/internal/model"
	"verif/harness/internal/ref"
	"verif/harness/internal/tsys"
)

// C07 — a loaded schema is closed and consistent; ill-formed type systems are rejected.
func init() {
	core.Register(&core.Monitor{
		ID: "C07",
		Rule: "type systems generated valid by construction (objects, interfaces implementing interfaces, unions, enums, recursive and @oneOf inputs, custom scalars, directive definitions at all locations with defaults, covariant implementations, extensions, custom roots) must load; " +
			"the same with ONE injected violation from a 36-entry catalogue (one injector per rule the property enumerates) must be rejected; random syntax-level SDL is judged only in the direction checker-finds-a-listed-violation => rejected. " +
			"Verdicts come from an independent rule checker over the model (three-way: generator, checker and loader; generator/checker disagreements are discarded and counted). " +
			"Every schema that loads is walked by a graph monitor: all type references resolve, Interfaces/Types names resolve with the right kind, PossibleTypes and Implements equal the relations implied by the definitions, no nil entries, " +
			"built-in scalars/directives/introspection types present, roots as declared or inferred, __schema/__type on the query root; one loaded schema in eight is compared with the October 2021 specification's own list of built-ins written down in the harness (every specified type, field, argument with its type - by structure, not by printed text - and default, enum value, directive argument and location is there; later additions are allowed). " +
			"The valid schema is loaded before its faulted variants for even case indices and after them for odd ones (same names, other relations: a load must not depend on earlier loads). " +
			"distinct = distinct (fault code, loader message template) pairs plus distinct schema shape signatures; non-trivial = every judged schema",
		Assumptions: []string{
			"rules outside the property's enumeration that the loader also enforces (several schema definitions, extension kind mismatch, unknown directive argument, directive self reference, reserved enum values) are recognised and not judged",
			"PossibleTypes entries keyed by input objects are not judged",
		},
		Shards:          func(tier string) int { return 16 },
		Run:             c07Run,
		Check:           c07Check,
		DistinctClasses: []string{"fault-template", "shape"},
		MinEvaluations:  func(tier string) int64 { return 5000 },
		RequiredCounts:  []string{"schemas_compared_with_the_specified_builtins", "valid_loaded", "fault_rejected", "graph_checked", "random_judged"},
	})
}

func c07Run(x *core.Ctx) {
	n := 320
	if !x.Quick() {
		n = 12500
	}
	r := x.Rand(uint64(x.Shard))
	rn := &model.Renderer{}
	for i := 0; i < n; i++ {
		items := tsys.Schema(r, &tsys.GenOpts{Descs: i%3 == 0, Extensions: i%2 == 0, Small: i%4 == 0})
		if i%7 == 3 {
			// one of the specified directives declared again in the user's source, with an extra optional argument
			items = c13RedefineBuiltin(r, items)
		}
		src := rn.RenderSDoc(&model.SDoc{Items: items})
		c := core.NewCase("schema", "src", src, "expect", "load")
		// the valid schema is loaded before its faulted variants (same names, other relations) for even i, after them for
		// odd i, and in one case out of four both: what a load decides must not depend on what was loaded before
		if i%2 == 0 {
			x.Do(c, func() { c07Check(x, c) })
		}
		if i%5 == 1 {
			// the same valid text from a source flagged built-in (frameworks ship such sources next to the prelude)
			cb := core.NewCase("schema", "src", src, "expect", "load", "builtin-first", "1")
			x.Do(cb, func() { c07Check(x, cb) })
			x.Count("valid_from_builtin_flagged_source")
		}
		split := func(c *core.Case, its []*model.Item) {
			// the same definitions over two or three sources (the loader merges sources before it validates)
			if len(its) < 3 || (i+len(its))%3 != 0 {
				return
			}
			k := 2 + r.Intn(2)
			for j := 1; j < k; j++ {
				lo, hi := j*len(its)/k, (j+1)*len(its)/k
				c.Set(fmt.Sprintf("src%d", j+1), rn.RenderSDoc(&model.SDoc{Items: its[lo:hi]}))
			}
			c.Set("src", rn.RenderSDoc(&model.SDoc{Items: its[:len(its)/k]}))
			c.Set("nsrc", fmt.Sprint(k))
		}
		// every applicable injector, one at a time
		for fi, f := range tsys.Faults {
			if !x.Quick() || (i+fi)%3 == 0 {
				cp := tsys.CloneItems(items)
				out, involved, ok := f.Inject(r, cp)
				if !ok {
					x.Count("fault_not_applicable")
					continue
				}
				fsrc := rn.RenderSDoc(&model.SDoc{Items: out})
				fc := core.NewCase("schema", "src", fsrc, "expect", "reject:"+f.Code, "involved", strings.Join(involved, ","))
				split(fc, out)
				if f.Code == "dup-type" && fc.Get("nsrc") != "" && r.Bool() {
					// the first source is flagged built-in (as plugins do): names must still be unique across sources
					fc.Set("builtin-first", "1")
				}
				x.Do(fc, func() { c07Check(x, fc) })
			}
		}
		if i%2 == 1 || i%4 == 0 {
			ca := core.NewCase("schema", "src", src, "expect", "load", "after-faulted-variants", "1")
			x.Do(ca, func() { c07Check(x, ca) })
			x.Count("valid_loaded_after_faulted_variants")
		}
	}
	// random syntax-level SDL
	m := 1250
	if !x.Quick() {
		m = 31250
	}
	for i := 0; i < m; i++ {
		d := gen.SchemaDoc(r, &gen.SOpts{KeywordNames: i%5 == 0, MaxItems: 6, NoExtend: i%3 == 0})
		c := core.NewCase("schema", "src", rn.RenderSDoc(d), "expect", "random")
		x.Do(c, func() { c07Check(x, c) })
	}
}

func hasCode(vs []tsys.Violation, code string) bool {
	for _, v := range vs {
		if v.Code == code {
			return true
		}
	}
	return false
}

func codesOf(vs []tsys.Violation) string {
	set := map[string]bool{}
	for _, v := range vs {
		set[v.Code] = true
	}
	var l []string
	for k := range set {
		l = append(l, k)
	}
	sort.Strings(l)
	return strings.Join(l, ",")
}

func c07Check(x *core.Ctx, c *core.Case) {
	src := c.Get("src")
	expect := c.Get("expect")
	sources := []*ast.Source{{Name: "schema.graphql", Input: src, BuiltIn: c.Get("builtin-first") != ""}}
	if c.Get("nsrc") != "" {
		var n int
		fmt.Sscan(c.Get("nsrc"), &n)
		for j := 2; j <= n; j++ {
			sources = append(sources, &ast.Source{Name: fmt.Sprintf("schema%d.graphql", j), Input: c.Get(fmt.Sprintf("src%d", j))})
			src += "\n" + c.Get(fmt.Sprintf("src%d", j))
		}
		x.Count("multi_source_cases")
	}
	source := &ast.Source{Name: "all.graphql", Input: src}
	sd, perr := parser.ParseSchema(source)
	if perr != nil {
		if expect == "random" {
			x.Count("random_unparsable")
		} else if grammarAccepts(ref.TypeSystemGrammar, src) {
			// the text is derivable from the type-system grammar: the parser is at fault, not the generator
			x.Violate("rejected-but-valid(parse:"+firstWords(templateOf(perr.Error()), 4)+")", perr.Error()+"\n"+src, "parses: derivable from the type-system grammar")
		} else {
			x.HarnessBug("generated schema does not parse: " + perr.Error() + "\n" + src)
		}
		return
	}
	items := model.FromSchemaAST(sd).Items
	mg := tsys.Merge(items)
	viol, extra := tsys.Check(mg)
	schema, err := gqlparser.LoadSchema(sources...)
	tmpl := ""
	if err != nil {
		tmpl = templateOf(err.Error())
		if schema != nil {
			x.Violate("result-shape", "LoadSchema returned both a schema and an error: "+err.Error(), "a schema or an error")
		}
	} else if schema == nil {
		x.Violate("result-shape", "LoadSchema returned neither a schema nor an error", "a schema or an error")
		return
	}
	c07EntryPoints(x, sources, schema, err)
	x.Nontrivial()
	if err == nil && !sources[0].BuiltIn && core.HashString(src)%4 == 1 {
		// a source handed over twice (the same object, or an equal copy) declares everything in it twice: unique names are
		// a rule whatever the files are called (after seeded change C07-wave10-C: the root package dropped sources equal to
		// one it had already seen)
		if first, perr := parser.ParseSchema(&ast.Source{Name: "first.graphql", Input: sources[0].Input}); perr == nil && len(first.Definitions)+len(first.Directives)+len(first.Schema) > 0 {
			again := sources[0]
			if core.HashString(src)%8 == 1 {
				cp := *sources[0]
				again = &cp
			}
			twice := append(append([]*ast.Source{}, sources...), again)
			x.Count("loads_with_a_source_given_twice")
			if s2, err2 := gqlparser.LoadSchema(twice...); err2 == nil && s2 != nil {
				x.Violate("loaded-but(source-given-twice)", "LoadSchema took a source list in which "+sources[0].Name+" occurs twice", "an error: every definition of that source is declared twice")
			}
			if s3, err3 := validator.LoadSchema(append([]*ast.Source{validator.Prelude}, twice...)...); err3 == nil && s3 != nil {
				x.Violate("loaded-but(source-given-twice:validator.LoadSchema)", "validator.LoadSchema took a source list in which "+sources[0].Name+" occurs twice", "an error")
			}
		}
	}
	switch {
	case expect == "load":
		if len(viol) > 0 || len(extra) > 0 {
			x.Count("discarded:generator-checker-disagree(" + codesOf(viol) + ")")
			if x.Res.Counts["harness_bug"] == 0 && len(viol) > 0 {
				x.HarnessBug("valid-by-construction schema fails the reference checker: " + codesOf(viol) + " " + viol[0].Detail + "\n" + src)
			}
			return
		}
		if err != nil {
			x.Violate("rejected-but-valid("+tmpl+")", err.Error()+"\n"+src, "loads: valid by construction and by the reference checker")
			return
		}
		x.Count("valid_loaded")
		x.Distinct("shape", shapeOfSchema(mg))
		if core.HashString(src)%8 == 0 {
			redefined := map[string]bool{}
			for _, it := range items {
				if it.Kind == "directive" {
					redefined[it.Name] = true
				}
			}
			c07CheckBuiltins(x, schema, redefined)
		}
	case strings.HasPrefix(expect, "reject:"):
		code := strings.TrimPrefix(expect, "reject:")
		if !hasCode(viol, code) {
			x.Count("discarded:injector-checker-disagree(" + code + ")")
			if x.Res.Counts["harness_bug"] == 0 {
				x.HarnessBug("injected fault " + code + " not seen by the reference checker (saw: " + codesOf(viol) + ")\n" + src)
			}
			return
		}
		if err == nil {
			x.Violate("loaded-but("+code+")", "schema loaded\n"+src, "rejected: "+code)
		} else {
			x.Count("fault_rejected")
			x.Count("fault_rejected:" + code)
			x.Distinct("fault-template", code+" -> "+firstWords(tmpl, 3))
		}
	default: // random
		switch {
		case len(viol) > 0 && err == nil:
			x.Violate("loaded-but("+viol[0].Code+")", "schema loaded\n"+src, "rejected: "+viol[0].Detail)
		case len(viol) > 0:
			x.Count("random_judged")
			x.Distinct("fault-template", viol[0].Code+" -> "+firstWords(tmpl, 3))
		case err != nil:
			if len(extra) > 0 {
				x.Count("random_rejected_extra_rule")
			} else {
				x.Count("random_rejected_unjudged")
				x.Count("random_rejected_unjudged:" + tmpl)
			}
		default:
			x.Count("random_judged")
			x.Count("random_loaded")
		}
	}
	if err == nil && schema != nil {
		x.Count("graph_checked")
		c07Graph(x, schema, mg)
		if c.Get("builtin-first") == "" && len(mg.DupTypes) == 0 && len(mg.DupDirectives) == 0 && len(mg.SchemaDefs) <= 1 {
			// contents: what the loaded schema holds per type and directive (fields, arguments, defaults, enum values,
			// members, interfaces, applied directives, descriptions, roots, schema directives; as sets) is what the
			// definitions and extensions say, merged by an independent implementation
			o := model.CanonOpts{FieldsAsSets: true, NoBuiltins: true, NoRelations: true}
			if got, want := model.CanonSchema(schema, o), canonMerged(mg, o); got != want {
				dg, dw := model.FirstDiff(got, want)
				x.Violate("content("+firstWords(templateOf(dw+" "), 1)+")", dg, "as defined: "+dw)
			} else {
				x.Count("contents_compared")
			}
		}
		if x.WantSample() && expect == "load" && len(src) < 1500 {
			x.Sample(map[string]interface{}{"schema": src, "verdict": "loaded; graph monitor: every reference resolves and relations equal the definitions", "types": len(schema.Types)})
		}
	}
}

// firstWords keeps the first n words of a message template (names further on would split classes).
func firstWords(s string, n int) string {
	f := strings.Fields(s)
	if len(f) > n {
		f = f[:n]
	}
	return strings.Join(f, " ")
}

func shapeOfSchema(mg *tsys.Merged) string {
	cnt := map[string]int{}
	impl, ext := 0, 0
	for _, n := range mg.TypeNames {
		d := mg.Types[n]
		if d.BuiltIn {
			continue
		}
		cnt[d.Kind]++
		impl += len(d.Interfaces)
		if len(d.Items) > 1 {
			ext++
		}
	}
	return fmt.Sprintf("s%d t%d i%d u%d e%d in%d impl%d ext%d roots%d", cnt["scalar"], cnt["type"], cnt["interface"], cnt["union"], cnt["enum"], cnt["input"], min(impl, 9), min(ext, 5), len(mg.Roots))
}

var builtinTypeNames = []string{"Int", "Float", "String", "Boolean", "ID", "__Schema", "__Type", "__TypeKind", "__Field", "__InputValue", "__EnumValue", "__Directive", "__DirectiveLocation"}
var builtinDirNames = []string{"include", "skip", "deprecated", "specifiedBy", "defer", "oneOf"}

func astKind(k string) ast.DefinitionKind {
	switch k {
	case "scalar":
		return ast.Scalar
	case "type":
		return ast.Object
	case "interface":
		return ast.Interface
	case "union":
		return ast.Union
	case "enum":
		return ast.Enum
	}
	return ast.InputObject
}

func defNames(ds []*ast.Definition) ([]string, bool) {
	var out []string
	for _, d := range ds {
		if d == nil {
			return nil, false
		}
		out = append(out, d.Name)
	}
	sort.Strings(out)
	return out, true
}

func uniqSorted(xs []string) []string {
	set := map[string]bool{}
	for _, s := range xs {
		set[s] = true
	}
	var out []string
	for s := range set {
		out = append(out, s)
	}
	sort.Strings(out)
	return out
}

// c07Graph: closure and relation checks on a returned schema, against the merged reference view.
func c07Graph(x *core.Ctx, s *ast.Schema, mg *tsys.Merged) {
	bad := func(sig, obs, exp string) { x.Violate("graph("+sig+")", obs, exp) }
	for _, n := range builtinTypeNames {
		if s.Types[n] == nil {
			bad("builtin-type:missing", n+" missing", "built-in types present")
		}
	}
	for _, n := range builtinDirNames {
		if s.Directives[n] == nil {
			bad("builtin-directive:missing", "@"+n+" missing", "built-in directives present")
		}
	}
	for opn, rd := range map[string]*ast.Definition{"query": s.Query, "mutation": s.Mutation, "subscription": s.Subscription} {
		if rd != nil && s.Types[rd.Name] != rd {
			bad("root:identity("+opn+")", opn+" root "+rd.Name+" is not Types["+rd.Name+"]", "the registered definition")
		}
	}
	// types: the same set as the definitions imply, each with the right kind
	for _, n := range mg.TypeNames {
		d := mg.Types[n]
		sd := s.Types[n]
		if sd == nil {
			bad("types:missing", "type "+n+" is defined but not in Types", "every defined type is in Types")
			continue
		}
		if sd.Name != n {
			bad("types:key-name", fmt.Sprintf("Types[%q].Name = %q", n, sd.Name), "key equals name")
		}
		if sd.Kind != astKind(d.Kind) {
			bad("types:kind", fmt.Sprintf("%s is %s", n, sd.Kind), string(astKind(d.Kind)))
		}
	}
	for n, sd := range s.Types {
		if sd == nil {
			bad("types:nil", "Types["+n+"] is nil", "no nil entries")
			continue
		}
		if mg.Types[n] == nil {
			bad("types:extra", "Types has "+n+" which no source defines", "only defined types")
		}
	}
	typeRef := func(where string, t *ast.Type) {
		if t == nil {
			bad("typeref:nil", where+" has a nil type", "a type")
			return
		}
		if s.Types[t.Name()] == nil {
			bad("typeref:dangling", where+" refers to "+t.Name(), "every type reference resolves")
		}
	}
	for n, sd := range s.Types {
		if sd == nil {
			continue
		}
		for _, f := range sd.Fields {
			typeRef(n+"."+f.Name, f.Type)
			for _, a := range f.Arguments {
				typeRef(n+"."+f.Name+"("+a.Name+")", a.Type)
			}
			for _, d := range f.Directives {
				if d.Definition == nil && s.Directives[d.Name] == nil {
					bad("directive:dangling", "@"+d.Name+" on "+n+"."+f.Name, "every applied directive is defined")
				}
			}
		}
		for _, in := range sd.Interfaces {
			if id := s.Types[in]; id == nil {
				bad("interfaces:dangling", n+" implements "+in, "resolves")
			} else if id.Kind != ast.Interface {
				bad("interfaces:kind", n+" implements "+in+" which is "+string(id.Kind), "INTERFACE")
			}
		}
		for _, mb := range sd.Types {
			if md := s.Types[mb]; md == nil {
				bad("union-member:dangling", n+" member "+mb, "resolves")
			} else if md.Kind != ast.Object {
				bad("union-member:kind", n+" member "+mb+" is "+string(md.Kind), "OBJECT")
			}
		}
	}
	for n, dd := range s.Directives {
		if dd == nil {
			bad("directives:nil", "Directives["+n+"] is nil", "no nil entries")
			continue
		}
		for _, a := range dd.Arguments {
			typeRef("@"+n+"("+a.Name+")", a.Type)
		}
	}
	for n := range mg.Directives {
		if s.Directives[n] == nil {
			bad("directives:missing", "@"+n+" is defined but not in Directives", "every defined directive")
		}
	}
	// relations
	for _, n := range mg.TypeNames {
		d := mg.Types[n]
		switch d.Kind {
		case "type", "interface", "union":
			want := uniqSorted(mg.PossibleTypes(n))
			got, ok := defNames(s.PossibleTypes[n])
			if !ok {
				bad("possible-types:nil-entry", "PossibleTypes["+n+"] holds nil", "no nil entries")
				continue
			}
			if fmt.Sprint(uniqSorted(got)) != fmt.Sprint(want) {
				bad("possible-types:"+d.Kind, fmt.Sprintf("PossibleTypes[%s] = %v", n, got), fmt.Sprintf("%v", want))
			}
			for _, pd := range s.PossibleTypes[n] {
				if pd != s.Types[pd.Name] {
					bad("possible-types:identity", "PossibleTypes["+n+"] holds a "+pd.Name+" that is not Types["+pd.Name+"]", "the schema's own definition")
				}
			}
		}
		// Implements[T] = declared interfaces ∪ containing unions
		if d.Kind == "type" || d.Kind == "interface" {
			var want []string
			want = append(want, d.Interfaces...)
			for _, un := range mg.TypeNames {
				u := mg.Types[un]
				if u.Kind == "union" {
					for _, mb := range u.Members {
						if mb == n {
							want = append(want, un)
						}
					}
				}
			}
			got, ok := defNames(s.Implements[n])
			if !ok {
				bad("implements:nil-entry", "Implements["+n+"] holds nil", "no nil entries")
				continue
			}
			if fmt.Sprint(uniqSorted(got)) != fmt.Sprint(uniqSorted(want)) {
				bad("implements", fmt.Sprintf("Implements[%s] = %v", n, got), fmt.Sprintf("%v", uniqSorted(want)))
			}
		}
	}
	// the exported helpers beside the maps (callers such as gqlgen use these, not the maps)
	sameDefs := func(a, b []*ast.Definition) bool {
		if len(a) != len(b) {
			return false
		}
		for i := range a {
			if a[i] != b[i] {
				return false
			}
		}
		return true
	}
	for n, sd := range s.Types {
		if sd == nil {
			continue
		}
		x.Count("helper_checks")
		if !sameDefs(s.GetPossibleTypes(sd), s.PossibleTypes[n]) {
			bad("helper:GetPossibleTypes", fmt.Sprintf("GetPossibleTypes(%s) has %d entries, PossibleTypes[%s] has %d (or other definitions)", n, len(s.GetPossibleTypes(sd)), n, len(s.PossibleTypes[n])), "the map's entry")
		}
		if !sameDefs(s.GetImplements(sd), s.Implements[n]) {
			bad("helper:GetImplements", fmt.Sprintf("GetImplements(%s) has %d entries, Implements[%s] has %d (or other definitions)", n, len(s.GetImplements(sd)), n, len(s.Implements[n])), "the map's entry")
		}
		k := sd.Kind
		if sd.IsLeafType() != (k == ast.Scalar || k == ast.Enum) || sd.IsAbstractType() != (k == ast.Interface || k == ast.Union) ||
			sd.IsCompositeType() != (k == ast.Object || k == ast.Interface || k == ast.Union) || sd.IsInputType() != (k == ast.Scalar || k == ast.Enum || k == ast.InputObject) {
			bad("helper:kind-predicate("+string(k)+")", fmt.Sprintf("%s %s: leaf=%v abstract=%v composite=%v input=%v", k, n, sd.IsLeafType(), sd.IsAbstractType(), sd.IsCompositeType(), sd.IsInputType()), "predicates that follow the kind")
		}
		if !sd.OneOf(n) || !sd.OneOf("\x00", n) || sd.OneOf() || sd.OneOf(n+"_") {
			bad("helper:OneOf", "Definition.OneOf does not answer by name for "+n, "true exactly for the own name")
		}
		for _, f := range sd.Fields {
			if sd.Fields.ForName(f.Name) == nil || sd.Fields.ForName(f.Name).Name != f.Name {
				bad("helper:FieldList.ForName", n+"."+f.Name+" not found by ForName", "every listed field is found")
			}
			ts := []*ast.Type{f.Type}
			for _, a := range f.Arguments {
				if f.Arguments.ForName(a.Name) == nil || f.Arguments.ForName(a.Name).Name != a.Name {
					bad("helper:ArgumentDefinitionList.ForName", n+"."+f.Name+"("+a.Name+") not found by ForName", "every listed argument is found")
				}
				ts = append(ts, a.Type)
			}
			for _, t := range ts {
				if t == nil {
					continue
				}
				in := t
				for in.Elem != nil {
					in = in.Elem
				}
				if t.Name() != in.NamedType || !t.IsCompatible(t) || t.Dump() != t.String() {
					bad("helper:Type", fmt.Sprintf("%s: Name()=%q IsCompatible(self)=%v Dump()=%q", t.String(), t.Name(), t.IsCompatible(t), t.Dump()), "innermost name, reflexive compatibility, Dump = String")
				}
				if t.NonNull {
					nullable := *t
					nullable.NonNull = false
					if !t.IsCompatible(&nullable) || nullable.IsCompatible(t) {
						bad("helper:Type.IsCompatible(nullability)", t.String()+" vs its nullable form", "T! fits T, T does not fit T!")
					}
				}
			}
		}
		if sd.Fields.ForName("\x00none") != nil {
			bad("helper:FieldList.ForName", n+": a field found for a name nothing has", "nil")
		}
		for _, ev := range sd.EnumValues {
			if sd.EnumValues.ForName(ev.Name) == nil || sd.EnumValues.ForName(ev.Name).Name != ev.Name {
				bad("helper:EnumValueList.ForName", n+"."+ev.Name+" not found by ForName", "every listed value is found")
			}
		}
		for _, d := range sd.Directives {
			if sd.Directives.ForName(d.Name) == nil || sd.Directives.ForName(d.Name).Name != d.Name {
				bad("helper:DirectiveList.ForName", n+" @"+d.Name+" not found by ForName", "every applied directive is found")
			}
			cnt := 0
			for _, d2 := range sd.Directives {
				if d2.Name == d.Name {
					cnt++
				}
			}
			if len(sd.Directives.ForNames(d.Name)) != cnt {
				bad("helper:DirectiveList.ForNames", fmt.Sprintf("%s @%s: ForNames gives %d of %d", n, d.Name, len(sd.Directives.ForNames(d.Name)), cnt), "all applications of the name")
			}
		}
	}
	for n, l := range s.PossibleTypes {
		if mg.Types[n] == nil && len(l) > 0 {
			bad("possible-types:unknown-key", "PossibleTypes has key "+n, "only defined composite types")
		}
	}
	for n, l := range s.Implements {
		if mg.Types[n] == nil && len(l) > 0 {
			bad("implements:unknown-key", "Implements has key "+n, "only defined types")
		}
	}
	// roots
	root := func(op string, got *ast.Definition) {
		want := mg.Roots[op]
		switch {
		case want == "" && got != nil:
			bad("root:unexpected("+op+")", op+" root is "+got.Name, "no "+op+" root declared or inferable")
		case want != "" && got == nil:
			bad("root:missing("+op+")", "no "+op+" root", want)
		case want != "" && got.Name != want:
			bad("root:wrong("+op+")", op+" root is "+got.Name, want)
		case want != "" && got != s.Types[want]:
			bad("root:identity("+op+")", op+" root is not Types["+want+"]", "the schema's own definition")
		}
	}
	root("query", s.Query)
	root("mutation", s.Mutation)
	root("subscription", s.Subscription)
	if s.Query != nil {
		f := s.Query.Fields.ForName("__schema")
		if f == nil || f.Type == nil || f.Type.String() != "__Schema!" {
			bad("introspection:__schema", "query root lacks __schema: __Schema!", "present")
		}
		t := s.Query.Fields.ForName("__type")
		if t == nil || t.Type == nil || t.Type.String() != "__Type" || t.Arguments.ForName("name") == nil || t.Arguments.ForName("name").Type.String() != "String!" {
			bad("introspection:__type", "query root lacks __type(name: String!): __Type", "present")
		}
	}
}

// grammarAccepts: the reference lexer and the grammar-as-data recognizer accept the text.
func grammarAccepts(g *ref.Grammar, src string) bool {
	rr := ref.Lex(src)
	if rr.Abstain != "" || rr.Failed {
		return false
	}
	ok, _, _ := g.Recognize(ref.GToksFromLex(rr.Toks))
	return ok
}

// c07EntryPoints: the other public ways of loading the same sources must agree with LoadSchema: MustLoadSchema panics exactly
// when LoadSchema fails, and ValidateSchemaDocument over ParseSchemas(prelude, sources...) returns the same verdict, the same
// error text and (through the canonical dump) the same schema.
func c07EntryPoints(x *core.Ctx, sources []*ast.Source, schema *ast.Schema, err error) {
	if core.HashString(sources[0].Input)%4 != 0 {
		return
	}
	x.Count("entry_point_comparisons")
	var panicked interface{}
	var ms *ast.Schema
	func() {
		defer func() { panicked = recover() }()
		ms = gqlparser.MustLoadSchema(sources...)
	}()
	if (panicked != nil) != (err != nil) || (panicked == nil && ms == nil) {
		x.Violate("MustLoadSchema:verdict", fmt.Sprintf("panicked=%v schema=%v", panicked != nil, ms != nil), fmt.Sprintf("panic iff LoadSchema fails (%v)", err))
		return
	}
	all := append([]*ast.Source{validator.Prelude}, sources...)
	sd, perr := parser.ParseSchemas(all...)
	if perr != nil {
		if err == nil || perr.Error() != err.Error() {
			x.Violate("ParseSchemas:differs-from-LoadSchema", perr.Error(), fmt.Sprint(err))
		}
		return
	}
	vs, verr := validator.ValidateSchemaDocument(sd)
	switch {
	case (verr != nil) != (err != nil):
		x.Violate("ValidateSchemaDocument:verdict", fmt.Sprint(verr), fmt.Sprint(err))
	case verr != nil && verr.Error() != err.Error():
		x.Violate("ValidateSchemaDocument:error-text", verr.Error(), err.Error())
	case verr == nil:
		o := model.CanonOpts{}
		if a, b := model.CanonSchema(vs, o), model.CanonSchema(schema, o); a != b {
			da, db := model.FirstDiff(a, b)
			x.Violate("ValidateSchemaDocument:schema-differs", da, "the schema LoadSchema returns: "+db)
		}
		if ms != nil {
			if a, b := model.CanonSchema(ms, o), model.CanonSchema(schema, o); a != b {
				da, db := model.FirstDiff(a, b)
				x.Violate("MustLoadSchema:schema-differs", da, "the schema LoadSchema returns: "+db)
			}
		}
	}
}

func canonModelDirs(ds []model.Dir, sorted bool) string {
	var l []string
	for _, d := range ds {
		var b strings.Builder
		b.WriteString("@" + d.Name + "(")
		for _, a := range d.Args {
			b.WriteString(a.Name + ":" + a.Value.CanonString() + ";")
		}
		b.WriteString(")")
		l = append(l, b.String())
	}
	if sorted {
		sort.Strings(l)
	}
	return strings.Join(l, " ")
}

func canonModelArgs(as []*model.ArgDef, o model.CanonOpts) string {
	var b strings.Builder
	for _, a := range as {
		b.WriteString(a.Name + ":" + a.Type.String())
		if a.Default != nil {
			b.WriteString("=" + a.Default.CanonString())
		}
		if !o.NoDesc && a.Desc != "" {
			fmt.Fprintf(&b, " desc=%q", a.Desc)
		}
		if s := canonModelDirs(a.Dirs, o.FieldsAsSets); s != "" {
			b.WriteString(" " + s)
		}
		b.WriteString("; ")
	}
	return b.String()
}

// canonMerged writes the reference's merged view in the format of model.CanonSchema (same options), so that "the loaded
// schema holds what the definitions say" is one string comparison. Only NoBuiltins+NoRelations dumps are supported.
func canonMerged(mg *tsys.Merged, o model.CanonOpts) string {
	var b strings.Builder
	for _, op := range []string{"query", "mutation", "subscription"} {
		if r := mg.Roots[op]; r != "" {
			fmt.Fprintf(&b, "root %s: %s\n", op, r)
		}
	}
	if !o.NoDesc && mg.SchemaDesc != "" {
		fmt.Fprintf(&b, "schema desc=%q\n", mg.SchemaDesc)
	}
	if ds := canonModelDirs(mg.SchemaDirs, o.FieldsAsSets); ds != "" {
		fmt.Fprintf(&b, "schema dirs %s\n", ds)
	}
	prelude := map[*model.Item]bool{}
	for _, it := range tsys.PreludeItems() {
		prelude[it] = true
	}
	for _, n := range mg.DirectiveNames() {
		d := mg.Directives[n]
		if prelude[d] {
			continue
		}
		fmt.Fprintf(&b, "directive @%s(%s) repeatable=%v on ", n, canonModelArgs(d.Args, o), d.Repeatable)
		locs := append([]string{}, d.Locations...)
		if o.FieldsAsSets {
			sort.Strings(locs)
		}
		b.WriteString(strings.Join(locs, "|"))
		if !o.NoDesc && d.Desc != "" {
			fmt.Fprintf(&b, " desc=%q", d.Desc)
		}
		b.WriteString("\n")
	}
	for _, n := range mg.TypeNames {
		d := mg.Types[n]
		if d.BuiltIn {
			continue
		}
		fmt.Fprintf(&b, "%s %s", astKind(d.Kind), d.Name)
		if !o.NoDesc && d.Desc != "" {
			fmt.Fprintf(&b, " desc=%q", d.Desc)
		}
		in := append([]string{}, d.Interfaces...)
		mb := append([]string{}, d.Members...)
		if o.FieldsAsSets {
			sort.Strings(in)
			sort.Strings(mb)
		}
		if len(in) > 0 {
			b.WriteString(" implements " + strings.Join(in, "&"))
		}
		if len(mb) > 0 {
			b.WriteString(" = " + strings.Join(mb, "|"))
		}
		if ds := canonModelDirs(d.Dirs, o.FieldsAsSets); ds != "" {
			b.WriteString(" " + ds)
		}
		b.WriteString("\n")
		var fl, vl []string
		for _, f := range d.Fields {
			var fb strings.Builder
			fmt.Fprintf(&fb, "  field %s(%s): %s", f.Name, canonModelArgs(f.Args, o), f.Type.String())
			if f.Default != nil {
				fb.WriteString(" = " + f.Default.CanonString())
			}
			if !o.NoDesc && f.Desc != "" {
				fmt.Fprintf(&fb, " desc=%q", f.Desc)
			}
			if ds := canonModelDirs(f.Dirs, o.FieldsAsSets); ds != "" {
				fb.WriteString(" " + ds)
			}
			fl = append(fl, fb.String())
		}
		for _, v := range d.Values {
			var vb strings.Builder
			fmt.Fprintf(&vb, "  value %s", v.Name)
			if !o.NoDesc && v.Desc != "" {
				fmt.Fprintf(&vb, " desc=%q", v.Desc)
			}
			if ds := canonModelDirs(v.Dirs, o.FieldsAsSets); ds != "" {
				vb.WriteString(" " + ds)
			}
			vl = append(vl, vb.String())
		}
		if o.FieldsAsSets {
			sort.Strings(fl)
			sort.Strings(vl)
		}
		for _, l := range fl {
			b.WriteString(l + "\n")
		}
		for _, l := range vl {
			b.WriteString(l + "\n")
		}
	}
	return b.String()
}
