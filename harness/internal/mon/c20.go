package mon

import (
	"encoding/json"
	"errors"
	"fmt"
	"math"
	"reflect"
	"strings"

	gqlparser "github.com/vektah/gqlparser/v2"
	"github.com/vektah/gqlparser/v2/ast"
	"github.com/vektah/gqlparser/v2/gqlerror"
	"github.com/vektah/gqlparser/v2/lexer"
	"github.com/vektah/gqlparser/v2/parser"
	"github.com/vektah/gqlparser/v2/validator"

	"verif/harness/internal/core"
	"verif/harness/internal/dgen"
	"verif/harness/internal/gen"
	"verif/harness/internal/model"
	"verif/harness/internal/ref"
	"verif/harness/internal/tsys"
)

// C20 — errors are well-formed.
func init() {
	core.Register(&core.Monitor{
		ID: "C20",
		Rule: "error-biased workloads drive every public entry point: the lexer alone, ParseQuery/ParseSchema with and without token limits on token-mutated documents with hostile trivia (multi-line block strings, non-ASCII before errors), LoadSchema on faulted schemas split over named sources, " +
			"Validate with every rule on faulted documents parsed from a named source, gqlparser.LoadQuery, and VariableValues on defective variable maps (error paths through lists and input objects). Every error object is checked: non-empty message; validation errors name a rule and have a location; " +
			"errors about a named source carry that file name; the JSON encoding of the error and of the gqlerror.List decodes generically into message (non-empty string), locations with positive integer line and column, path of strings and integers; the path survives encode/decode. " +
			"For every enumerated path up to length 3 the exported constructors and wrappers (Errorf, ErrorPathf, ErrorLocf, ErrorPosf, Wrap, WrapPath, WrapIfUnwrapped, SetFile) are driven with that path, a message, a file and a position: what goes in must come out, the result meets the same obligations, and a List answers errors.Is/As/Unwrap/Error for its members. " +
			"Independently every path over the element alphabet {\"a\", \"\", \"b.c\", \"0\", \"é\\\"\", a name of C0 controls and DEL, a name of a tag character, U+2028 and VT, 0, 1, 7, 2^31-1} up to length 4 (quick) / 6 (thorough) is marshalled and unmarshalled (exhaustive). " +
			"distinct = distinct (entry point, message template) pairs reached; non-trivial = error objects checked",
		Assumptions: []string{
			"the token-limit error is a plain error without source and the nil-schema/nil-document guard errors of Validate are not produced by a rule: both are only checked for a non-empty message",
		},
		Shards:          func(tier string) int { return 16 },
		Run:             c20Run,
		Check:           c20Check,
		DistinctClasses: []string{"entry-template"},
		MinEvaluations:  func(tier string) int64 { return 5000 },
		RequiredCounts:  []string{"errors:lexer", "errors:parse-query", "errors:parse-schema", "errors:load", "errors:validate", "errors:variables", "errors:limit", "paths_roundtripped", "error_paths_roundtripped"},
		Exhaustive:      func(tier string) bool { return false },
	})
}

var c20PathAlphabet = []ast.PathElement{ast.PathName("a"), ast.PathName(""), ast.PathName("b.c"), ast.PathName("0"), ast.PathName("é\""), ast.PathName("\x01\x7f\a"), ast.PathName("\U000e0001\u2028\v"), ast.PathIndex(0), ast.PathIndex(1), ast.PathIndex(7), ast.PathIndex(math.MaxInt32)}

func c20Run(x *core.Ctx) {
	// (1) exhaustive paths, distributed by first element
	maxLen := 4
	if !x.Quick() {
		maxLen = 6
	}
	var rec func(p ast.Path)
	rec = func(p ast.Path) {
		c20Path(x, p)
		if len(p) >= maxLen {
			return
		}
		for _, e := range c20PathAlphabet {
			rec(append(append(ast.Path{}, p...), e))
		}
	}
	if x.Shard == 0 {
		c20Path(x, nil)
		c20Path(x, ast.Path{})
	}
	for i, e := range c20PathAlphabet {
		if i%x.NShards == x.Shard {
			rec(ast.Path{e})
		}
	}
	// (2) error-biased workloads
	n := 1500
	if !x.Quick() {
		n = 30000
	}
	r := x.Rand(uint64(x.Shard))
	if x.Shard < 4 {
		// constructs nested deeper than any guard someone might put in (1200-3000 levels), well-formed and cut short: if an
		// error comes back it is an error like the others
		d := 1200 + r.Intn(1800)
		for _, cse := range [][2]string{
			{"query", strings.Repeat("{a", d) + strings.Repeat("}", d)},
			{"query", "{a(x:" + strings.Repeat("[", d) + "1" + strings.Repeat("]", d) + ")}"},
			{"query", "{a(x:" + strings.Repeat("{k:", d) + "1" + strings.Repeat("}", d) + ")}"},
			{"query", "query($v:" + strings.Repeat("[", d) + "Int" + strings.Repeat("]", d) + "){a}"},
			{"query", strings.Repeat("{a", d) + strings.Repeat("}", d/2)},
			{"schema", "type T{f(a:" + strings.Repeat("[", d) + "Int" + strings.Repeat("]", d) + "=" + strings.Repeat("[", d) + strings.Repeat("]", d) + "):Int}"},
			{"schema", "type T{f:" + strings.Repeat("[", d) + "Int" + strings.Repeat("]", d-1) + "}"},
		} {
			c := core.NewCase("parse", "grammar", cse[0], "src", cse[1])
			x.Do(c, func() { c20Check(x, c) })
			x.Count("deeply_nested_documents")
		}
	}
	for i := 0; i < n; i++ {
		rn := &model.Renderer{R: r.Fork(uint64(i)), BlockValue: ref.BlockStringValue, Trivia: 2}
		switch i % 6 {
		case 0:
			d := gen.QueryDoc(r, &gen.QOpts{MaxDepth: 2, Hostile: true, FragVars: true, VarDirs: true, KeywordNames: i%4 == 0})
			toks := mutateTokens(r, rn.DocTokens(d))
			if r.Bool() {
				toks = mutateTokens(r, toks)
			}
			c := core.NewCase("parse", "grammar", "query", "src", rn.Text(toks))
			x.Do(c, func() { c20Check(x, c) })
		case 1:
			d := gen.SchemaDoc(r, &gen.SOpts{Hostile: true, KeywordNames: i%4 == 1})
			toks := mutateTokens(r, rn.SDocTokens(d))
			c := core.NewCase("parse", "grammar", "schema", "src", rn.Text(toks))
			x.Do(c, func() { c20Check(x, c) })
		case 2:
			// lexical errors: soup with bad escapes, stray characters, unterminated strings after non-ASCII block strings
			pieces := []string{`"\q"`, `"\u12G4"`, `"unterminated`, "\"\"\"é\nblock é\n\"\"\" ?", "\"\"\"日本\n語\"\"\" \"\\x\"", "~", "1.", "1e", "0123", ".5", "..", "\x00", "\x07", "{ a }", "é", "\"\n\"", "# c\n", "name", "$", "\"\"\"\\", "-", "1.0e+"}
			var b strings.Builder
			k := 1 + r.Intn(5)
			for j := 0; j < k; j++ {
				b.WriteString(pieces[r.Intn(len(pieces))])
				b.WriteString(r.Pick(" ", "\n", "\r\n", "", ","))
			}
			c := core.NewCase("parse", "grammar", r.Pick("query", "schema"), "src", b.String())
			x.Do(c, func() { c20Check(x, c) })
		case 3:
			items := tsys.Schema(r, &tsys.GenOpts{Descs: i%2 == 0, Hostile: i%4 == 0, Extensions: true, ExtOnly: i%10 >= 5, Small: true})
			all := append(append([]tsys.Fault{}, tsys.Faults...), tsys.ExtraFaults...)
			if out, _, ok := all[r.Intn(len(all))].Inject(r, tsys.CloneItems(items)); ok && i%30 != 9 {
				items = out
			}
			if i%20 == 3 {
				// the same kind of fault twice (two names declared twice): whatever the loader collects, what it returns is one
				// well-formed error
				for _, f := range all {
					if f.Code == "dup-type" {
						if o1, _, ok1 := f.Inject(r, tsys.CloneItems(items)); ok1 {
							if o2, _, ok2 := f.Inject(r, o1); ok2 {
								items = o2
							}
						}
					}
				}
			}
			k := 1 + r.Intn(3)
			if k > len(items) {
				k = len(items)
			}
			kv := []string{"n", fmt.Sprint(k)}
			for j := 0; j < k; j++ {
				lo, hi := j*len(items)/k, (j+1)*len(items)/k
				kv = append(kv, fmt.Sprintf("src%d", j), rn.RenderSDoc(&model.SDoc{Items: items[lo:hi]}))
			}
			if i%30 == 9 {
				// a schema extension that carries a directive it may not carry (undefined, not for this place, unknown or
				// missing argument), in a file of its own
				ext := r.Pick("extend schema @nope", "extend schema @skip(if: true)", "extend schema @deprecated(because: 1)", "extend schema @include", "extend schema @specifiedBy(url: 1) { query: Query }",
					"extend schema @__mine", "schema @nope { query: Query }", "extend schema { query: Nope }", "extend schema @deprecated @nope { mutation: Query }")
				kv[1] = fmt.Sprint(k + 1)
				kv = append(kv, fmt.Sprintf("src%d", k), r.Pick("", "\n\n", "# c\n")+ext)
				x.Count("faulty_schema_extension_loads")
			}
			if i%30 == 21 && k >= 2 {
				// two or three of the sources do not parse: the one error that comes back is an error like the others
				for j := 0; j < k; j++ {
					if j < 2 || r.Bool() {
						kv[3+2*j] += r.Pick(" }", " \"unterminated", " type", " ~", " \"\\q\"", " extend")
					}
				}
				x.Count("loads_with_several_broken_sources")
			}
			c := core.NewCase("load", kv...)
			x.Do(c, func() { c20Check(x, c) })
		case 4:
			sc := c08MakeSchema(r, i)
			g := dgen.New(r, sc.mg, &dgen.Opts{MaxDepth: 2, MaxOps: 2, Introspect: i%3 == 0})
			doc := g.Doc()
			if len(doc.Defs) == 0 {
				continue
			}
			nf := 1 + r.Intn(3)
			for k := 0; k < nf; k++ {
				dgen.Faults[r.Intn(len(dgen.Faults))].Do(dgen.NewFCtx(r, sc.mg, doc))
			}
			c := core.NewCase("validate", "schema", sc.src, "doc", rn.RenderDoc(doc))
			x.Do(c, func() { c20Check(x, c) })
		case 5:
			types := c14Types()
			ts := types[r.Intn(len(types))]
			schema, _ := gqlparser.LoadSchema(&ast.Source{Name: "c14.graphql", Input: c14Schema})
			// one value in four is a conforming one (no defect): there must then be no error at all - not even an error
			// interface with nothing in it
			g := &c14Gen{r: r, schema: schema, defect: c14Defects[r.Intn(len(c14Defects)+2)%len(c14Defects)]}
			v := g.value(mustType(ts), 2)
			b, _ := json.Marshal(encodeTyped(v))
			c := core.NewCase("variables", "type", ts, "value", string(b))
			x.Do(c, func() { c20Check(x, c) })
		}
	}
}

func pathEqual(a, b ast.Path) bool {
	if len(a) != len(b) {
		return false
	}
	for i := range a {
		if !reflect.DeepEqual(a[i], b[i]) {
			return false
		}
	}
	return true
}

func c20Path(x *core.Ctx, p ast.Path) {
	kv := []string{}
	for _, e := range p {
		switch t := e.(type) {
		case ast.PathName:
			kv = append(kv, "n:"+string(t))
		case ast.PathIndex:
			kv = append(kv, fmt.Sprintf("i:%d", int(t)))
		}
	}
	x.DoLite("path", "elements", strings.Join(kv, "\x1f"), func() {
		c20PathCheck(x, p)
		if len(p) <= 3 {
			c20Constructors(x, p)
		}
	})
}

func c20PathCheck(x *core.Ctx, p ast.Path) {
	b, err := json.Marshal(p)
	if err != nil {
		x.Violate("path-roundtrip(encode-error)", err.Error(), "paths encode")
		return
	}
	var back ast.Path
	if err := json.Unmarshal(b, &back); err != nil {
		x.Violate("path-roundtrip(decode-error)", string(b)+": "+err.Error(), "encoded paths decode")
		return
	}
	x.Count("paths_roundtripped")
	if len(p) >= 2 {
		x.Nontrivial()
	}
	if !pathEqual(p, back) {
		kind := "name"
		for i := range p {
			if i < len(back) && !reflect.DeepEqual(p[i], back[i]) {
				if _, isIdx := p[i].(ast.PathIndex); isIdx {
					kind = "index"
				} else if s, _ := p[i].(ast.PathName); s == "" || (s[0] >= '0' && s[0] <= '9') {
					kind = "numeric-or-empty-name"
				}
				break
			}
		}
		x.Violate("path-roundtrip("+kind+")", fmt.Sprintf("%s -> %#v", string(b), back), fmt.Sprintf("%#v", p))
		return
	}
	// decoding into a path value that already holds elements (and spare capacity) gives the decoded path, nothing more
	reused := append(make(ast.Path, 0, 16), ast.PathName("old"), ast.PathIndex(9), ast.PathName("older"), ast.PathIndex(8), ast.PathName("oldest"), ast.PathIndex(7), ast.PathName("x"))
	if err := json.Unmarshal(b, &reused); err != nil {
		x.Violate("path-roundtrip(decode-error:reused-value)", string(b)+": "+err.Error(), "encoded paths decode")
		return
	}
	if !pathEqual(p, reused) {
		x.Violate("path-roundtrip(reused-value)", fmt.Sprintf("%s -> %#v", string(b), reused), fmt.Sprintf("%#v", p))
		return
	}
	// the generic shape of the encoding: only strings and integers
	var generic []interface{}
	if len(p) > 0 {
		if err := json.Unmarshal(b, &generic); err != nil || len(generic) != len(p) {
			x.Violate("json-shape(path)", string(b), "an array of names and indices")
			return
		}
		for i, g := range generic {
			switch t := g.(type) {
			case string:
				if _, ok := p[i].(ast.PathName); !ok {
					x.Violate("json-shape(path)", string(b), "an index encodes as a number")
				}
			case float64:
				if _, ok := p[i].(ast.PathIndex); !ok || t != math.Trunc(t) {
					x.Violate("json-shape(path)", string(b), "a name encodes as a string")
				}
			default:
				x.Violate("json-shape(path)", string(b), "strings and integers only")
			}
		}
	}
}

// c20Constructors: the exported constructors and wrappers the library builds its errors with (and that servers use for their
// own), driven with the enumerated path: what goes in comes out (message, path, location, file, wrapped error), the
// result satisfies c20Error's obligations, and lists answer errors.Is/As for their members.
func c20Constructors(x *core.Ctx, p ast.Path) {
	h := core.HashString(fmt.Sprint(p))
	line, col := 1+int(h%97), 1+int((h>>8)%53)
	file := []string{"", "a.graphql", "dir/b c.graphql", "ünï.graphql"}[(h>>16)%4]
	msg := []string{"plain message", "with %d percent", "quote \" and newline\n", "ünïcode"}[(h>>20)%4]
	base := errors.New(msg)
	check := func(name string, ge *gqlerror.Error, wantMsg string, wantPath ast.Path, wantLoc bool, wantFile string, wraps error) {
		x.Count("constructed_errors")
		if ge == nil {
			x.Violate("constructor("+name+"):nil", "nil", "an error")
			return
		}
		if ge.Message != wantMsg {
			x.Violate("constructor("+name+"):message", ge.Message, wantMsg)
		}
		if !pathEqual(ge.Path, wantPath) {
			x.Violate("constructor("+name+"):path", fmt.Sprint(ge.Path), fmt.Sprint(wantPath))
		}
		if wantLoc && (len(ge.Locations) != 1 || ge.Locations[0].Line != line || ge.Locations[0].Column != col) {
			x.Violate("constructor("+name+"):location", fmt.Sprint(ge.Locations), fmt.Sprintf("[{%d %d}]", line, col))
		}
		if gotFile, _ := ge.Extensions["file"].(string); gotFile != wantFile {
			x.Violate("constructor("+name+"):file", gotFile, wantFile)
		}
		if wraps != nil && (errors.Unwrap(ge) != wraps || !errors.Is(ge, wraps)) {
			x.Violate("constructor("+name+"):unwrap", fmt.Sprint(errors.Unwrap(ge)), "the wrapped error")
		}
		if !strings.Contains(ge.Error(), wantMsg) {
			x.Violate("constructor("+name+"):error-text", ge.Error(), "contains the message")
		}
		var names []string
		if wantFile != "" {
			names = []string{wantFile}
		}
		c20Error(x, "constructor("+name+")", ge, names, false)
	}
	check("ErrorPathf", gqlerror.ErrorPathf(p, "%s", msg), msg, p, false, "", nil)
	check("Errorf", gqlerror.Errorf("%s", msg), msg, nil, false, "", nil)
	check("ErrorLocf", gqlerror.ErrorLocf(file, line, col, "%s", msg), msg, nil, true, file, nil)
	check("ErrorPosf", gqlerror.ErrorPosf(&ast.Position{Line: line, Column: col, Src: &ast.Source{Name: file}}, "%s", msg), msg, nil, true, file, nil)
	check("WrapPath", gqlerror.WrapPath(p, base), msg, p, false, "", base)
	check("Wrap", gqlerror.Wrap(base), msg, nil, false, "", base)
	check("WrapIfUnwrapped", gqlerror.WrapIfUnwrapped(base), msg, nil, false, "", base)
	located := gqlerror.ErrorLocf(file, line, col, "%s", msg)
	if again := gqlerror.WrapIfUnwrapped(located); again != located {
		x.Violate("constructor(WrapIfUnwrapped):rewraps", fmt.Sprintf("%p", again), "the same *Error")
	}
	if gqlerror.Wrap(nil) != nil || gqlerror.WrapPath(p, nil) != nil || gqlerror.WrapIfUnwrapped(nil) != nil {
		x.Violate("constructor(Wrap):nil-error", "an error for a nil error", "nil")
	}
	setf := gqlerror.Errorf("%s", msg)
	setf.SetFile(file)
	if got, _ := setf.Extensions["file"].(string); got != file {
		x.Violate("constructor(SetFile):file", got, file)
	}
	// lists
	other := errors.New("not a member")
	list := gqlerror.List{gqlerror.ErrorPathf(p, "first"), gqlerror.WrapPath(p, base), located}
	var asTarget *gqlerror.Error
	switch {
	case !errors.Is(list, base) || errors.Is(list, other):
		x.Violate("list:Is", fmt.Sprintf("Is(member)=%v Is(other)=%v", errors.Is(list, base), errors.Is(list, other)), "true, false")
	case !errors.As(list, &asTarget) || asTarget != list[0]:
		x.Violate("list:As", fmt.Sprint(asTarget), "the first member")
	case len(list.Unwrap()) != len(list):
		x.Violate("list:Unwrap", fmt.Sprint(len(list.Unwrap())), fmt.Sprint(len(list)))
	case list.Error() != list[0].Error()+"\n"+list[1].Error()+"\n"+list[2].Error()+"\n":
		x.Violate("list:Error", list.Error(), "one line per member")
	}
	if (gqlerror.List{}).Is(base) || (*gqlerror.Error)(nil).AsError() != nil || located.AsError() != error(located) {
		x.Violate("list:empty-or-AsError", "empty list matches, or AsError changes the error", "no match; nil stays nil")
	}
	c20List(x, "constructed-list", list)
}

// c20Seen: the error objects already marked by c20Error (the same object may be checked twice, e.g. alone and in its list).
var c20Seen = map[*gqlerror.Error]bool{}

// c20Error checks one error object from an entry point. srcNames: the named sources the input came from.
func c20Error(x *core.Ctx, entry string, err error, srcNames []string, isValidation bool) {
	if err == nil {
		return
	}
	x.Count("errors:" + entry)
	x.Nontrivial()
	if rv := reflect.ValueOf(err); rv.Kind() == reflect.Ptr && rv.IsNil() {
		// an error interface that holds a nil pointer: `err != nil` is true for the caller, and there is nothing in it
		x.Violate(entry+":nil-pointer-in-error", fmt.Sprintf("a non-nil error holding (%T)(nil)", err), "nil, or an error with a message")
		return
	}
	msg := err.Error()
	if strings.TrimSpace(msg) == "" {
		x.Violate(entry+":empty-message", fmt.Sprintf("%#v", err), "a non-empty message")
		return
	}
	ge, ok := err.(*gqlerror.Error)
	if !ok {
		x.Distinct("entry-template", entry+"|plain:"+firstWords(templateOf(msg), 4))
		named := len(srcNames) > 0
		for _, n := range srcNames {
			named = named && n != ""
		}
		if named {
			// an error that is not a *gqlerror.Error cannot say which file it is about: from named sources that is a defect
			// of the error, whatever its message
			x.Violate(entry+":plain-error-from-named-source("+firstWords(templateOf(msg), 4)+")", fmt.Sprintf("%T: %s", err, msg), "an error that names "+strings.Join(srcNames, " or "))
		}
		return
	}
	// every error object is its own: what a server wrote into the extensions of an earlier error (an error code, a request
	// id) must not show up here; the mark is left on every error this monitor has seen
	if _, marked := ge.Extensions["verif-mark"]; marked && !c20Seen[ge] {
		x.Violate(entry+":shares-extensions-with-an-earlier-error", fmt.Sprintf("%v", ge.Extensions), "its own extensions")
	}
	if ge.Extensions != nil {
		ge.Extensions["verif-mark"] = entry
		c20Seen[ge] = true
	}
	tmpl := firstWords(templateOf(ge.Message), 6)
	x.Distinct("entry-template", entry+"|"+tmpl)
	if strings.TrimSpace(ge.Message) == "" {
		x.Violate(entry+":empty-message("+ge.Rule+")", fmt.Sprintf("%#v", ge), "a non-empty message")
	}
	if isValidation {
		if ge.Rule == "" {
			x.Violate(entry+":no-rule", ge.Message, "the name of the rule")
		}
		if len(ge.Locations) == 0 {
			x.Violate(entry+":no-location("+ge.Rule+")", ge.Message, "at least one location")
		}
	}
	if len(ge.Locations) > 0 && len(srcNames) > 0 {
		file, _ := ge.Extensions["file"].(string)
		found := false
		for _, n := range srcNames {
			if n == file {
				found = true
			}
		}
		if !found {
			x.Violate(entry+":no-file", fmt.Sprintf("file %q in %s", file, ge.Message), "one of "+strings.Join(srcNames, ","))
		}
	}
	// JSON shape
	b, jerr := json.Marshal(ge)
	if jerr != nil {
		x.Violate(entry+":json-encode", jerr.Error(), "errors encode")
		return
	}
	c20JSONShape(x, entry, b)
	if len(ge.Path) > 0 {
		var back gqlerror.Error
		if uerr := json.Unmarshal(b, &back); uerr != nil {
			x.Violate(entry+":json-decode", uerr.Error(), "encoded errors decode")
		} else if !pathEqual(ge.Path, back.Path) {
			x.Violate(entry+":path-roundtrip", fmt.Sprintf("%v -> %v", ge.Path, back.Path), "the same path")
		} else {
			x.Count("error_paths_roundtripped")
		}
	}
}

func c20JSONShape(x *core.Ctx, entry string, b []byte) {
	var g map[string]interface{}
	if err := json.Unmarshal(b, &g); err != nil {
		x.Violate(entry+":json-shape(object)", string(b), "a JSON object")
		return
	}
	if m, ok := g["message"].(string); !ok || strings.TrimSpace(m) == "" {
		x.Violate(entry+":json-shape(message)", string(b), "a non-empty message string")
	}
	if locs, has := g["locations"]; has {
		arr, ok := locs.([]interface{})
		if !ok {
			x.Violate(entry+":json-shape(locations)", string(b), "an array")
		}
		for _, l := range arr {
			lo, ok := l.(map[string]interface{})
			line, lok := lo["line"].(float64)
			col, cok := lo["column"].(float64)
			if !ok || !lok || !cok || line < 1 || col < 1 || line != math.Trunc(line) || col != math.Trunc(col) {
				x.Violate(entry+":json-shape(location)", string(b), "locations with positive integer line and column")
				break
			}
		}
	}
	if p, has := g["path"]; has {
		arr, ok := p.([]interface{})
		if !ok {
			x.Violate(entry+":json-shape(path)", string(b), "an array")
		}
		for _, e := range arr {
			switch t := e.(type) {
			case string:
			case float64:
				if t != math.Trunc(t) {
					x.Violate(entry+":json-shape(path)", string(b), "integer indices")
				}
			default:
				x.Violate(entry+":json-shape(path)", string(b), "names and indices only")
			}
		}
	}
	if e, has := g["extensions"]; has {
		if _, ok := e.(map[string]interface{}); !ok {
			x.Violate(entry+":json-shape(extensions)", string(b), "an object")
		}
	}
}

func c20Check(x *core.Ctx, c *core.Case) {
	switch c.Kind {
	case "path":
		var p ast.Path
		if c.Get("elements") != "" {
			for _, e := range strings.Split(c.Get("elements"), "\x1f") {
				if strings.HasPrefix(e, "n:") {
					p = append(p, ast.PathName(e[2:]))
				} else {
					var n int
					fmt.Sscanf(e, "i:%d", &n)
					p = append(p, ast.PathIndex(n))
				}
			}
		}
		c20PathCheck(x, p)
		if len(p) <= 3 {
			c20Constructors(x, p)
		}
	case "parse":
		src := &ast.Source{Name: c20Name(c.Get("src")) + "-" + c.Get("grammar"), Input: c20MaybeBOM(c.Get("src"))}
		names := []string{src.Name}
		// the lexer alone
		lx := lexer.New(src)
		for i := 0; i < len(src.Input)+2; i++ {
			t, err := lx.ReadToken()
			if err != nil {
				c20Error(x, "lexer", err, names, false)
				break
			}
			if t.Kind == lexer.EOF {
				break
			}
		}
		if c.Get("grammar") == "query" {
			_, err := parser.ParseQuery(src)
			c20Error(x, "parse-query", err, names, false)
			for _, lim := range []int{3, 1, -1} {
				_, err = parser.ParseQueryWithTokenLimit(src, lim)
				if err != nil && strings.Contains(err.Error(), "exceeded token limit") {
					c20Error(x, "limit", err, names, false) // a plain error today; if it ever carries a location, the location obliges
				} else {
					c20Error(x, "parse-query", err, names, false)
				}
			}
			// the convenience entry point (unnamed source)
			if _, errs := gqlparser.LoadQuery(c20TinySchema(), c.Get("src")); len(errs) > 0 {
				for _, e := range errs {
					c20Error(x, "load-query", e, nil, e.Rule != "")
				}
				c20List(x, "load-query", errs)
			}
		} else {
			_, err := parser.ParseSchema(src)
			c20Error(x, "parse-schema", err, names, false)
			for _, lim := range []int{3, 1, -1} {
				_, err = parser.ParseSchemaWithLimit(src, lim)
				if err != nil && strings.Contains(err.Error(), "exceeded token limit") {
					c20Error(x, "limit", err, names, false)
				} else {
					c20Error(x, "parse-schema", err, names, false)
				}
			}
			_, err = gqlparser.LoadSchema(src)
			c20Error(x, "load", err, []string{src.Name, "prelude.graphql"}, false)
		}
	case "load":
		var n int
		fmt.Sscan(c.Get("n"), &n)
		var srcs []*ast.Source
		names := []string{}
		for j := 0; j < n; j++ {
			s := &ast.Source{Name: fmt.Sprintf("%s.part%d", c20Name(c.Get("src0")), j), Input: c20MaybeBOM(c.Get(fmt.Sprintf("src%d", j))), BuiltIn: (len(c.Get("src0"))+j)%3 == 0}
			srcs = append(srcs, s)
			names = append(names, s.Name)
		}
		_, err := gqlparser.LoadSchema(srcs...)
		if err != nil {
			if ge, ok := err.(*gqlerror.Error); ok && len(ge.Locations) == 0 {
				x.Violate("load:no-location", ge.Message, "a location")
			}
		}
		c20Error(x, "load", err, names, false)
	case "validate":
		schema, err := gqlparser.LoadSchema(&ast.Source{Name: "schema.graphql", Input: c.Get("schema")})
		if err != nil {
			return
		}
		reqName, dsrc := c20Name(c.Get("doc")), c20MaybeBOM(c.Get("doc"))
		doc, perr := parser.ParseQuery(&ast.Source{Name: reqName, Input: dsrc})
		if perr != nil {
			c20Error(x, "parse-query", perr, []string{reqName}, false)
			return
		}
		errs := validator.Validate(schema, doc)
		for _, e := range errs {
			c20Error(x, "validate", e, []string{reqName}, true)
		}
		c20List(x, "validate", errs)
		// a document with very many errors: whatever the library does about the volume, each object it returns is an error
		// like any other
		if core.HashString(c.Get("doc"))%16 == 0 {
			var b strings.Builder
			b.WriteString("query Many { ")
			for i := 0; i < 260; i++ {
				fmt.Fprintf(&b, "unknown%d ", i)
			}
			b.WriteString("}")
			if md, perr := parser.ParseQuery(&ast.Source{Name: reqName, Input: b.String()}); perr == nil {
				many := validator.Validate(schema, md)
				x.Count("many_error_documents")
				x.Max("errors_in_one_list", int64(len(many)))
				for _, e := range many {
					c20Error(x, "validate-many", e, []string{reqName}, true)
				}
				c20List(x, "validate-many", many)
			}
		}
		// the exported rule variants without suggestions, passed explicitly: same obligations
		if len(errs) > 0 {
			var variants []validator.Rule
			for _, std := range []string{"FieldsOnCorrectType", "KnownArgumentNames", "KnownTypeNames", "ValuesOfCorrectType"} {
				variants = append(variants, c18Variants[std])
			}
			doc3, _ := parser.ParseQuery(&ast.Source{Name: reqName, Input: dsrc})
			errs3 := validator.Validate(schema, doc3, variants...)
			x.Count("variant_rule_validations")
			for _, e := range errs3 {
				c20Error(x, "validate-without-suggestions", e, []string{reqName}, true)
			}
			c20List(x, "validate-without-suggestions", errs3)
		}
		// the same after a registered rule was replaced (by itself) in the global rule set: errors must still name their rule
		if len(errs) > 0 {
			ri := int(core.HashString(c.Get("doc")) % uint64(len(c18Standard)))
			rule := c18Standard[ri]
			validator.ReplaceRule(rule.Name, rule.RuleFunc)
			doc2, _ := parser.ParseQuery(&ast.Source{Name: reqName, Input: dsrc})
			errs2 := validator.Validate(schema, doc2)
			x.Count("replace_rule_sequences")
			for _, e := range errs2 {
				c20Error(x, "validate-after-ReplaceRule", e, []string{reqName}, true)
			}
			if serializeErrs(errs2) != serializeErrs(errs) {
				x.Violate("validate-after-ReplaceRule:differs", serializeErrs(errs2), serializeErrs(errs))
			}
			// a rule is removed and the name of one registered after it is registered once more with a function of the
			// caller's: what that function reports carries that name, what the others report carries theirs
			if ri+1 < len(c18Standard) {
				later := c18Standard[ri+1+int(core.HashString(dsrc)%uint64(len(c18Standard)-ri-1))]
				validator.RemoveRule(rule.Name)
				validator.AddRule(later.Name, func(o *validator.Events, addError validator.AddErrFunc) {
					o.OnOperation(func(w *validator.Walker, op *ast.OperationDefinition) {
						addError(validator.Message("reported by the caller's rule"), validator.At(op.Position))
					})
				})
				doc4, _ := parser.ParseQuery(&ast.Source{Name: reqName, Input: dsrc})
				errs4 := validator.Validate(schema, doc4)
				for _, r := range c18Standard {
					validator.RemoveRule(r.Name)
				}
				for _, r := range c18Standard {
					validator.AddRule(r.Name, r.RuleFunc)
				}
				x.Count("add_rule_sequences")
				byRule := map[string]string{}
				for _, e := range errs {
					byRule[e.Message+locStr(e)] = e.Rule
				}
				for _, e := range errs4 {
					c20Error(x, "validate-after-AddRule", e, []string{reqName}, true)
					if e.Message == "reported by the caller's rule" {
						if e.Rule != later.Name {
							x.Violate("validate-after-AddRule:wrong-rule-name", e.Rule, later.Name)
						}
					} else if was, ok := byRule[e.Message+locStr(e)]; ok && was != e.Rule {
						x.Violate("validate-after-AddRule:wrong-rule-name", e.Rule, was)
					}
				}
			}
		}
	case "variables":
		schema, err := gqlparser.LoadSchema(&ast.Source{Name: "c14.graphql", Input: c14Schema})
		if err != nil {
			return
		}
		doc, perr := parser.ParseQuery(&ast.Source{Name: "op.graphql", Input: "query Q($v: " + c.Get("type") + ") { f(any: {k: $v}) }"})
		if perr != nil {
			return
		}
		if errs := validator.Validate(schema, doc); len(errs) > 0 {
			return
		}
		var raw interface{}
		json.Unmarshal([]byte(c.Get("value")), &raw) //nolint
		_, verr := validator.VariableValues(schema, doc.Operations[0], map[string]interface{}{"v": decodeTyped(raw)})
		if verr != nil {
			ge, ok := verr.(*gqlerror.Error)
			if ok && ge != nil && len(ge.Path) == 0 {
				x.Violate("variables:no-path", ge.Message, "the path of the offending value")
			}
		}
		c20Error(x, "variables", verr, nil, false)
	}
}

func c20List(x *core.Ctx, entry string, errs gqlerror.List) {
	if len(errs) == 0 {
		return
	}
	b, err := json.Marshal(errs)
	if err != nil {
		x.Violate(entry+":json-encode(list)", err.Error(), "error lists encode")
		return
	}
	var arr []json.RawMessage
	if err := json.Unmarshal(b, &arr); err != nil || len(arr) != len(errs) {
		x.Violate(entry+":json-shape(list)", string(b[:min(len(b), 300)]), "an array with one object per error")
		return
	}
	for _, e := range arr {
		c20JSONShape(x, entry, e)
	}
	if x.WantSample() && len(b) < 700 {
		x.Sample(map[string]interface{}{"entry": entry, "errors_json": string(b), "verdict": "message, locations and path have the response-format shape"})
	}
}

var c20Tiny *ast.Schema

func c20TinySchema() *ast.Schema {
	if c20Tiny == nil {
		c20Tiny, _ = gqlparser.LoadSchema(&ast.Source{Name: "tiny.graphql", Input: "type Query { a: Int b(x: Int): String }"})
	}
	return c20Tiny
}

// c20Name picks the name of a source from the text it holds: plain names and names that a path cleaner, a URL parser or an
// encoder might want to "tidy" - the error must carry the name as given.
func c20Name(text string) string {
	names := []string{"request.graphql", "input", "./ops//q.graphql", "a/../q.graphql", "dir/", "http://host//x.graphql?y=1#z", "ünï code.graphql", "C:\\x\\y.graphql", " lead.graphql ", "q\"uote.graphql"}
	return names[core.HashString(text)%uint64(len(names))]
}

// c20MaybeBOM puts a byte order mark in front of one text in five (it is ignored by the lexer; the source keeps its name).
func c20MaybeBOM(text string) string {
	if core.HashString(text)%5 == 0 && !strings.HasPrefix(text, "\uFEFF") {
		return "\uFEFF" + text
	}
	return text
}
