package mon

import (
	"fmt"
	"runtime/debug"
	"strings"
	"unicode/utf8"

	"github.com/vektah/gqlparser/v2/ast"
	"github.com/vektah/gqlparser/v2/gqlerror"
	"github.com/vektah/gqlparser/v2/parser"
	"github.com/vektah/gqlparser/v2/verifhook"

	"verif/harness/internal/core"
	"verif/harness/internal/gen"
	"verif/harness/internal/model"
	"verif/harness/internal/ref"
)

// C01 — lexing and parsing are total.
func init() {
	core.Register(&core.Monitor{
		ID: "C01",
		Rule: "each input is lexed to the end and parsed with both grammars (unlimited and under token limits) inside the crash monitor (panic → violation, fatal exit → violation via journal, watchdog → hang rule); " +
			"oracles: lexer progress (every ReadToken advances, extents within the input, reads ≤ characters+1), parser work from hook counters (peek+next ≤ 64·(bytes+1), lexer reads ≤ 2·(bytes+2)), result shape (document xor error), " +
			"syntax-error location inside the input (independent line index). Inputs: all 1- and 2-byte strings, all strings ≤3 (quick) / ≤4 (thorough) over a 40-byte hostile alphabet, every prefix / single-byte deletion / substitution of a corpus of rendered documents, long tokens (1-300 characters: names, ASCII / CJK / accented / emoji strings, block strings, numbers, comments) in 21 contexts where the grammars do not expect them, " +
			"random token and byte soups to 64 KiB, nesting bombs 1 Ki–64 Ki unlimited and 256 KiB–8 MiB under limits. distinct_nontrivial counts distinct inputs (by construction) that produced at least one token or an error",
		Assumptions: []string{
			"\"polynomial time\" is decided on deterministic hook step counts (linear budget with a fixed constant), not on wall-clock time",
			"the token-limit error is a plain error without location and is exempt from the location clause",
			"unlimited parsing is explored to 64 KiB inputs; limits to 100 000; sizes to 8 MiB (as the property's quantifier states)",
		},
		Shards:         func(tier string) int { return 32 },
		Run:            c01Run,
		Check:          c01Check,
		MinEvaluations: func(tier string) int64 { return 100000 },
		RequiredCounts: []string{"parse_query_ok", "parse_query_err", "parse_schema_ok", "parse_schema_err", "limit_errors", "bombs"},
		MaxStackMB:     512,
	})
}

var c01Alphabet = []string{
	"{", "}", "(", ")", "[", "]", ":", "=", "!", "$", "@", "|", "&", ".", `"`, `\`, "u", "a", "0", "1", "e", "-", "#", " ", "\n", "\r", ",",
	"\xEF", "\xBB", "\xBF", "\xC3", "\xA9", "\x80", "\xFF", "\x00", "\x07", "\x7F", "F", "n", "t",
}

func c01Run(x *core.Ctx) {
	quick := x.Quick()
	// 1. all 1- and 2-byte strings
	for i := x.Shard; i < 256+65536; i += x.NShards {
		var s string
		if i < 256 {
			s = string([]byte{byte(i)})
		} else {
			j := i - 256
			s = string([]byte{byte(j >> 8), byte(j)})
		}
		x.DoLite("src", "src", s, func() { c01Input(x, s, false) })
	}
	// 2. exhaustive over the hostile alphabet
	maxLen := 3
	if !quick {
		maxLen = 4
	}
	for l := 3; l <= maxLen; l++ {
		enumerate(c01Alphabet, l, x.Shard, x.NShards, func(s string) {
			x.DoLite("src", "src", s, func() { c01Input(x, s, false) })
		})
	}
	// 2b. long tokens where the grammars do not expect them: the error message has to quote (or shorten) the token, and
	// byte counts and character counts differ for non-ASCII values
	if x.Shard == x.NShards-1 {
		var toks []string
		for _, n := range []int{1, 15, 16, 17, 23, 24, 25, 47, 48, 49, 50, 100, 300} {
			toks = append(toks,
				strings.Repeat("n", n), `"`+strings.Repeat("a", n)+`"`, `"`+strings.Repeat("日", n)+`"`, `"`+strings.Repeat("é", n)+`"`, `"`+strings.Repeat("\U0001F600", n)+`"`,
				`"""`+strings.Repeat("本", n)+`"""`, `"""`+strings.Repeat("x", n)+"\n"+strings.Repeat("é", n)+`"""`, strings.Repeat("7", n), "1."+strings.Repeat("5", n), "#"+strings.Repeat("日", n)+"\n"+strings.Repeat("n", n))
		}
		for _, ctx := range []string{"", "{ ", "{ a ", "{ a: ", "query ", "query Q(", "fragment ", "fragment F on ", "extend ", "type T ", "type T { a: ", "type T { a(", "{ a(b: 1) { ", "{ a @", "{ ...", "schema { ", "schema { query: ", "directive @d on ", "union U = ", "enum E { ", "input I { a: Int = "} {
			for _, t := range toks {
				for _, tail := range []string{"", " }", " extend type T @d"} {
					s := ctx + t + tail
					x.DoLite("src", "src", s, func() { c01Input(x, s, false) })
				}
			}
		}
	}
	// 3. corpus derivatives
	r := x.Rand(uint64(x.Shard))
	corpus := c01Corpus(x, r, quick)
	for ci, doc := range corpus {
		if ci%x.NShards != x.Shard {
			continue
		}
		x.DoLite("src", "src", doc, func() { c01Input(x, doc, true) })
		step := 1
		if quick && len(doc) > 150 {
			step = len(doc) / 150
		}
		for p := 0; p < len(doc); p += step {
			pre := doc[:p]
			x.DoLite("src", "src", pre, func() { c01Input(x, pre, false) })
			del := doc[:p] + doc[p+1:]
			x.DoLite("src", "src", del, func() { c01Input(x, del, false) })
			nsub := 2
			if !quick {
				nsub = 8
			}
			for k := 0; k < nsub; k++ {
				sub := doc[:p] + c01Alphabet[r.Intn(len(c01Alphabet))] + doc[p+1:]
				x.DoLite("src", "src", sub, func() { c01Input(x, sub, false) })
			}
		}
	}
	// 4. random soups
	nSoup := 3000
	if !quick {
		nSoup = 60000
	}
	for i := 0; i < nSoup/x.NShards; i++ {
		var s string
		switch i % 3 {
		case 0:
			s = randomLexSoup(r, soupPieces, 10+r.Intn(400))
		case 1:
			s = randomLexSoup(r, validPieces, 10+r.Intn(400))
		default:
			n := 1 + r.Intn(300)
			b := make([]byte, n)
			for j := range b {
				if r.Chance(1, 4) {
					b[j] = byte(r.Intn(256))
				} else {
					b[j] = c01Alphabet[r.Intn(len(c01Alphabet))][0]
				}
			}
			s = string(b)
		}
		if i%50 == 0 {
			// long ones up to 64 KiB
			s = strings.Repeat(s, 1+(60000/(len(s)+1)))
			if len(s) > 65536 {
				s = s[:65536]
			}
		}
		x.DoLite("src", "src", s, func() { c01Input(x, s, false) })
		if i%10 == 7 && len(s) < 4000 {
			// several texts in one call, most of them broken, some of them twice (after seeded change C01-wave10-C: the
			// sources parsed side by side, and a second failure never delivered)
			k := 2 + r.Intn(3)
			kv := []string{"n", fmt.Sprint(k), "src0", s}
			for j := 1; j < k; j++ {
				t := s
				switch r.Intn(4) {
				case 0:
					t = randomLexSoup(r, soupPieces, 5+r.Intn(60))
				case 1:
					t = randomLexSoup(r, validPieces, 5+r.Intn(60))
				case 2:
					t = r.Pick("type T { a: Int }", "", "}", "\"", "extend", "type T { a: Int } type T { a: Int }", "\ufeff", "scalar S @a(")
				}
				kv = append(kv, fmt.Sprintf("src%d", j), t)
			}
			mc := core.NewCase("multi", kv...)
			x.Do(mc, func() { c01Check(x, mc) })
		}
	}
	// 5. nesting bombs
	bombs := []string{"[", "{", "(", "{a", "a:[", "a:{a:", "[[[", "@a(a:[", `"""`, "#", "...{", "{a(b:", "query(", "$a:[", "type A{a(", "a:[a]=[", "union U=|", "&", "extend ", "\"\" ",
		// runs of ignored characters (no token, no nesting: nothing in them may cost stack), after seeded change C01-wave10-A
		"\ufeff", ",", "\r", "\n\r", "\t ", ",\ufeff", "#\n", "#\r"}
	var sizes []int
	if quick {
		sizes = []int{1 << 10, 1 << 13}
	} else {
		sizes = []int{1 << 10, 1 << 12, 1 << 14, 1 << 16}
	}
	bi := 0
	for _, b := range bombs {
		for _, pre := range []string{"", "{a(a:", "query Q(", "type T{a(a:"} {
			for _, sz := range sizes {
				bi++
				if bi%x.NShards != x.Shard {
					continue
				}
				s := pre + strings.Repeat(b, sz/len(b))
				c := core.NewCase("bomb", "pre", pre, "unit", b, "size", fmt.Sprint(sz), "limit", "0")
				x.Do(c, func() { c01Bomb(x, s, 0) })
			}
		}
	}
	// large bombs under limits
	var bigSizes []int
	if quick {
		bigSizes = []int{256 << 10, 1 << 20}
	} else {
		bigSizes = []int{256 << 10, 1 << 20, 8 << 20}
	}
	for _, b := range bombs {
		for _, sz := range bigSizes {
			for _, lim := range []int{1, 2, 10, 1000, 15000, 100000, -1} { // a negative limit admits no token at all
				bi++
				if bi%x.NShards != x.Shard {
					continue
				}
				s := strings.Repeat(b, sz/len(b))
				c := core.NewCase("bomb", "pre", "", "unit", b, "size", fmt.Sprint(sz), "limit", fmt.Sprint(lim))
				x.Do(c, func() { c01Bomb(x, s, lim) })
			}
		}
	}
}

func c01Corpus(x *core.Ctx, r *core.Rand, quick bool) []string {
	n := 96
	if !quick {
		n = 320
	}
	cr := x.Rand(777) // same corpus in every shard
	var out []string
	for i := 0; i < n; i++ {
		rn := &model.Renderer{R: cr.Fork(uint64(i)), BlockValue: ref.BlockStringValue, Trivia: i % 3}
		if i%2 == 0 {
			d := gen.QueryDoc(cr, &gen.QOpts{MaxDepth: 2, Hostile: i%4 == 0, FragVars: true, VarDirs: true, KeywordNames: i%3 == 0, MaxDefs: 2})
			out = append(out, rn.RenderDoc(d))
		} else {
			out = append(out, gen.SchemaText(cr, rn, i))
		}
	}
	_ = r
	return out
}

func c01Check(x *core.Ctx, c *core.Case) {
	switch c.Kind {
	case "bomb":
		var sz, lim int
		fmt.Sscan(c.Get("size"), &sz)
		fmt.Sscan(c.Get("limit"), &lim)
		b := c.Get("unit")
		c01Bomb(x, c.Get("pre")+strings.Repeat(b, sz/len(b)), lim)
	case "multi":
		var n int
		fmt.Sscan(c.Get("n"), &n)
		x.Count("multi_source_calls")
		for _, lim := range []int{0, 3, 1 << 20} {
			var srcs []*ast.Source
			for j := 0; j < n; j++ {
				srcs = append(srcs, &ast.Source{Name: fmt.Sprintf("part%d.graphql", j), Input: c.Get(fmt.Sprintf("src%d", j)), BuiltIn: j == 2})
			}
			var d *ast.SchemaDocument
			var err error
			if lim == 0 {
				d, err = parser.ParseSchemas(srcs...)
			} else {
				d, err = parser.ParseSchemasWithLimit(lim, srcs...)
			}
			if (d == nil) == (err == nil) {
				x.Violate("result-shape:schemas", fmt.Sprintf("document nil: %v, error nil: %v", d == nil, err == nil), "a document or an error")
			}
			if err != nil {
				x.Count("multi_source_errors")
				if ge, ok := err.(*gqlerror.Error); ok && len(ge.Locations) > 0 {
					for j, sc := range srcs {
						if f, _ := ge.Extensions["file"].(string); f == sc.Name {
							checkErrLocation(x, "parse-schemas", ref.NewLineIndex(c.Get(fmt.Sprintf("src%d", j))), err)
						}
					}
				}
			}
		}
	default:
		c01Input(x, c.Get("src"), false)
	}
}

// stepBudgetPanic translates the hook's sentinel panic.
func stepBudgetPanic(v interface{}) (string, bool) {
	if b, ok := v.(verifhook.BudgetExceeded); ok {
		return fmt.Sprintf("steps:budget:site%d", b.Site), true
	}
	return "", false
}

func checkErrLocation(x *core.Ctx, entry string, li *ref.LineIndex, err error) {
	line, col, _, ok := errLocation(err)
	if !ok {
		if strings.HasPrefix(err.Error(), "exceeded token limit") {
			return
		}
		x.Violate("error-without-location:"+entry, err.Error(), "a syntax error names a line and column")
		return
	}
	if line < 1 || col < 1 {
		x.Violate("error-location:nonpositive:"+entry, fmt.Sprintf("line %d column %d: %s", line, col, err.Error()), "1-based line and column")
		return
	}
	if line > li.NLines() {
		x.Violate("error-location:line-beyond-input:"+entry, fmt.Sprintf("line %d of %d: %s", line, li.NLines(), err.Error()), "a line of the input")
		return
	}
	if _, ok := li.Offset(line, col); !ok {
		x.Violate("error-location:column-beyond-line:"+entry, fmt.Sprintf("line %d column %d: %s", line, col, err.Error()), "at most one past the end of the line")
	}
}

func c01Input(x *core.Ctx, src string, sample bool) {
	x.OnPanic = stepBudgetPanic
	li := ref.NewLineIndex(src)
	nch := li.NChars()
	// (1) lexer alone
	verifhook.Mode = verifhook.ModeOff
	il := runLexer("in.graphql", src)
	if il.Stuck || il.Overrun {
		x.Violate("lexer-progress", fmt.Sprintf("stuck=%v overrun=%v reads=%d chars=%d", il.Stuck, il.Overrun, il.Reads, nch), "every ReadToken advances; at most chars+1 reads")
	}
	for _, t := range il.Toks {
		if t.Pos.Start < 0 || t.Pos.End > nch || t.Pos.Start >= t.Pos.End {
			x.Violate("token-extent", describeImplTok(t), fmt.Sprintf("0 <= start < end <= %d", nch))
			break
		}
	}
	if il.Err != nil {
		checkErrLocation(x, "lexer", li, il.Err)
	}
	if len(il.Toks) > 0 || il.Err != nil {
		x.Nontrivial()
	}
	// (2) parsers under the step budget
	nb := int64(len(src))
	for _, g := range []string{"query", "schema"} {
		for _, lim := range []int{0, 1, 7} {
			verifhook.Reset()
			verifhook.Budget = 64*(nb+1) + 2*(nb+2) + 64
			verifhook.Mode = verifhook.ModeCount
			var err error
			var nilDoc bool
			source := &ast.Source{Name: "in.graphql", Input: src}
			switch {
			case g == "query" && lim == 0:
				d, e := parser.ParseQuery(source)
				err, nilDoc = e, d == nil
			case g == "query":
				d, e := parser.ParseQueryWithTokenLimit(source, lim)
				err, nilDoc = e, d == nil
			case lim == 0:
				d, e := parser.ParseSchema(source)
				err, nilDoc = e, d == nil
			default:
				d, e := parser.ParseSchemaWithLimit(source, lim)
				err, nilDoc = e, d == nil
			}
			verifhook.Mode = verifhook.ModeOff
			reads := verifhook.Counts[verifhook.SiteLexRead]
			x.Max("parser_steps_per_byte_x100", 100*verifhook.Total/(nb+1))
			if reads > 2*(nb+2) {
				x.Violate("steps:lexer-reads:"+g, fmt.Sprintf("%d reads for %d bytes", reads, nb), "at most 2*(bytes+2)")
			}
			if err == nil && nilDoc {
				x.Violate("result-shape:"+g, "nil document and nil error", "a document or an error")
			}
			if err != nil {
				if strings.HasPrefix(err.Error(), "exceeded token limit") {
					x.Count("limit_errors")
				} else {
					checkErrLocation(x, "parse-"+g, li, err)
				}
				if lim == 0 {
					x.Count("parse_" + g + "_err")
				}
			} else if lim == 0 {
				x.Count("parse_" + g + "_ok")
			}
		}
	}
	if sample && x.WantSample() && utf8.ValidString(src) && len(src) < 400 {
		x.Sample(map[string]interface{}{"input": src, "lexer_tokens": len(il.Toks), "lexer_error": fmt.Sprint(il.Err), "verdict": "returned normally from lexer, ParseQuery, ParseSchema and the limited entry points; step counts within budget"})
	}
}

func c01Bomb(x *core.Ctx, s string, lim int) {
	x.OnPanic = stepBudgetPanic
	x.Count("bombs")
	x.Nontrivial()
	nb := int64(len(s))
	if lim != 0 {
		// recursion must be bounded by the limit, not by the input: a small stack makes
		// unbounded recursion a fatal exit of this worker.
		debug.SetMaxStack(64 << 20)
		defer debug.SetMaxStack(512 << 20)
	}
	for _, g := range []string{"query", "schema"} {
		verifhook.Reset()
		verifhook.Budget = 64*(nb+1) + 2*(nb+2) + 64
		if lim > 0 {
			verifhook.Budget = 64*int64(lim+2) + 4096
		} else if lim < 0 {
			verifhook.Budget = 4096
		}
		verifhook.Mode = verifhook.ModeCount
		source := &ast.Source{Name: "bomb.graphql", Input: s}
		var err error
		var nilDoc bool
		if g == "query" {
			d, e := parser.ParseQueryWithTokenLimit(source, lim)
			err, nilDoc = e, d == nil
		} else {
			d, e := parser.ParseSchemaWithLimit(source, lim)
			err, nilDoc = e, d == nil
		}
		verifhook.Mode = verifhook.ModeOff
		x.Max("bomb_steps", verifhook.Total)
		if err == nil && nilDoc {
			x.Violate("result-shape:"+g, "nil document and nil error", "a document or an error")
		}
		if err != nil && strings.HasPrefix(err.Error(), "exceeded token limit") {
			x.Count("limit_errors")
		}
		if lim != 0 {
			// bytes scanned must be bounded by what the first lim+2 tokens need
			x.Max("bomb_limited_lexer_reads", verifhook.Counts[verifhook.SiteLexRead])
		}
	}
	if x.WantSample() {
		x.Sample(map[string]interface{}{"bomb_bytes": len(s), "prefix": s[:min(len(s), 40)], "limit": lim, "hook_steps": verifhook.Total, "verdict": "returned normally"})
	}
}
