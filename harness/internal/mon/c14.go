package mon

import (
	"encoding/json"
	"fmt"
	"math/big"
	"reflect"
	"strconv"
	"strings"

	gqlparser "github.com/vektah/gqlparser/v2"
	"github.com/vektah/gqlparser/v2/ast"
	"github.com/vektah/gqlparser/v2/parser"
	"github.com/vektah/gqlparser/v2/validator"

	"verif/harness/internal/core"
)

// C14 — variable coercion is total and its results conform to the declared types.
func init() {
	core.Register(&core.Monitor{
		ID: "C14",
		Rule: "variable types: every non-null pattern of list depth 0-3 over Int, Float, String, Boolean, ID, an enum, a recursive input object, a @oneOf input object and a custom scalar (270 types), with and without variable defaults; " +
			"values: type-directed conforming Go values (nil, bool, int, int32, int64, float64, json.Number, string, []interface{}, typed slices, map[string]interface{}, nested), the same with ONE injected defect at a random depth " +
			"(null at a non-null position, map/slice/bool/string of the wrong kind for a built-in scalar, unknown or missing required input field, non-map for an input object, undeclared enum value) and single values where lists are expected at each depth. " +
			"Oracle: VariableValues must return normally; when it returns values, an independent conformance predicate must hold for every declared variable (absent variables equal their defaults); when a clear defect was injected it must return an error. " +
			"distinct = (type pattern, value class, verdict) classes; non-trivial = calls with at least one supplied variable",
		Assumptions: []string{
			"leniencies the library documents or that the specification leaves to the server are accepted on output and not used as defects: float for Int, numeric strings for numbers, json.Number anywhere a number fits, case-variant enum names, a __typename key in input objects",
			"@oneOf cardinality is not part of this property's statement and is not judged here",
		},
		Shards:          func(tier string) int { return 16 },
		Run:             c14Run,
		Check:           c14Check,
		DistinctClasses: []string{"class"},
		MinEvaluations:  func(tier string) int64 { return 10000 },
		RequiredCounts:  []string{"keyword_text_defaults_applied", "empty_list_defaults_applied", "second_calls_after_caller_mutation", "returned_values", "returned_error", "defect_rejected", "coerced_single_value", "defaults_applied"},
	})
}

const c14Schema = `enum Color { RED GREEN BLUE }
enum Unit { kB MB Metre metre KB }
scalar Any
input Point { x: Int! y: Int = 0 tags: [String!] child: Point nested: [[Point!]] c: Color = RED any: Any req: [Int!]! = [1] }
input One @oneOf { a: Int b: String }
type Query { f(any: Any): Int g(p: Point, o: One, i: Int! = 1, l: [Int!]! = [1]): Int }`

// c14Primer is validated against every schema object before variables are coerced with it: it puts nullable variables with
// defaults at non-null positions that have defaults of their own (the one place where a rule relaxes a type), so a rule that
// relaxed the SCHEMA's type instead of its own copy would show in what coercion accepts afterwards.
const c14Primer = `query P($n: Int = 1, $m: Int = 2, $k: Int = 3, $s: [String!] = ["t"]) { g(p: {x: $n, req: [$k], tags: $s}, i: $m, l: [$k]) }`

var c14Bases = []string{"Int", "Float", "String", "Boolean", "ID", "Color", "Unit", "Point", "One", "Any"}

// c14Types enumerates base types under every non-null pattern of list depth 0..3.
func c14Types() []string {
	var out []string
	for _, b := range c14Bases {
		for depth := 0; depth <= 3; depth++ {
			for mask := 0; mask < 1<<(depth+1); mask++ {
				s := b
				if mask&1 == 1 {
					s += "!"
				}
				for d := 1; d <= depth; d++ {
					s = "[" + s + "]"
					if mask>>d&1 == 1 {
						s += "!"
					}
				}
				out = append(out, s)
			}
		}
	}
	return out
}

// ---------------------------------------------------------------- value generation (JSON-like Go values)

type c14Gen struct {
	r      *core.Rand
	schema *ast.Schema
	// defect to inject at the next opportunity (empty: none); cleared once applied
	defect  string
	applied string
	coerced bool
	depth   int
}

func (g *c14Gen) maybeDefect(kinds ...string) string {
	if g.defect == "" || g.applied != "" {
		return ""
	}
	for _, k := range kinds {
		if k == g.defect && g.r.Chance(1, 2) {
			return k
		}
	}
	return ""
}

// value generates a value for type t; with g.defect set it injects exactly one defect somewhere.
func (g *c14Gen) value(t *ast.Type, depth int) interface{} {
	r := g.r
	if t.NonNull {
		if g.maybeDefect("null-at-non-null") != "" {
			g.applied = "null-at-non-null"
			return nil
		}
	} else if r.Chance(1, 8) {
		return nil
	}
	if t.Elem != nil {
		if r.Chance(1, 6) && g.defect == "" {
			// a single value where a list is expected (coerced to a one-item list)
			if inner := g.value(t.Elem, depth); inner != nil {
				g.coerced = true
				return inner
			}
		}
		n := r.Intn(3)
		if depth <= 0 {
			n = r.Intn(2)
		}
		items := make([]interface{}, 0, n)
		for i := 0; i < n; i++ {
			items = append(items, g.value(t.Elem, depth-1))
		}
		// typed slices for leaf element types when every item fits
		if t.Elem.Elem == nil && len(items) > 0 && r.Chance(1, 4) {
			switch t.Elem.NamedType {
			case "String":
				ok := true
				ss := make([]string, 0, len(items))
				for _, it := range items {
					s, isS := it.(string)
					if !isS {
						ok = false
						break
					}
					ss = append(ss, s)
				}
				if ok {
					return ss
				}
			case "Int":
				ok := true
				ns := make([]int, 0, len(items))
				for _, it := range items {
					n, isN := it.(int)
					if !isN {
						ok = false
						break
					}
					ns = append(ns, n)
				}
				if ok {
					return ns
				}
			}
		}
		return items
	}
	def := g.schema.Types[t.NamedType]
	switch {
	case def.Kind == ast.Scalar:
		return g.scalar(t.NamedType)
	case def.Kind == ast.Enum:
		if g.maybeDefect("undeclared-enum") != "" {
			g.applied = "undeclared-enum"
			return r.Pick("PURPLE", "RDE", "")
		}
		if g.maybeDefect("wrong-kind") != "" {
			g.applied = "wrong-kind"
			return []interface{}{true, map[string]interface{}{"a": 1}, 1.5}[r.Intn(3)]
		}
		return def.EnumValues[r.Intn(len(def.EnumValues))].Name
	case def.Kind == ast.InputObject:
		if g.maybeDefect("non-map-for-object") != "" {
			g.applied = "non-map-for-object"
			return []interface{}{"x", 7, true, []interface{}{}}[r.Intn(4)]
		}
		out := map[string]interface{}{}
		if def.Name == "One" {
			if r.Bool() {
				out["a"] = g.scalar("Int")
			} else {
				out["b"] = g.scalar("String")
			}
		} else {
			for _, f := range def.Fields {
				required := f.Type.NonNull && f.DefaultValue == nil
				if required || (depth > 0 && r.Chance(1, 2)) {
					out[f.Name] = g.value(f.Type, depth-1)
				}
			}
		}
		if g.maybeDefect("unknown-field") != "" {
			g.applied = "unknown-field"
			if def.Name == "One" && r.Bool() {
				out = map[string]interface{}{} // the undeclared member as the ONLY member of a @oneOf input object
			}
			out[r.Pick("nope", "X", "xx", "__meta", "__", "__Typename", "__typenam", "_typename")] = 1
		}
		if g.maybeDefect("missing-required-field") != "" {
			if _, has := out["x"]; has {
				g.applied = "missing-required-field"
				delete(out, "x")
			}
		}
		return out
	}
	return nil
}

func (g *c14Gen) scalar(name string) interface{} {
	r := g.r
	if k := g.maybeDefect("wrong-kind"); k != "" && name != "Any" {
		g.applied = "wrong-kind"
		switch name {
		case "Int":
			// besides other kinds: strings and numbers-as-text that only a lenient parser (base prefixes, digit separators) takes for an integer
			return []interface{}{true, map[string]interface{}{}, []interface{}{}, "abc", "0x1F", "0b101", "0o17", "1_000", json.Number("0x10"), "1.5", " 7", json.Number("9223372036854775808"), json.Number("9.223372036854775808e18"), json.Number("-9223372036854775809")}[r.Intn(14)]
		case "Float":
			return []interface{}{true, map[string]interface{}{}, []interface{}{}, "abc", "1,5", "1.5.2", "--1", "null", " 1.5", "2.5 ", "1.5\n", "true", "[1]", "\"1\""}[r.Intn(14)]
		case "String":
			return []interface{}{1, 2.5, true, map[string]interface{}{}}[r.Intn(4)]
		case "Boolean":
			return []interface{}{"true", 1, 0.0, map[string]interface{}{}}[r.Intn(4)]
		case "ID":
			return []interface{}{true, map[string]interface{}{}, 1.5}[r.Intn(3)]
		}
	}
	switch name {
	case "Int":
		switch r.Intn(6) {
		case 0:
			return int32(7)
		case 1:
			return int64(-3)
		case 2:
			return float64(12)
		case 3:
			return json.Number("42")
		case 4:
			return r.Intn(100) - 50
		}
		return r.Pick("0", "15", "-3") // decimal text: judged by the predicate whichever way the library decides
	case "Float":
		switch r.Intn(5) {
		case 0:
			return 1.5
		case 1:
			return json.Number("2.25")
		case 2:
			return int64(3)
		case 3:
			return json.Number(r.Pick("1e3", "3", "-0", "7"))
		}
		return -0.5
	case "String":
		return r.Pick("", "a", "hello", "é", "RED")
	case "Boolean":
		return r.Bool()
	case "ID":
		switch r.Intn(4) {
		case 0:
			return 17
		case 1:
			return int64(5)
		case 2:
			return json.Number("9")
		}
		return r.Pick("id1", "", "42")
	}
	// custom scalar: anything
	return []interface{}{1, "x", true, map[string]interface{}{"k": []interface{}{1, nil}}, []interface{}{nil}, 1.5}[r.Intn(6)]
}

// ---------------------------------------------------------------- conformance predicate

type c14Verdict struct {
	ok      bool
	why     string
	lenient bool
}

func isNilValue(v interface{}) bool {
	if v == nil {
		return true
	}
	rv := reflect.ValueOf(v)
	switch rv.Kind() {
	case reflect.Ptr, reflect.Interface, reflect.Map, reflect.Slice:
		return rv.IsNil() && rv.Kind() != reflect.Slice && rv.Kind() != reflect.Map
	}
	return false
}

func numericString(s string, float bool) bool {
	if float {
		_, err := strconv.ParseFloat(s, 64)
		return err == nil
	}
	_, err := strconv.ParseInt(s, 10, 64)
	return err == nil
}

// conforms reports whether v is a value of type t (leniencies allowed, see Assumptions).
func conforms(s *ast.Schema, t *ast.Type, v interface{}, path string) (bool, string) {
	if isNilValue(v) {
		if t.NonNull {
			return false, path + ": null at non-null position of type " + t.String()
		}
		return true, ""
	}
	rv := reflect.ValueOf(v)
	if t.Elem != nil {
		if rv.Kind() != reflect.Slice && rv.Kind() != reflect.Array {
			return false, fmt.Sprintf("%s: %T where a list (%s) is expected", path, v, t.String())
		}
		for i := 0; i < rv.Len(); i++ {
			if ok, why := conforms(s, t.Elem, rv.Index(i).Interface(), fmt.Sprintf("%s[%d]", path, i)); !ok {
				return false, why
			}
		}
		return true, ""
	}
	def := s.Types[t.NamedType]
	if def == nil {
		return true, ""
	}
	kind := rv.Kind()
	isInt := kind == reflect.Int || kind == reflect.Int8 || kind == reflect.Int16 || kind == reflect.Int32 || kind == reflect.Int64 ||
		kind == reflect.Uint || kind == reflect.Uint8 || kind == reflect.Uint16 || kind == reflect.Uint32 || kind == reflect.Uint64
	isFloat := kind == reflect.Float32 || kind == reflect.Float64
	bad := func() (bool, string) {
		return false, fmt.Sprintf("%s: %T (%v) where %s is expected", path, v, v, t.String())
	}
	switch def.Kind {
	case ast.Scalar:
		switch def.Name {
		case "Int", "Float":
			if isInt || isFloat {
				return true, ""
			}
			if kind == reflect.String && numericString(rv.String(), true) {
				return true, ""
			}
			return bad()
		case "String":
			if kind == reflect.String {
				return true, ""
			}
			return bad()
		case "Boolean":
			if kind == reflect.Bool {
				return true, ""
			}
			return bad()
		case "ID":
			if kind == reflect.String || isInt {
				return true, ""
			}
			return bad()
		}
		return true, "" // custom scalar
	case ast.Enum:
		if kind != reflect.String {
			return bad()
		}
		for _, ev := range def.EnumValues {
			if strings.EqualFold(ev.Name, rv.String()) {
				return true, ""
			}
		}
		return false, fmt.Sprintf("%s: %q is not a value of enum %s", path, rv.String(), def.Name)
	case ast.InputObject:
		if kind != reflect.Map || rv.Type().Key().Kind() != reflect.String {
			return bad()
		}
		for _, k := range rv.MapKeys() {
			if k.String() == "__typename" {
				continue
			}
			if def.Fields.ForName(k.String()) == nil {
				return false, fmt.Sprintf("%s: undeclared field %q in %s", path, k.String(), def.Name)
			}
		}
		for _, f := range def.Fields {
			fv := rv.MapIndex(reflect.ValueOf(f.Name))
			if !fv.IsValid() {
				if f.Type.NonNull && f.DefaultValue == nil {
					return false, fmt.Sprintf("%s: required field %s.%s missing", path, def.Name, f.Name)
				}
				continue
			}
			if ok, why := conforms(s, f.Type, fv.Interface(), path+"."+f.Name); !ok {
				return false, why
			}
		}
		return true, ""
	}
	return true, ""
}

// ---------------------------------------------------------------- workload

var c14Defects = []string{"", "", "null-at-non-null", "wrong-kind", "unknown-field", "missing-required-field", "non-map-for-object", "undeclared-enum"}

func c14Run(x *core.Ctx) {
	schema, err := gqlparser.LoadSchema(&ast.Source{Name: "c14.graphql", Input: c14Schema})
	if err != nil {
		x.HarnessBug("c14 schema: " + err.Error())
		return
	}
	types := c14Types()
	per := 46 // x 270 types x 16 shards ≈ 200k calls
	if !x.Quick() {
		per = 1150
	}
	for _, v := range []string{"one-then-point", "point-then-one", "list-item-then-point", "point-then-nested-one"} {
		ac := core.NewCase("alias", "variant", v)
		x.Do(ac, func() { c14Check(x, ac) })
	}
	r := x.Rand(uint64(x.Shard))
	for _, ts := range types {
		for i := 0; i < per; i++ {
			g := &c14Gen{r: r, schema: schema, defect: c14Defects[r.Intn(len(c14Defects))]}
			t := mustType(ts)
			// every fifth call omits the variable, cycling through: no default, a default, a null default
			supplied := i%5 != 4
			defaultable := !strings.Contains(ts, "One")
			withDefault := defaultable && ((supplied && i%6 == 0) || (!supplied && (i/5)%3 != 0))
			c := core.NewCase("vars", "type", ts)
			if withDefault {
				c.Set("default", "1")
				if !supplied && (i/5)%3 == 2 && !strings.HasSuffix(ts, "!") {
					c.Set("default", "null")
				}
				if !supplied && (i/5)%6 == 1 && strings.Contains(ts, "[") {
					c.Set("default", "single") // a single value written where a list is declared
				}
				if b := strings.Trim(ts, "[]!"); !supplied && (i/5)%6 == 4 && b == "String" {
					c.Set("default", "keyword-text") // a string whose text is a keyword stays a string
				}
				if !supplied && (i/5)%6 == 5 && strings.HasPrefix(ts, "[") {
					c.Set("default", "empty") // an empty list literal: the value is an empty list, not null
				}
				if b := strings.Trim(ts, "[]!"); !supplied && (i/5)%6 == 4 && (b == "ID" || b == "Float") {
					c.Set("default", "huge") // an integer literal beyond 64 bits: judged only if validation accepts the operation
				}
			}
			if supplied {
				v := g.value(t, 2)
				b, jerr := json.Marshal(encodeTyped(v))
				if jerr != nil {
					x.HarnessBug("cannot encode generated value: " + jerr.Error())
					continue
				}
				c.Set("value", string(b))
				c.Set("defect", g.applied)
				if g.coerced {
					c.Set("coerced", "1")
				}
			}
			x.Do(c, func() { c14Check(x, c) })
		}
	}
}

func mustType(s string) *ast.Type {
	doc, err := parser.ParseQuery(&ast.Source{Input: "query($v: " + s + ") { a }"})
	if err != nil {
		panic(err)
	}
	return doc.Operations[0].VariableDefinitions[0].Type
}

// encodeTyped / decodeTyped keep Go types through JSON (replay files): {"$t": "int32", "v": ...}.
func encodeTyped(v interface{}) interface{} {
	switch t := v.(type) {
	case nil:
		return nil
	case bool, string:
		return t
	case int:
		return map[string]interface{}{"$t": "int", "v": t}
	case int32:
		return map[string]interface{}{"$t": "int32", "v": t}
	case int64:
		return map[string]interface{}{"$t": "int64", "v": t}
	case float64:
		return map[string]interface{}{"$t": "float64", "v": t}
	case json.Number:
		return map[string]interface{}{"$t": "json.Number", "v": string(t)}
	case []string:
		return map[string]interface{}{"$t": "[]string", "v": t}
	case []int:
		return map[string]interface{}{"$t": "[]int", "v": t}
	case []interface{}:
		out := make([]interface{}, len(t))
		for i := range t {
			out[i] = encodeTyped(t[i])
		}
		return out
	case map[string]interface{}:
		out := map[string]interface{}{}
		for k, e := range t {
			out[k] = encodeTyped(e)
		}
		return map[string]interface{}{"$t": "map", "v": out}
	}
	return fmt.Sprintf("<%T>", v)
}

func decodeTyped(v interface{}) interface{} {
	switch t := v.(type) {
	case []interface{}:
		out := make([]interface{}, len(t))
		for i := range t {
			out[i] = decodeTyped(t[i])
		}
		return out
	case map[string]interface{}:
		tag, _ := t["$t"].(string)
		inner := t["v"]
		num := func() float64 { f, _ := inner.(float64); return f }
		switch tag {
		case "int":
			return int(num())
		case "int32":
			return int32(num())
		case "int64":
			return int64(num())
		case "float64":
			return num()
		case "json.Number":
			s, _ := inner.(string)
			return json.Number(s)
		case "[]string":
			var out []string
			for _, e := range inner.([]interface{}) {
				s, _ := e.(string)
				out = append(out, s)
			}
			return out
		case "[]int":
			var out []int
			for _, e := range inner.([]interface{}) {
				f, _ := e.(float64)
				out = append(out, int(f))
			}
			return out
		case "map":
			out := map[string]interface{}{}
			if mm, ok := inner.(map[string]interface{}); ok {
				for k, e := range mm {
					out[k] = decodeTyped(e)
				}
			}
			return out
		}
	}
	return v
}

func valueClass(v interface{}, depth int) string {
	switch t := v.(type) {
	case nil:
		return "nil"
	case []interface{}:
		if len(t) == 0 || depth <= 0 {
			return "list"
		}
		return "list<" + valueClass(t[0], depth-1) + ">"
	case map[string]interface{}:
		return "map"
	}
	return fmt.Sprintf("%T", v)
}

var c14DefaultFor = map[string]string{"Int": "7", "Float": "1.5", "String": `"d"`, "Boolean": "true", "ID": `"i"`, "Color": "GREEN", "Unit": "metre", "Point": "{x: 1, y: null, c: null, child: {x: 2, y: null}}", "Any": `{a: 1, l: [2, {b: "x"}]}`}

// c14Alias: ONE Go map supplied for two variables of different input types (clients build such maps; nothing says values are
// trees). It is valid for the first declared variable and invalid for the second, so coercion must fail - and it must give the
// same answer as with two separate, equal maps.
func c14Alias(x *core.Ctx, schema *ast.Schema, variant string) {
	var decl string
	mk := func() map[string]interface{} { return nil }
	switch variant {
	case "one-then-point":
		decl, mk = "$o: One, $p: Point", func() map[string]interface{} { return map[string]interface{}{"a": 1} }
	case "point-then-one":
		decl, mk = "$p: Point, $o: One", func() map[string]interface{} { return map[string]interface{}{"x": 1} }
	case "list-item-then-point":
		decl, mk = "$o: [One!], $p: Point", func() map[string]interface{} { return map[string]interface{}{"b": "s"} }
	default:
		decl, mk = "$p: Point, $o: [[One]]", func() map[string]interface{} { return map[string]interface{}{"x": 2, "y": 3} }
	}
	doc, perr := parser.ParseQuery(&ast.Source{Name: "op.graphql", Input: "query Q(" + decl + ") { f(any: [$p, $o]) }"})
	if perr != nil || len(validator.Validate(schema, doc)) > 0 {
		x.HarnessBug("alias operation is not valid: " + decl)
		return
	}
	build := func(shared bool) map[string]interface{} {
		a, b := mk(), mk()
		if shared {
			b = a
		}
		vars := map[string]interface{}{"p": a, "o": b}
		switch variant {
		case "list-item-then-point":
			vars["o"] = []interface{}{b}
		case "point-then-nested-one":
			vars["o"] = []interface{}{[]interface{}{b}}
		}
		return vars
	}
	_, errSeparate := validator.VariableValues(schema, doc.Operations[0], build(false))
	_, errShared := validator.VariableValues(schema, doc.Operations[0], build(true))
	x.Count("aliased_map_cases")
	x.Nontrivial()
	if errSeparate == nil {
		x.Violate("accepted-cannot-conform(separate-maps:"+variant+")", "values returned for "+decl+" although the map of the second variable does not fit its type", "an error")
		return
	}
	if errShared == nil {
		x.Violate("accepted-cannot-conform(aliased-map:"+variant+")", "values returned for "+decl+" with one map supplied twice", "an error: "+errSeparate.Error())
	}
	// (the error texts are not compared: which of two unknown keys is named first follows Go's iteration over the caller's map)
}

func c14Check(x *core.Ctx, c *core.Case) {
	schema, err := gqlparser.LoadSchema(&ast.Source{Name: "c14.graphql", Input: c14Schema})
	if err != nil {
		x.HarnessBug("c14 schema: " + err.Error())
		return
	}
	// the conformance predicate reads the types from a schema object nothing else ever touches
	pristine, _ := gqlparser.LoadSchema(&ast.Source{Name: "c14.graphql", Input: c14Schema})
	if pd, perr := parser.ParseQuery(&ast.Source{Name: "primer.graphql", Input: c14Primer}); perr != nil || len(validator.Validate(schema, pd)) > 0 {
		x.HarnessBug("c14 primer is not a valid operation")
		return
	}
	if c.Kind == "alias" {
		c14Alias(x, schema, c.Get("variant"))
		return
	}
	ts := c.Get("type")
	decl := "$v: " + ts
	hasDefault := c.Get("default") != ""
	if hasDefault {
		base := strings.Trim(ts, "[]!")
		d := c14DefaultFor[base]
		// the default is written at the declared list depth
		depth := strings.Count(ts, "[")
		decl += " = " + strings.Repeat("[", depth) + d + strings.Repeat("]", depth)
		if c.Get("default") == "null" {
			decl = "$v: " + ts + " = null"
		}
		if c.Get("default") == "single" {
			decl = "$v: " + ts + " = " + d
		}
		if c.Get("default") == "empty" {
			decl = "$v: " + ts + " = []"
		}
		if c.Get("default") == "keyword-text" {
			kw := []string{`"null"`, `"true"`, `"false"`}[len(ts)%3]
			decl = "$v: " + ts + " = " + strings.Repeat("[", depth) + kw + strings.Repeat("]", depth)
		}
		if c.Get("default") == "huge" {
			decl = "$v: " + ts + " = " + strings.Repeat("[", depth) + "99999999999999999999" + strings.Repeat("]", depth)
		}
	}
	doc, perr := parser.ParseQuery(&ast.Source{Name: "op.graphql", Input: "query Q(" + decl + ") { f(any: {k: $v}) }"})
	if perr != nil {
		x.HarnessBug("operation does not parse: " + perr.Error())
		return
	}
	if errs := validator.Validate(schema, doc); len(errs) > 0 && c.Get("default") == "huge" {
		x.Count("skipped:huge-default-rejected-by-validation")
		return
	} else if len(errs) > 0 {
		x.HarnessBug("operation does not validate: " + errs[0].Message + " for " + decl)
		return
	}
	op := doc.Operations[0]
	vd := op.VariableDefinitions[0]
	vars := map[string]interface{}{}
	var supplied interface{}
	isSupplied := c.Has("value")
	if isSupplied {
		var raw interface{}
		if jerr := json.Unmarshal([]byte(c.Get("value")), &raw); jerr != nil {
			x.HarnessBug("bad value json: " + jerr.Error())
			return
		}
		supplied = decodeTyped(raw)
		vars["v"] = supplied
		x.Nontrivial()
	}
	defect := c.Get("defect")
	// reference verdict on the supplied value BEFORE the call (the library may edit maps in place)
	refOK, refWhy := true, ""
	if isSupplied {
		refOK, refWhy = conforms(pristine, c14PristineType(vd.Type), supplied, "$v")
		if c.Get("coerced") != "" {
			// a single value stands for a list: the predicate is applied to the output only
			refOK, refWhy = true, ""
		}
	}
	out, cerr := validator.VariableValues(schema, op, vars)
	class := fmt.Sprintf("%s/%s/%s", strings.Trim(ts, "[]!")+":"+wrapPattern(ts), valueClass(supplied, 2), defect)
	if cerr != nil {
		x.Count("returned_error")
		x.Distinct("class", class+"/error")
		if out != nil {
			x.Violate("result-shape", "both values and an error", "values or an error")
		}
		if !isSupplied && hasDefault {
			// the operation passed validation, so its default is a value of the declared type: nothing was supplied that could be wrong
			x.Violate("default-rejected("+firstWords(templateOf(cerr.Error()), 5)+")", cerr.Error(), "the default value of "+decl)
			return
		}
		if defect != "" {
			x.Count("defect_rejected")
		} else if refOK {
			x.Count("rejected_although_reference_conforms")
			x.Count("rejected_although_reference_conforms:" + firstWords(templateOf(cerr.Error()), 6))
		}
		return
	}
	x.Count("returned_values")
	x.Distinct("class", class+"/values")
	if defect != "" && !refOK {
		x.Violate("accepted-cannot-conform("+defect+")", fmt.Sprintf("values returned for %s = %s", decl, c.Get("value")), "an error: "+refWhy)
		return
	}
	if defect != "" && refOK {
		x.Count("discarded:defect-not-seen-by-predicate(" + defect + ")")
	}
	got, present := out["v"]
	switch {
	case !isSupplied && hasDefault:
		if !present {
			x.Violate("default-not-applied", "variable absent from the result", "the default value of "+decl)
			return
		}
		x.Count("defaults_applied")
		if c.Get("default") == "null" {
			x.Count("null_defaults_applied")
			if got != nil {
				x.Violate("default-not-applied", fmt.Sprintf("%#v", got), "null, the declared default")
			}
			return
		}
		if ok, why := conforms(pristine, c14PristineType(vd.Type), got, "$v"); !ok {
			x.Violate("nonconforming-output(default:"+wrapPattern(ts)+")", why, "a value of "+ts)
		}
		if want, known := map[string]string{"Int": "7", "Float": "1.5", "String": "d", "Boolean": "true", "ID": "i", "Color": "GREEN", "Unit": "metre", "Any": "map[a:1 l:[2 map[b:x]]]"}[strings.Trim(ts, "[]!")]; known && c.Get("default") == "1" {
			// the default written in the operation is the value: the same text at the declared list depth
			inner := got
			for {
				l, ok := inner.([]interface{})
				if !ok || len(l) != 1 {
					break
				}
				inner = l[0]
			}
			x.Count("default_values_compared")
			if fmt.Sprint(inner) != want {
				x.Violate("default-not-applied(value:"+strings.Trim(ts, "[]!")+")", fmt.Sprintf("%#v", got), "the declared default "+want)
			}
		}
		if strings.Trim(ts, "[]!") == "Point" && c.Get("default") == "1" {
			// the default says null for two fields that have defaults of their own: an explicit null is a value, the
			// fields' defaults are for absent fields
			inner := got
			for {
				l, ok := inner.([]interface{})
				if !ok || len(l) != 1 {
					break
				}
				inner = l[0]
			}
			x.Count("default_values_compared")
			mp, _ := inner.(map[string]interface{})
			child, _ := mp["child"].(map[string]interface{})
			_, hasY := mp["y"]
			_, hasC := mp["c"]
			_, hasCY := child["y"]
			if mp == nil || child == nil || !hasY || !hasC || !hasCY || mp["y"] != nil || mp["c"] != nil || child["y"] != nil || fmt.Sprint(mp["x"]) != "1" || fmt.Sprint(child["x"]) != "2" {
				x.Violate("default-not-applied(value:Point)", fmt.Sprintf("%#v", got), "the declared default {x: 1, y: null, c: null, child: {x: 2, y: null}}: the nulls are values")
			}
		}
		if c.Get("default") == "keyword-text" {
			x.Count("keyword_text_defaults_applied")
			kw := []string{"null", "true", "false"}[len(ts)%3]
			inner := got
			for {
				l, ok := inner.([]interface{})
				if !ok || len(l) != 1 {
					break
				}
				inner = l[0]
			}
			if str, ok := inner.(string); !ok || str != kw {
				x.Violate("default-not-applied(keyword-text)", fmt.Sprintf("%#v", got), "the string "+strconv.Quote(kw)+" at the declared depth")
			}
		}
		if c.Get("default") == "empty" {
			x.Count("empty_list_defaults_applied")
			if rv := reflect.ValueOf(got); got == nil || rv.Kind() != reflect.Slice || rv.Len() != 0 {
				x.Violate("default-not-applied(empty-list)", fmt.Sprintf("%#v", got), "an empty list, the declared default")
			}
		}
		// what the caller does with the returned value is its own business: a second call for the same operation gives the
		// declared default again, whatever happened to the first result
		before := fmt.Sprintf("%#v", got)
		mutateInPlace(got)
		if out2, err2 := validator.VariableValues(schema, op, map[string]interface{}{}); err2 != nil {
			x.Violate("default-rejected(second-call)", err2.Error(), "the default value of "+decl)
		} else if again := fmt.Sprintf("%#v", out2["v"]); again != before {
			x.Violate("default-not-applied(second-call)", again, before)
		} else {
			x.Count("second_calls_after_caller_mutation")
		}
	case !isSupplied:
		if present && got != nil {
			x.Violate("value-from-nowhere", fmt.Sprintf("%v", got), "absent")
		}
		if !present && vd.Type.NonNull {
			x.Violate("missing-non-null-variable-accepted", "no value, no default, no error", "an error")
		}
	default:
		if !present {
			x.Violate("supplied-variable-dropped", "variable absent from the result", "present")
			return
		}
		if ok, why := conforms(pristine, c14PristineType(vd.Type), got, "$v"); !ok {
			kind := "value"
			if c.Get("coerced") != "" {
				kind = "coerced-single-value"
			}
			x.Violate("nonconforming-output("+kind+":"+outReason(why)+")", why+fmt.Sprintf("\nreturned: %#v", got), "a value of "+ts)
			return
		}
		if c.Get("coerced") != "" {
			x.Count("coerced_single_value")
		}
		// a number that went in comes out as the same number, whatever Go type carries it (an out-of-range conversion
		// wraps around silently)
		var raw2 interface{}
		if json.Unmarshal([]byte(c.Get("value")), &raw2) == nil {
			if where, in, out := numberChanged(decodeTyped(raw2), got, "$v"); where != "" {
				switch {
				case out == "<absent>":
					x.Violate("supplied-key-dropped-by-coercion", fmt.Sprintf("%s (%s) is missing from the result", where, in), "every supplied input field in the result")
				case strings.HasPrefix(out, "<not null>"):
					x.Violate("supplied-null-replaced-by-coercion", fmt.Sprintf("%s (%s) became %s", where, in, strings.TrimPrefix(out, "<not null> ")), "null stays null")
				default:
					x.Violate("number-changed-by-coercion", fmt.Sprintf("%s: %s became %s", where, in, out), "the same numeric value")
				}
				return
			}
			x.Count("numbers_compared")
			// a number that arrives as decoder text (json.Number) is converted by the library itself, so the Go kind of the
			// result is the library's choice and must fit the declared type: a float for Float (3 as well as 3.0: the
			// specification coerces integer input to a Float), an integer for Int (after seeded change C15-wave10-A)
			if _, isNum := decodeTyped(raw2).(json.Number); isNum {
				k := reflect.ValueOf(got).Kind()
				switch strings.TrimSuffix(ts, "!") {
				case "Float":
					x.Count("decoder_numbers_for_Float")
					if k != reflect.Float64 && k != reflect.Float32 {
						x.Violate("number-kind(Float-from-decoder-text)", fmt.Sprintf("%T(%v) for %s", got, got, c.Get("value")), "a float64")
					}
				case "Int":
					x.Count("decoder_numbers_for_Int")
					if k == reflect.Float64 || k == reflect.Float32 || k == reflect.String {
						x.Violate("number-kind(Int-from-decoder-text)", fmt.Sprintf("%T(%v) for %s", got, got, c.Get("value")), "an integer")
					}
				}
			}
		}
	}
	if x.WantSample() && isSupplied && strings.Count(ts, "[") >= 2 {
		x.Sample(map[string]interface{}{"declaration": decl, "supplied": c.Get("value"), "defect": defect, "returned": fmt.Sprintf("%#v", got), "verdict": "returned value conforms to the declared type"})
	}
}

func wrapPattern(ts string) string {
	base := strings.Trim(ts, "[]!")
	return strings.Replace(ts, base, "T", 1)
}

func outReason(why string) string {
	switch {
	case strings.Contains(why, "where a list"):
		return "not-a-list"
	case strings.Contains(why, "null at non-null"):
		return "null"
	case strings.Contains(why, "undeclared field"):
		return "undeclared-field"
	case strings.Contains(why, "required field"):
		return "missing-field"
	case strings.Contains(why, "is not a value of enum"):
		return "enum"
	}
	return "kind"
}

// mutateInPlace scribbles over a returned value the way a resolver might (sets map keys, overwrites list items).
func mutateInPlace(v interface{}) {
	switch t := v.(type) {
	case map[string]interface{}:
		for k, e := range t {
			mutateInPlace(e)
			t[k] = "OVERWRITTEN"
		}
		t["addedByCaller"] = 1000000
	case []interface{}:
		for i, e := range t {
			mutateInPlace(e)
			t[i] = "OVERWRITTEN"
		}
	}
}

// numberChanged walks a supplied value and the returned value in parallel (same shapes only) and reports the first position
// where both hold a number but not the same number.
func numberChanged(in, out interface{}, path string) (string, string, string) {
	num := func(v interface{}) (*big.Float, bool) {
		switch t := v.(type) {
		case json.Number:
			f, _, err := big.ParseFloat(string(t), 10, 200, big.ToNearestEven)
			return f, err == nil
		case string, bool, nil:
			return nil, false
		}
		rv := reflect.ValueOf(v)
		switch rv.Kind() {
		case reflect.Int, reflect.Int8, reflect.Int16, reflect.Int32, reflect.Int64:
			return new(big.Float).SetPrec(200).SetInt64(rv.Int()), true
		case reflect.Uint, reflect.Uint8, reflect.Uint16, reflect.Uint32, reflect.Uint64:
			return new(big.Float).SetPrec(200).SetUint64(rv.Uint()), true
		case reflect.Float32, reflect.Float64:
			return new(big.Float).SetPrec(200).SetFloat64(rv.Float()), true
		}
		return nil, false
	}
	if a, ok := num(in); ok {
		if b, ok2 := num(out); ok2 && a.Cmp(b) != 0 {
			return path, fmt.Sprint(in), fmt.Sprint(out)
		}
		return "", "", ""
	}
	ri, ro := reflect.ValueOf(in), reflect.ValueOf(out)
	if !ri.IsValid() || !ro.IsValid() {
		return "", "", ""
	}
	switch {
	case ri.Kind() == reflect.Slice && ro.Kind() == reflect.Slice && ri.Len() == ro.Len():
		for i := 0; i < ri.Len(); i++ {
			if w, a, b := numberChanged(ri.Index(i).Interface(), ro.Index(i).Interface(), fmt.Sprintf("%s[%d]", path, i)); w != "" {
				return w, a, b
			}
		}
	case ri.Kind() == reflect.Map && ro.Kind() == reflect.Map && ri.Type().Key().Kind() == reflect.String && ro.Type().Key().Kind() == reflect.String:
		for _, k := range ri.MapKeys() {
			ov := ro.MapIndex(k)
			if !ov.IsValid() {
				// a key the caller supplied (an explicit null included) is not the same as no key: defaults apply to absent
				// fields only
				return path + "." + k.String(), fmt.Sprintf("supplied: %v", ri.MapIndex(k).Interface()), "<absent>"
			}
			if iv := ri.MapIndex(k).Interface(); iv == nil && ov.Interface() != nil {
				return path + "." + k.String(), "supplied: null", fmt.Sprintf("<not null> %v", ov.Interface())
			}
			if w, a, b := numberChanged(ri.MapIndex(k).Interface(), ov.Interface(), path+"."+k.String()); w != "" {
				return w, a, b
			}
		}
	}
	return "", "", ""
}

// c14PristineType rebuilds a declared type from its text, so that the predicate does not share the *ast.Type nodes either.
func c14PristineType(t *ast.Type) *ast.Type { return mustType(t.String()) }
