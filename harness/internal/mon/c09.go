package mon

import (
	"fmt"
	"strings"

	"github.com/vektah/gqlparser/v2"
	"github.com/vektah/gqlparser/v2/ast"
	"github.com/vektah/gqlparser/v2/parser"
	"github.com/vektah/gqlparser/v2/validator"

	"verif/harness/internal/core"
	"verif/harness/internal/dgen"
	"verif/harness/internal/model"
	"verif/harness/internal/tsys"
)

// C09 — validated documents are completely and correctly linked to schema definitions.
func init() {
	core.Register(&core.Monitor{
		ID: "C09",
		Rule: "documents generated valid by construction (deep list and input-object literals, list-coerced single values, fragments on unions and interfaces, __typename, introspection fields, variables used through fragments, directives at every executable location) are validated; " +
			"for each document that validation accepts, an independent top-down typing pass over the returned tree recomputes every link from names and the schema's maps and compares by pointer identity: Field.Definition/ObjectDefinition, FragmentSpread.Definition/ObjectDefinition, " +
			"InlineFragment.ObjectDefinition, FragmentDefinition.Definition, Directive.Definition/Location, VariableDefinition.Definition, Value.ExpectedType/Definition at every depth of every argument, default value, list item and input-object field (custom-scalar contents excepted), Value.VariableDefinition for every variable use. " +
			"a fixed schema whose (container, member) names collide when flattened into one string is part of every run; one document in four is also parsed afresh and validated with an explicitly empty rule list and with a single rule (the walk links the tree whatever observes it); one document in three is then validated a second time, as the same parsed object, against a second load of the same schema text, and every link must point into the second schema. " +
			"distinct = distinct (node kind, link, context) classes checked; non-trivial = accepted documents",
		Assumptions: []string{
			"the pass is complete by construction: it visits every operation, every fragment definition and every node below them",
			"the synthetic __typename definition is checked by name and type (String!), not by identity",
		},
		Shards:          func(tier string) int { return 16 },
		Run:             c09Run,
		Check:           c09Check,
		DistinctClasses: []string{"link-class"},
		MinEvaluations:  func(tier string) int64 { return 2000 },
		RequiredCounts:  []string{"documents_linked", "documents_relinked_to_second_schema", "documents_linked_under_rule_subset", "deep_chain_documents", "load_query_pairs", "links:Field.Definition", "links:Value.ExpectedType(list-item)", "links:Value.ExpectedType(input-field)", "links:Value.VariableDefinition", "links:Directive.Definition", "links:FragmentSpread.Definition"},
	})
}

// c09KeySchema is a fixed schema whose type, field, argument and input-field names collide when a (container, member) pair
// is flattened into one string, with or without a separator: (User, profile_id) / (User_profile, id), (User, profileid) /
// (Userprofile, id), f(a_b) / f_a(b), In.a_b / In_a.b. The colliding members have different types.
const c09KeySchema = `directive @d(a_b: Int) on FIELD | QUERY | MUTATION | SUBSCRIPTION
directive @d_a(b: String) on FIELD | SCHEMA | MUTATION
input In { a_b: Int b: Boolean a: In_a }
input In_a { b: String a_b: Float }
type User { profile_id: Int profileid: String id: ID profile: User_profile other: Userprofile f(a_b: Int, in: In): Int f_a(b: String, in: In_a): String }
type User_profile { id: String _id: Float user: User f(a_b: Float): Float }
type Userprofile { id: Boolean user: User }
type Query { user: User user_profile: User_profile userprofile: Userprofile set(a_b: Int): Int }
schema @d_a { query: Query mutation: Query }`

func c09KeyCases(x *core.Ctx, r *core.Rand, n int) {
	sd, err := parser.ParseSchema(&ast.Source{Name: "keys.graphql", Input: c09KeySchema})
	if err != nil {
		x.HarnessBug("key schema: " + err.Error())
		return
	}
	mg := tsys.Merge(model.FromSchemaAST(sd).Items)
	rn := &model.Renderer{}
	// chains far deeper than any sensible guard constant, directly and through a chain of fragments: every level is linked
	for k := 0; k < 3; k++ {
		depth := 100 + r.Intn(500)
		var b strings.Builder
		if depth%2 == 0 {
			b.WriteString("query Deep($v: Int) { user { ")
		} else {
			b.WriteString("query Deep { user { ")
		}
		for d := 0; d < depth; d++ {
			if d%2 == 0 {
				b.WriteString("profile { ")
			} else {
				b.WriteString("user { ")
			}
		}
		if depth%2 == 0 {
			b.WriteString("f(a_b: $v) @d(a_b: $v) ")
		} else {
			b.WriteString("f(a_b: 1.5) id ")
		}
		b.WriteString(strings.Repeat("} ", depth+2))
		dc := core.NewCase("pair", "schema", c09KeySchema, "doc", b.String(), "expect", "valid")
		x.Do(dc, func() { c09Check(x, dc) })
		x.Count("deep_chain_documents")
	}
	// one type is root for queries AND mutations (the loader allows it): what is linked for a mutation is the mutation's
	for _, doc := range []string{
		"mutation M @d(a_b: 1) @d_a(b: \"x\") { set(a_b: 2) user { id } ... on Query { plain: set } ...F } fragment F on Query { user_profile { id } }",
		"query Q @d { user { id } } mutation M @d_a { set }",
		"mutation ($v: Int) @d(a_b: $v) { a: set(a_b: $v) @d(a_b: $v) }",
	} {
		mc := core.NewCase("pair", "schema", c09KeySchema, "doc", doc, "expect", "valid")
		x.Do(mc, func() { c09Check(x, mc) })
		x.Count("shared_root_documents")
	}
	for j := 0; j < n; j++ {
		g := dgen.New(r, mg, &dgen.Opts{MaxDepth: 2 + r.Intn(3), MaxOps: 1 + r.Intn(2), DeepValues: j%2 == 0})
		doc := g.Doc()
		if len(doc.Defs) == 0 {
			continue
		}
		c := core.NewCase("pair", "schema", c09KeySchema, "doc", rn.RenderDoc(doc), "expect", "valid")
		x.Do(c, func() { c09Check(x, c) })
	}
}

func c09Run(x *core.Ctx) {
	ns := 200
	if !x.Quick() {
		ns = 6000
	}
	r := x.Rand(uint64(x.Shard))
	rn := &model.Renderer{}
	c09KeyCases(x, r, ns*2)
	for i := 0; i < ns; i++ {
		sc := c08MakeSchema(r, i)
		for j := 0; j < 10; j++ {
			g := dgen.New(r, sc.mg, &dgen.Opts{MaxDepth: 1 + r.Intn(4), MaxOps: 1 + r.Intn(3), Introspect: j%3 == 0, DeepValues: j%2 == 0})
			doc := g.Doc()
			if len(doc.Defs) == 0 {
				continue
			}
			c := core.NewCase("pair", "schema", sc.src, "doc", rn.RenderDoc(doc), "expect", "valid")
			x.Do(c, func() { c09Check(x, c) })
		}
	}
}

type linker struct {
	x      *core.Ctx
	s      *ast.Schema
	doc    *ast.QueryDocument
	opOf   map[*ast.VariableDefinition]*ast.OperationDefinition
	reach  map[*ast.OperationDefinition]map[string]bool // fragments reachable from each operation
	inFrag string
	curOp  *ast.OperationDefinition
	tag    string // "" for the first validation, "revalidated:" for the second
}

func (l *linker) ok(link, ctx string) {
	l.x.Count("links:" + link)
	l.x.Distinct("link-class", l.tag+link+"/"+ctx)
}

func (l *linker) bad(link, kind, obs, exp string) {
	l.x.Violate(l.tag+link+":"+kind, obs, exp)
}

func (l *linker) checkDef(link, ctx string, got, want *ast.Definition, where string) {
	switch {
	case want == nil && got == nil:
		l.ok(link, ctx+"/nil")
	case got == nil:
		l.bad(link, "nil", where+": nil", "definition of "+want.Name)
	case got != want:
		l.bad(link, "wrong-target", fmt.Sprintf("%s: points at %s (%p)", where, got.Name, got), fmt.Sprintf("the schema's %s (%p)", nameOf(want), want))
	default:
		l.ok(link, ctx)
	}
}

func nameOf(d *ast.Definition) string {
	if d == nil {
		return "<nil>"
	}
	return d.Name
}

func isCustomScalar(d *ast.Definition) bool {
	return d != nil && d.Kind == ast.Scalar && !d.OneOf("Int", "Float", "String", "Boolean", "ID")
}

// value checks a value written at a position whose declared type is t (a node of the schema or of a variable definition).
func (l *linker) value(v *ast.Value, t *ast.Type, ctx, where string) {
	if v == nil {
		return
	}
	if v.ExpectedType != t {
		kind := "wrong-target"
		if v.ExpectedType == nil {
			kind = "nil"
		}
		l.bad("Value.ExpectedType("+ctx+")", kind, fmt.Sprintf("%s: %v (%p)", where, typeStr(v.ExpectedType), v.ExpectedType), fmt.Sprintf("the declared type %s (%p)", t.String(), t))
		return
	}
	l.ok("Value.ExpectedType("+ctx+")", valKind(v))
	want := l.s.Types[t.Name()]
	if want == nil {
		// the declared type of a position in a loaded schema (or of a variable that passed validation) names a type of
		// that schema: a link to "no definition" is not a link
		l.bad("Value.Definition("+ctx+")", "declared-type-not-in-schema", fmt.Sprintf("%s: the position is declared as %q", where, t.Name()), "a type of the schema")
		return
	}
	if v.Definition != want {
		kind := "wrong-target"
		if v.Definition == nil {
			kind = "nil"
		}
		l.bad("Value.Definition("+ctx+")", kind, fmt.Sprintf("%s: %s", where, nameOf(v.Definition)), "Types["+t.Name()+"]")
		return
	}
	l.ok("Value.Definition("+ctx+")", valKind(v))
	switch v.Kind {
	case ast.Variable:
		l.variable(v, where)
	case ast.ListValue:
		if t.Elem == nil {
			return
		}
		for i, c := range v.Children {
			l.value(c.Value, t.Elem, "list-item", fmt.Sprintf("%s[%d]", where, i))
		}
	case ast.ObjectValue:
		if isCustomScalar(want) {
			l.x.Count("custom_scalar_contents_skipped")
			l.varsOnly(v, where)
			return
		}
		if want == nil || want.Kind != ast.InputObject {
			return
		}
		for _, c := range v.Children {
			fd := want.Fields.ForName(c.Name)
			if fd == nil {
				continue
			}
			l.value(c.Value, fd.Type, "input-field", where+"."+c.Name)
		}
	}
	if v.Kind == ast.ListValue && isCustomScalar(want) && t.Elem == nil {
		l.varsOnly(v, where)
	}
}

// varsOnly: inside custom-scalar literals only variable uses are linked.
func (l *linker) varsOnly(v *ast.Value, where string) {
	for _, c := range v.Children {
		if c.Value == nil {
			continue
		}
		if c.Value.Kind == ast.Variable {
			l.variable(c.Value, where+"/custom-scalar")
		} else {
			l.varsOnly(c.Value, where)
		}
	}
}

func typeStr(t *ast.Type) string {
	if t == nil {
		return "<nil>"
	}
	return t.String()
}

func (l *linker) variable(v *ast.Value, where string) {
	vd := v.VariableDefinition
	if vd == nil {
		l.bad("Value.VariableDefinition", "nil", where+": $"+v.Raw+" has no variable definition", "the definition of $"+v.Raw)
		return
	}
	if vd.Variable != v.Raw {
		l.bad("Value.VariableDefinition", "wrong-name", where+": $"+v.Raw+" linked to $"+vd.Variable, "a definition of that name")
		return
	}
	op := l.opOf[vd]
	if op == nil {
		l.bad("Value.VariableDefinition", "foreign", where+": $"+v.Raw+" linked to a definition that belongs to no operation of this document", "a definition in an operation containing the use")
		return
	}
	switch {
	case l.inFrag != "":
		if !l.reach[op][l.inFrag] {
			l.bad("Value.VariableDefinition", "wrong-operation", where+": $"+v.Raw+" (in fragment "+l.inFrag+") linked to operation "+op.Name+" which does not spread that fragment", "an operation that contains the use")
			return
		}
		l.ok("Value.VariableDefinition", "in-fragment")
	default:
		if op != l.curOp {
			l.bad("Value.VariableDefinition", "wrong-operation", where+": $"+v.Raw+" linked to operation "+op.Name, "the enclosing operation")
			return
		}
		l.ok("Value.VariableDefinition", "in-operation")
	}
}

func (l *linker) args(args ast.ArgumentList, defs ast.ArgumentDefinitionList, where string) {
	for _, a := range args {
		ad := defs.ForName(a.Name)
		if ad == nil {
			continue
		}
		l.value(a.Value, ad.Type, "argument", where+"("+a.Name+")")
	}
}

func (l *linker) directives(ds ast.DirectiveList, loc ast.DirectiveLocation, where string) {
	for _, d := range ds {
		want := l.s.Directives[d.Name]
		if d.Definition != want || want == nil {
			kind := "wrong-target"
			if d.Definition == nil {
				kind = "nil"
			}
			l.bad("Directive.Definition", kind, where+" @"+d.Name, "Directives["+d.Name+"]")
			continue
		}
		l.ok("Directive.Definition", string(loc))
		if d.Location != loc {
			l.bad("Directive.Location", "wrong-location", fmt.Sprintf("%s @%s: %q", where, d.Name, d.Location), string(loc))
		} else {
			l.ok("Directive.Location", string(loc))
		}
		l.args(d.Arguments, want.Arguments, where+" @"+d.Name)
	}
}

func (l *linker) selections(parent *ast.Definition, ss ast.SelectionSet, where string) {
	for _, sel := range ss {
		switch s := sel.(type) {
		case *ast.Field:
			w := where + "/" + s.Alias
			l.checkDef("Field.ObjectDefinition", kindOf(parent), s.ObjectDefinition, parent, w)
			var want *ast.FieldDefinition
			if s.Name == "__typename" {
				if s.Definition == nil || s.Definition.Name != "__typename" || s.Definition.Type == nil || s.Definition.Type.String() != "String!" {
					l.bad("Field.Definition", "typename", w+": "+fmt.Sprint(s.Definition), "a definition named __typename of type String!")
				} else {
					l.ok("Field.Definition", "__typename/"+kindOf(parent))
				}
				l.directives(s.Directives, ast.LocationField, w)
				continue
			}
			if parent != nil {
				want = parent.Fields.ForName(s.Name)
			}
			if want == nil || s.Definition != want {
				kind := "wrong-target"
				if s.Definition == nil {
					kind = "nil"
				}
				l.bad("Field.Definition", kind, w+" ("+s.Name+")", "the field "+s.Name+" of "+nameOf(parent))
				continue
			}
			ctx := kindOf(parent)
			if len(s.Name) > 2 && s.Name[:2] == "__" {
				ctx = "introspection"
			}
			l.ok("Field.Definition", ctx)
			l.args(s.Arguments, want.Arguments, w)
			l.directives(s.Directives, ast.LocationField, w)
			l.selections(l.s.Types[want.Type.Name()], s.SelectionSet, w)
		case *ast.InlineFragment:
			l.checkDef("InlineFragment.ObjectDefinition", kindOf(parent), s.ObjectDefinition, parent, where+"/...on "+s.TypeCondition)
			next := parent
			if s.TypeCondition != "" {
				next = l.s.Types[s.TypeCondition]
			}
			l.directives(s.Directives, ast.LocationInlineFragment, where+"/...on "+s.TypeCondition)
			l.selections(next, s.SelectionSet, where+"/...on "+s.TypeCondition)
		case *ast.FragmentSpread:
			want := l.doc.Fragments.ForName(s.Name)
			if want == nil || s.Definition != want {
				kind := "wrong-target"
				if s.Definition == nil {
					kind = "nil"
				}
				l.bad("FragmentSpread.Definition", kind, where+"/..."+s.Name, "the fragment definition "+s.Name)
			} else {
				l.ok("FragmentSpread.Definition", kindOf(parent))
			}
			l.checkDef("FragmentSpread.ObjectDefinition", kindOf(parent), s.ObjectDefinition, parent, where+"/..."+s.Name)
			l.directives(s.Directives, ast.LocationFragmentSpread, where+"/..."+s.Name)
		}
	}
}

func kindOf(d *ast.Definition) string {
	if d == nil {
		return "nil"
	}
	return string(d.Kind)
}

func c09Check(x *core.Ctx, c *core.Case) {
	schema, _, doc := loadPair(x, c)
	if schema == nil {
		return
	}
	errs := validator.Validate(schema, doc)
	if len(errs) > 0 {
		x.Count("skipped:document-rejected")
		if strings.HasPrefix(c.Get("doc"), "query Deep") {
			x.Violate("deep-chain-rejected("+errs[0].Rule+")", errs[0].Message, "accepted: a chain of existing fields with valid arguments")
		}
		return
	}
	x.Count("documents_linked")
	x.Nontrivial()
	c09Links(x, schema, doc, "")
	// the links are made by the walk, whatever rules observe it: a fresh parse validated with an explicitly empty rule
	// list, and with one rule, must come back linked in the same way
	if h := core.HashString(c.Get("doc")); h%4 == 1 {
		for _, sub := range []struct {
			tag   string
			rules []validator.Rule
		}{{"rules=empty:", []validator.Rule{}}, {"rules=one:", []validator.Rule{c18Standard[int(h>>8)%len(c18Standard)]}}} {
			d2, perr := parser.ParseQuery(&ast.Source{Name: "doc.graphql", Input: c.Get("doc")})
			if perr != nil {
				continue
			}
			if errs := validator.Validate(schema, d2, sub.rules...); len(errs) == 0 {
				x.Count("documents_linked_under_rule_subset")
				c09Links(x, schema, d2, sub.tag)
			}
		}
	}
	// the same parsed document validated again against a second load of the same schema text: every link must now
	// point into the second schema (links left over from the first validation would be stale for that caller)
	if core.HashString(c.Get("doc"))%3 == 0 {
		second, err := gqlparser.LoadSchema(&ast.Source{Name: "schema.graphql", Input: c.Get("schema")})
		if err == nil && len(validator.Validate(second, doc)) == 0 {
			x.Count("documents_relinked_to_second_schema")
			c09Links(x, second, doc, "revalidated:")
		}
	}
	// the convenience entry point: the document LoadQuery returned for the first schema still points into the first schema
	// after the same text was loaded for a second schema (each call owns the tree it returns)
	if core.HashString(c.Get("doc"))%5 == 2 {
		if second, err := gqlparser.LoadSchema(&ast.Source{Name: "schema.graphql", Input: c.Get("schema")}); err == nil {
			d1, e1 := gqlparser.LoadQuery(schema, c.Get("doc"))
			d2, e2 := gqlparser.LoadQuery(second, c.Get("doc"))
			if len(e1) == 0 && len(e2) == 0 && d1 != nil && d2 != nil {
				x.Count("load_query_pairs")
				c09Links(x, schema, d1, "LoadQuery(first-after-second):")
				c09Links(x, second, d2, "LoadQuery(second):")
			}
		}
	}
	if x.WantSample() && len(c.Get("doc")) < 500 {
		x.Sample(map[string]interface{}{"document": c.Get("doc"), "links_checked_so_far": x.Res.Counts["links:Field.Definition"], "verdict": "every link recomputed by the typing pass equals the link on the tree"})
	}
}

// c09Links runs the typing pass over a validated document.
func c09Links(x *core.Ctx, schema *ast.Schema, doc *ast.QueryDocument, tag string) {
	l := &linker{tag: tag, x: x, s: schema, doc: doc, opOf: map[*ast.VariableDefinition]*ast.OperationDefinition{}, reach: map[*ast.OperationDefinition]map[string]bool{}}
	var collect func(ss ast.SelectionSet, into map[string]bool)
	collect = func(ss ast.SelectionSet, into map[string]bool) {
		for _, sel := range ss {
			switch s := sel.(type) {
			case *ast.Field:
				collect(s.SelectionSet, into)
			case *ast.InlineFragment:
				collect(s.SelectionSet, into)
			case *ast.FragmentSpread:
				if !into[s.Name] {
					into[s.Name] = true
					if f := doc.Fragments.ForName(s.Name); f != nil {
						collect(f.SelectionSet, into)
					}
				}
			}
		}
	}
	// the parent of a root selection is THE definition of that type: the one registered under its name
	for opn, rd := range map[string]*ast.Definition{"query": schema.Query, "mutation": schema.Mutation, "subscription": schema.Subscription} {
		if rd != nil && schema.Types[rd.Name] != rd {
			l.bad("Schema.root("+opn+")", "not-the-registered-definition", fmt.Sprintf("%s root %s (%p)", opn, rd.Name, rd), fmt.Sprintf("Types[%s] (%p)", rd.Name, schema.Types[rd.Name]))
		}
	}
	for _, op := range doc.Operations {
		for _, vd := range op.VariableDefinitions {
			l.opOf[vd] = op
		}
		l.reach[op] = map[string]bool{}
		collect(op.SelectionSet, l.reach[op])
	}
	for _, op := range doc.Operations {
		l.curOp, l.inFrag = op, ""
		var root *ast.Definition
		loc := ast.LocationQuery
		switch op.Operation {
		case ast.Mutation:
			root, loc = schema.Mutation, ast.LocationMutation
		case ast.Subscription:
			root, loc = schema.Subscription, ast.LocationSubscription
		default:
			root = schema.Query
		}
		where := "operation " + op.Name
		for _, vd := range op.VariableDefinitions {
			l.checkDef("VariableDefinition.Definition", "var", vd.Definition, schema.Types[vd.Type.Name()], where+" $"+vd.Variable)
			if vd.DefaultValue != nil {
				l.value(vd.DefaultValue, vd.Type, "variable-default", where+" $"+vd.Variable+" default")
			}
			l.directives(vd.Directives, ast.LocationVariableDefinition, where+" $"+vd.Variable)
		}
		l.directives(op.Directives, loc, where)
		l.selections(root, op.SelectionSet, where)
	}
	for _, f := range doc.Fragments {
		l.curOp, l.inFrag = nil, f.Name
		where := "fragment " + f.Name
		want := schema.Types[f.TypeCondition]
		l.checkDef("FragmentDefinition.Definition", kindOf(want), f.Definition, want, where)
		l.directives(f.Directives, ast.LocationFragmentDefinition, where)
		l.selections(want, f.SelectionSet, where)
	}
}

func valKind(v *ast.Value) string {
	switch v.Kind {
	case ast.Variable:
		return "variable"
	case ast.ListValue:
		return "list"
	case ast.ObjectValue:
		return "object"
	case ast.NullValue:
		return "null"
	case ast.EnumValue:
		return "enum"
	}
	return "scalar"
}
