package mon

import (
	"reflect"

	"github.com/vektah/gqlparser/v2/ast"

	"verif/harness/internal/core"
	"verif/harness/internal/model"
)

var (
	astTypePtr     = reflect.TypeOf((*ast.Type)(nil))
	astValuePtr    = reflect.TypeOf((*ast.Value)(nil))
	astPositionPtr = reflect.TypeOf((*ast.Position)(nil))
	astSourcePtr   = reflect.TypeOf((*ast.Source)(nil))
)

// walkAST visits every *ast.Type and *ast.Value reachable from root through exported fields (each pointer once; positions and
// sources are not entered).
func walkAST(root interface{}, onType func(*ast.Type), onValue func(*ast.Value)) {
	seen := map[uintptr]bool{}
	var rec func(v reflect.Value, depth int)
	rec = func(v reflect.Value, depth int) {
		if depth > 100000 {
			return
		}
		switch v.Kind() {
		case reflect.Ptr:
			if v.IsNil() {
				return
			}
			if v.Type() == astPositionPtr || v.Type() == astSourcePtr {
				return
			}
			if seen[v.Pointer()] {
				return
			}
			seen[v.Pointer()] = true
			if v.Type() == astTypePtr && onType != nil {
				onType(v.Interface().(*ast.Type))
			}
			if v.Type() == astValuePtr && onValue != nil {
				onValue(v.Interface().(*ast.Value))
			}
			rec(v.Elem(), depth+1)
		case reflect.Interface:
			if !v.IsNil() {
				rec(v.Elem(), depth+1)
			}
		case reflect.Struct:
			for i := 0; i < v.NumField(); i++ {
				if v.Type().Field(i).PkgPath != "" {
					continue
				}
				rec(v.Field(i), depth+1)
			}
		case reflect.Slice, reflect.Array:
			for i := 0; i < v.Len(); i++ {
				rec(v.Index(i), depth+1)
			}
		case reflect.Map:
			for _, k := range v.MapKeys() {
				rec(v.MapIndex(k), depth+1)
			}
		}
	}
	rec(reflect.ValueOf(root), 0)
}

// checkTypeTexts: the text a type reference gives for itself (String, Dump - what error messages, the formatter and code
// generators print) is the type that was written: name, list levels and the non-null mark of every level, read off the
// structure by the model's own renderer.
func checkTypeTexts(x *core.Ctx, root interface{}) {
	walkAST(root, func(t *ast.Type) {
		want := model.TypeFromAST(t).String()
		x.Count("type_texts_compared")
		if got := t.String(); got != want {
			x.Violate("tree-differs(type-text:String)", got, want)
		} else if got := t.Dump(); got != want {
			x.Violate("tree-differs(type-text:Dump)", got, want)
		}
		if t.Elem != nil && t.Elem.Elem != nil && t.Elem.Elem.Elem != nil {
			x.Count("type_texts_compared_three_list_levels")
		}
	}, nil)
}
