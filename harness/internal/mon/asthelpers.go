package mon

import (
	"fmt"
	"reflect"
	"strings"

	"github.com/vektah/gqlparser/v2/ast"

	"verif/harness/internal/core"
	"verif/harness/internal/model"
)

var (
	astTypePtr     = reflect.TypeOf((*ast.Type)(nil))
	astValuePtr    = reflect.TypeOf((*ast.Value)(nil))
	astPositionPtr = reflect.TypeOf((*ast.Position)(nil))
	astSourcePtr   = reflect.TypeOf((*ast.Source)(nil))
	astCommentsPtr = reflect.TypeOf((*ast.CommentGroup)(nil))
)

// walkAST visits every *ast.Type and *ast.Value reachable from root through exported fields (each pointer once; positions and
// sources are not entered).
func walkAST(root interface{}, onType func(*ast.Type), onValue func(*ast.Value)) {
	seen := map[uintptr]bool{}
	var rec func(v reflect.Value, depth int)
	rec = func(v reflect.Value, depth int) {
		if depth > 100000 {
			return
		}
		switch v.Kind() {
		case reflect.Ptr:
			if v.IsNil() {
				return
			}
			if v.Type() == astPositionPtr || v.Type() == astSourcePtr {
				return
			}
			if seen[v.Pointer()] {
				return
			}
			seen[v.Pointer()] = true
			if v.Type() == astTypePtr && onType != nil {
				onType(v.Interface().(*ast.Type))
			}
			if v.Type() == astValuePtr && onValue != nil {
				onValue(v.Interface().(*ast.Value))
			}
			rec(v.Elem(), depth+1)
		case reflect.Interface:
			if !v.IsNil() {
				rec(v.Elem(), depth+1)
			}
		case reflect.Struct:
			for i := 0; i < v.NumField(); i++ {
				if v.Type().Field(i).PkgPath != "" {
					continue
				}
				rec(v.Field(i), depth+1)
			}
		case reflect.Slice, reflect.Array:
			for i := 0; i < v.Len(); i++ {
				rec(v.Index(i), depth+1)
			}
		case reflect.Map:
			for _, k := range v.MapKeys() {
				rec(v.MapIndex(k), depth+1)
			}
		}
	}
	rec(reflect.ValueOf(root), 0)
}

// checkTypeTexts: the text a type reference gives for itself (String, Dump - what error messages, the formatter and code
// generators print) is the type that was written: name, list levels and the non-null mark of every level, read off the
// structure by the model's own renderer.
func checkTypeTexts(x *core.Ctx, root interface{}) {
	walkAST(root, func(t *ast.Type) {
		want := model.TypeFromAST(t).String()
		x.Count("type_texts_compared")
		if got := t.String(); got != want {
			x.Violate("tree-differs(type-text:String)", got, want)
		} else if got := t.Dump(); got != want {
			x.Violate("tree-differs(type-text:Dump)", got, want)
		}
		if t.Elem != nil && t.Elem.Elem != nil && t.Elem.Elem.Elem != nil {
			x.Count("type_texts_compared_three_list_levels")
		}
	}, nil)
}

// jsonDeepDiff walks two values in parallel through everything encoding/json would carry (exported fields not tagged "-";
// nil and empty slices and maps alike; positions skipped: they point into a Source that is not part of the encoding) and
// returns the path and a description of the first difference ("" when there is none). Pointer pairs are visited once.
func jsonDeepDiff(a, b interface{}) (string, string) {
	type pair struct{ x, y uintptr }
	seen := map[pair]bool{}
	var rec func(x, y reflect.Value, path string, depth int) (string, string)
	rec = func(x, y reflect.Value, path string, depth int) (string, string) {
		if depth > 200000 {
			return "", ""
		}
		if x.IsValid() != y.IsValid() {
			return path, "present on one side only"
		}
		if !x.IsValid() {
			return "", ""
		}
		if x.Type() != y.Type() {
			return path, fmt.Sprintf("%s before encoding, %s after decoding", x.Type(), y.Type())
		}
		switch x.Kind() {
		case reflect.Ptr:
			if x.Type() == astPositionPtr || x.Type() == astSourcePtr || x.Type() == astCommentsPtr {
				// positions point into a Source that is not part of the encoding; comments are not among the things the
				// round trip promises (the decoders of operations, fragments and fields do not read them)
				return "", ""
			}
			if x.IsNil() != y.IsNil() {
				return path, fmt.Sprintf("nil before encoding: %v, nil after decoding: %v", x.IsNil(), y.IsNil())
			}
			if x.IsNil() {
				return "", ""
			}
			p := pair{x.Pointer(), y.Pointer()}
			if seen[p] {
				return "", ""
			}
			seen[p] = true
			return rec(x.Elem(), y.Elem(), path, depth+1)
		case reflect.Interface:
			if x.IsNil() != y.IsNil() {
				return path, "nil on one side only"
			}
			if x.IsNil() {
				return "", ""
			}
			return rec(x.Elem(), y.Elem(), path, depth+1)
		case reflect.Struct:
			for i := 0; i < x.NumField(); i++ {
				f := x.Type().Field(i)
				if f.PkgPath != "" || strings.HasPrefix(f.Tag.Get("json"), "-") {
					continue
				}
				if w, d := rec(x.Field(i), y.Field(i), path+"."+f.Name, depth+1); w != "" {
					return w, d
				}
			}
		case reflect.Slice, reflect.Array:
			if x.Len() != y.Len() {
				return path, fmt.Sprintf("%d items before encoding, %d after decoding", x.Len(), y.Len())
			}
			for i := 0; i < x.Len(); i++ {
				if w, d := rec(x.Index(i), y.Index(i), path+"[]", depth+1); w != "" {
					return w, d
				}
			}
		case reflect.Map:
			if x.Len() != y.Len() {
				return path, fmt.Sprintf("%d keys before encoding, %d after decoding", x.Len(), y.Len())
			}
			for _, k := range x.MapKeys() {
				if w, d := rec(x.MapIndex(k), y.MapIndex(k), path+"{}", depth+1); w != "" {
					return w, d
				}
			}
		default:
			if x.CanInterface() && y.CanInterface() && !reflect.DeepEqual(x.Interface(), y.Interface()) {
				return path, fmt.Sprintf("%v before encoding, %v after decoding", x.Interface(), y.Interface())
			}
		}
		return "", ""
	}
	return rec(reflect.ValueOf(a), reflect.ValueOf(b), "doc", 0)
}
