package mon

import (
	"crypto/sha1"
	"encoding/hex"
	"fmt"
	"os"
	"sort"
	"strings"

	gqlparser "github.com/vektah/gqlparser/v2"
	"github.com/vektah/gqlparser/v2/ast"
	"github.com/vektah/gqlparser/v2/gqlerror"
	"github.com/vektah/gqlparser/v2/parser"
	"github.com/vektah/gqlparser/v2/validator"

	"verif/harness/internal/core"
	"verif/harness/internal/dgen"
	"verif/harness/internal/model"
	"verif/harness/internal/tsys"
)

// C10 — validation is deterministic and repeatable.
const c10Replicas = 4 // every case list runs in this many worker processes

func init() {
	core.Register(&core.Monitor{
		ID: "C10",
		Rule: "invalid-biased (schema text, document text) pairs (1-3 injected faults with near-miss names that have several equidistant 'did you mean' candidates, many conflicting field pairs, type-blind documents) and single-fault schema texts; " +
			"each pair is validated k times from fresh parses (schema reloaded on alternate repeats), the already validated tree is compared with a fresh parse (validation annotates, it must not rewrite) and validated again, for one pair in three an outline of the schema object (types with fields and arguments in order, possible types and implemented types of every name in order, directives, roots) is taken before and after the validation and must be the same (what a validation leaves in the schema is history for the next one), and the whole case list runs in 4 worker processes, each in a different order (forward, backward, two shuffles), whose per-case digests the driver compares; " +
			"the canonical serialization covers rule, message, every location and the order of the list; LoadSchema errors are compared the same way. A difference on any axis is a violation. " +
			"distinct = distinct error-list digests seen; non-trivial = cases whose error list is non-empty",
		Assumptions: []string{
			"Go randomises map iteration order per iteration and the hash seed per process, so in-process repetition and cross-process comparison are both exercised",
		},
		Shards:          func(tier string) int { return 16 },
		Run:             c10Run,
		Check:           c10Check,
		Finish:          c10Finish,
		DistinctClasses: []string{"digest"},
		MinEvaluations:  func(tier string) int64 { return 2000 },
		RequiredCounts:  []string{"pairs_with_errors", "with_suggestions", "revalidations", "schema_load_errors", "cross_process_cases"},
	})
}

func c10Count(x *core.Ctx) int {
	if x.Quick() {
		return 2500 // per part; 4 parts = 10k cases, x4 replicas
	}
	return 40000
}

// c10Case builds case idx of a part: a pure function of (seed, part, idx).
func c10Case(seed uint64, part, idx int) *core.Case {
	r := core.NewRand(seed, core.HashString("C10"), uint64(part), uint64(idx))
	rn := &model.Renderer{}
	items := tsys.Schema(r, &tsys.GenOpts{Extensions: idx%3 == 0, Small: idx%4 == 0})
	if idx%5 == 4 {
		// a faulted schema: LoadSchema's error must be stable
		all := append(append([]tsys.Fault{}, tsys.Faults...), tsys.ExtraFaults...)
		f := all[r.Intn(len(all))]
		if out, _, ok := f.Inject(r, tsys.CloneItems(items)); ok {
			return core.NewCase("schema", "schema", rn.RenderSDoc(&model.SDoc{Items: out}))
		}
	}
	if idx%50 == 49 {
		// a schema with more types than any truncation constant someone might pick for candidate lists, many of them one
		// edit apart, and documents that misspell them
		var b strings.Builder
		n := 110 + r.Intn(120)
		b.WriteString("type Query { t0: T0 }\n")
		for k := 0; k < n; k++ {
			fmt.Fprintf(&b, "type T%d { f%d: Int f%dx: Int t: T%d }\n", k, k, k, (k+1)%n)
		}
		k1, k2 := r.Intn(n), r.Intn(n)
		doc := fmt.Sprintf("{ t0 { ...A ...B } } fragment A on T%dq { f%d } fragment B on T%d { f%dq ... on Tq%d { f0 } }", k1, k1, k2, k2, k1)
		return core.NewCase("pair", "schema", b.String(), "doc", doc)
	}
	if idx%50 == 24 {
		// many errors of one kind in sibling positions of one node (variable definitions with bad defaults and unknown
		// directives, arguments nobody declares): their order is part of the result (after seeded change C10-wave10-A: the
		// definitions of an operation walked in map order)
		var b, sel strings.Builder
		n := 4 + r.Intn(6)
		b.WriteString("query Q(")
		for k := 0; k < n; k++ {
			nm := r.Pick("v", "w", "a", "zz", "M") + fmt.Sprint(k*7%n)
			fmt.Fprintf(&b, "$%s: %s = %s @%s ", nm, r.Pick("Int", "Int!", "[Int]", "Missing", "Boolean"), r.Pick(`"s"`, "1.5", "{a: 1}", "RED", "[true]"), r.Pick("nope", "skip(if: 1)", "include", "deprecated"))
			fmt.Fprintf(&sel, " k%d: a(x: $%s, y%d: 1)", k, nm, k)
		}
		b.WriteString(") {" + sel.String() + " }")
		return core.NewCase("pair", "schema", "type Query { a(x: Int): Int }", "doc", b.String())
	}
	if idx%1250 == 23 {
		// a valid document that is merely wide: the same field a thousand and more times over. It has no errors, as the
		// same document with the field written twice has none - whatever time the comparison of the fields with each other
		// takes (after seeded change C10-wave10-C: a rule that gives up, with an error, when a deadline on the clock passes)
		n := 1500 + r.Intn(500)
		return core.NewCase("pair", "schema", "type Query { a(x: Int): Int b: Query }", "doc", "{ b {"+strings.Repeat(" a", n)+" } }", "narrow", "{ b { a a } }")
	}
	mg := tsys.Merge(items)
	g := dgen.New(r, mg, &dgen.Opts{MaxDepth: 1 + r.Intn(3), MaxOps: 1 + r.Intn(3), Introspect: idx%3 == 0})
	doc := g.Doc()
	if idx%7 == 6 {
		doc = dgen.CollisionDoc(r, mg)
	}
	if idx%7 == 5 {
		doc = dgen.CyclicCollisionDoc(r, mg)
	}
	n := 1 + r.Intn(3)
	for k := 0; k < n; k++ {
		f := dgen.Faults[r.Intn(len(dgen.Faults))]
		if r.Chance(1, 3) {
			f = c10NearMiss()[r.Intn(len(c10NearMiss()))]
		}
		f.Do(dgen.NewFCtx(r, mg, doc))
	}
	return core.NewCase("pair", "schema", rn.RenderSDoc(&model.SDoc{Items: items}), "doc", rn.RenderDoc(doc))
}

var c10nm []dgen.Fault

// c10NearMiss: the faults whose messages carry 'did you mean' lists or that produce several errors at one node.
func c10NearMiss() []dgen.Fault {
	if c10nm == nil {
		for _, f := range dgen.Faults {
			if strings.HasPrefix(f.Name, "near-miss") || f.Name == "missing-required-input-field" || f.Name == "missing-required-argument" {
				c10nm = append(c10nm, f)
			}
		}
	}
	return c10nm
}

func c10Run(x *core.Ctx) {
	parts := x.NShards / c10Replicas
	part := x.Shard % parts
	n := c10Count(x)
	// every replica of a part runs the same cases, each in its own order (forward, backward, two seeded shuffles): a result
	// that depends on what the process validated before (a cache keyed too coarsely) gives the replicas different digests
	order := make([]int, n)
	for i := range order {
		order[i] = i
	}
	switch replica := x.Shard / parts; replica {
	case 0:
	case 1:
		for i, j := 0, n-1; i < j; i, j = i+1, j-1 {
			order[i], order[j] = order[j], order[i]
		}
	default:
		order = core.NewRand(x.Seed, core.HashString("C10-order"), uint64(replica)).Perm(n)
	}
	for _, i := range order {
		c := c10Case(x.Seed, part, i)
		c.Set("id", fmt.Sprintf("%d/%d", part, i))
		x.Do(c, func() { c10Check(x, c) })
	}
}

func serializeErrs(errs gqlerror.List) string {
	var b strings.Builder
	for _, e := range errs {
		fmt.Fprintf(&b, "[%s] %s", e.Rule, e.Message)
		for _, l := range e.Locations {
			fmt.Fprintf(&b, " @%d:%d", l.Line, l.Column)
		}
		if f, ok := e.Extensions["file"]; ok {
			fmt.Fprintf(&b, " file=%v", f)
		}
		b.WriteString("\n")
	}
	return b.String()
}

func digestOf(s string) string {
	h := sha1.Sum([]byte(s))
	return hex.EncodeToString(h[:8])
}

// firstDiffErr returns the first differing line of two serialized error lists and names the kind of difference.
func errListDiffKind(a, b string) string {
	la, lb := strings.Split(a, "\n"), strings.Split(b, "\n")
	if len(la) != len(lb) {
		return "count"
	}
	sa, sb := map[string]int{}, map[string]int{}
	for i := range la {
		sa[la[i]]++
		sb[lb[i]]++
	}
	same := true
	for k, v := range sa {
		if sb[k] != v {
			same = false
		}
	}
	if same {
		return "order"
	}
	for i := range la {
		if la[i] != lb[i] {
			if strings.Contains(la[i], "Did you mean") || strings.Contains(lb[i], "Did you mean") {
				return "message(suggestions)"
			}
			return "message(" + firstWords(templateOf(strings.TrimSpace(la[i])), 4) + ")"
		}
	}
	return "other"
}

func c10Check(x *core.Ctx, c *core.Case) {
	k := 8
	if !x.Quick() {
		k = 16
	}
	if c.Get("replay") != "" || c.Get("id") == "" {
		k = 64 // a replayed case has no sibling processes: repeat more often instead
	}
	ssrc := c.Get("schema")
	load := func() (*ast.Schema, string) {
		s, err := gqlparser.LoadSchema(&ast.Source{Name: "schema.graphql", Input: ssrc})
		if err != nil {
			return nil, "LOAD-ERROR " + err.Error()
		}
		return s, ""
	}
	schema, lerr := load()
	if c.Kind == "schema" || schema == nil {
		if lerr == "" {
			x.Count("schema_case_loaded")
			return
		}
		x.Count("schema_load_errors")
		x.Nontrivial()
		for i := 0; i < k; i++ {
			if _, again := load(); again != lerr {
				x.Violate("schema-load:message", again, lerr)
				return
			}
		}
		if c.Get("id") != "" {
			// the input digest is the same function of the case's texts whatever the outcome was (a pair whose schema fails
			// to load in one process only must show as a result difference, not as a generator difference)
			x.Distinct("digest", c.Get("id")+"#"+digestOf(ssrc+"\x00"+c.Get("doc"))+"="+digestOf(lerr))
			x.Count("cross_process_cases")
		}
		return
	}
	dsrc := c.Get("doc")
	validate := func(s *ast.Schema) (*ast.QueryDocument, string) {
		doc, err := parser.ParseQuery(&ast.Source{Name: "doc.graphql", Input: dsrc})
		if err != nil {
			return nil, "PARSE-ERROR " + err.Error()
		}
		return doc, serializeErrs(validator.Validate(s, doc))
	}
	before := ""
	if core.HashString(dsrc)%3 == 0 {
		before = c10SchemaOutline(schema)
	}
	doc, first := validate(schema)
	if before != "" {
		// the schema is an input: what a validation leaves in it (a field appended, a list of possible types filtered in
		// place) is history for every later validation with that schema object
		x.Count("schemas_compared_before_and_after_validation")
		if after := c10SchemaOutline(schema); after != before {
			da, db := model.FirstDiff(after, before)
			x.Violate("schema-rewritten-by-validation", da, "before the validation: "+db)
			return
		}
	}
	if os.Getenv("VERIF_C10_DUMP") != "" {
		fmt.Fprintln(os.Stderr, "C10-DUMP\n"+first)
	}
	if strings.TrimSpace(first) != "" {
		x.Count("pairs_with_errors")
		x.Nontrivial()
	}
	if strings.Contains(first, "Did you mean") {
		x.Count("with_suggestions")
	}
	if nsrc := c.Get("narrow"); nsrc != "" {
		k = 1
		x.Count("wide_documents")
		nd, perr := parser.ParseQuery(&ast.Source{Name: "doc.graphql", Input: nsrc})
		if perr != nil {
			x.HarnessBug("narrow document does not parse")
			return
		}
		if narrow := serializeErrs(validator.Validate(schema, nd)); narrow != first {
			x.Violate("wide-document-differs-from-narrow:"+errListDiffKind(narrow, first), first, "the errors of the same selection written twice: "+narrow)
			return
		}
	}
	for i := 0; i < k; i++ {
		s := schema
		if i%2 == 1 {
			s, _ = load()
		}
		if _, again := validate(s); again != first {
			x.Violate("repeat:"+errListDiffKind(first, again), again, first)
			return
		}
	}
	if doc != nil {
		// validation annotates the tree but must not rewrite it: after validation the document still reads as written
		// (operations, selections, arguments and directives in source order, values as written)
		if fresh, perr := parser.ParseQuery(&ast.Source{Name: "doc.graphql", Input: dsrc}); perr == nil {
			x.Count("documents_compared_with_fresh_parse")
			if a, b := model.FromAST(doc).Canon(), model.FromAST(fresh).Canon(); a != b {
				da, db := model.FirstDiff(a, b)
				x.Violate("document-rewritten-by-validation", da, "as parsed: "+db)
				return
			}
		}
		// a subset of the rules gives the same errors on this tree (validated with every rule a moment ago) as on a tree
		// nothing has touched yet: what an earlier validation left on the nodes is not an input
		if fresh2, perr := parser.ParseQuery(&ast.Source{Name: "doc.graphql", Input: dsrc}); perr == nil {
			h := core.HashString(dsrc)
			sub := []validator.Rule{c18Standard[12], c18Standard[2], c18Standard[23]} // NoUnusedVariables, KnownArgumentNames, UniqueVariableNames
			if h%3 != 0 {
				sub = []validator.Rule{c18Standard[int(h>>8)%27], c18Standard[int(h>>16)%27], c18Standard[int(h>>24)%27]}
			}
			onFresh := serializeErrs(validator.Validate(schema, fresh2, sub...))
			onUsed := serializeErrs(validator.Validate(schema, doc, sub...))
			x.Count("subset_revalidations")
			if onFresh != onUsed {
				x.Violate("revalidate-subset:"+errListDiffKind(onFresh, onUsed), onUsed, "on a fresh parse: "+onFresh)
				return
			}
		}
		x.Count("revalidations")
		if again := serializeErrs(validator.Validate(schema, doc)); again != first {
			x.Violate("revalidate:"+errListDiffKind(first, again), again, first)
			return
		}
	}
	if c.Get("id") != "" { // witnesses and replays have no sibling processes
		x.Distinct("digest", c.Get("id")+"#"+digestOf(ssrc+"\x00"+dsrc)+"="+digestOf(first))
		x.Count("cross_process_cases")
	}
	if x.WantSample() && strings.Contains(first, "Did you mean") && len(dsrc) < 400 {
		x.Sample(map[string]interface{}{"document": dsrc, "errors": first, "repeats": k, "verdict": "identical error list on every repeat, on re-validation and in every worker process"})
	}
}

// c10Finish compares the per-case digests reported by the replica processes.
func c10Finish(x *core.Ctx, merged *core.Result) {
	byCase := map[string]map[string]bool{}
	inputs := map[string]map[string]bool{}
	for key := range merged.Distinct["digest"] {
		i := strings.LastIndexByte(key, '=')
		id, dg := key[:i], key[i+1:]
		if byCase[id] == nil {
			byCase[id] = map[string]bool{}
		}
		byCase[id][dg] = true
		// the same case index must have the same input text in every replica
		j := strings.LastIndexByte(id, '#')
		if inputs[id[:j]] == nil {
			inputs[id[:j]] = map[string]bool{}
		}
		inputs[id[:j]][id[j+1:]] = true
	}
	for idx, set := range inputs {
		if len(set) > 1 {
			x.HarnessBug("case generator is not a function of the seed: case " + idx + " had different texts in different workers")
			return
		}
	}
	n := 0
	for id, set := range byCase {
		if len(set) > 1 {
			n++
			if n > 3 {
				continue
			}
			var part, idx int
			fmt.Sscanf(id[:strings.LastIndexByte(id, '#')], "%d/%d", &part, &idx)
			c := c10Case(x.Seed, part, idx)
			c.Set("replay", "1")
			x.SetCurrent(c)
			x.Violate("process:digest", fmt.Sprintf("case %s produced %d different error lists in different worker processes", id, len(set)), "one error list")
		}
	}
	merged.Counts["cases_compared_across_processes"] = int64(len(byCase))
}

// c10SchemaOutline lists what a validation reads from a schema, in the order the schema holds it: every type with its
// fields (name, type, arguments), enum values, interfaces and members, the possible types and implemented types of every
// name, the directives with their arguments and locations, the root types.
func c10SchemaOutline(s *ast.Schema) string {
	var b strings.Builder
	names := make([]string, 0, len(s.Types))
	for n := range s.Types {
		names = append(names, n)
	}
	sort.Strings(names)
	for _, n := range names {
		d := s.Types[n]
		fmt.Fprintf(&b, "type %s %s impl=%v members=%v\n", d.Kind, n, d.Interfaces, d.Types)
		for _, f := range d.Fields {
			fmt.Fprintf(&b, "  %s: %s (", f.Name, f.Type.String())
			for _, a := range f.Arguments {
				fmt.Fprintf(&b, "%s: %s,", a.Name, a.Type.String())
			}
			fmt.Fprintf(&b, ") dirs=%d\n", len(f.Directives))
		}
		for _, ev := range d.EnumValues {
			fmt.Fprintf(&b, "  = %s\n", ev.Name)
		}
		b.WriteString("  possible:")
		for _, p := range s.PossibleTypes[n] {
			b.WriteString(" " + p.Name)
		}
		b.WriteString("\n  implements:")
		for _, p := range s.Implements[n] {
			b.WriteString(" " + p.Name)
		}
		b.WriteString("\n")
	}
	dn := make([]string, 0, len(s.Directives))
	for n := range s.Directives {
		dn = append(dn, n)
	}
	sort.Strings(dn)
	for _, n := range dn {
		d := s.Directives[n]
		fmt.Fprintf(&b, "directive @%s %v repeatable=%v (", n, d.Locations, d.IsRepeatable)
		for _, a := range d.Arguments {
			fmt.Fprintf(&b, "%s: %s,", a.Name, a.Type.String())
		}
		b.WriteString(")\n")
	}
	for _, r := range []*ast.Definition{s.Query, s.Mutation, s.Subscription} {
		if r != nil {
			b.WriteString("root " + r.Name + "\n")
		}
	}
	return b.String()
}
