package mon

import (
	"fmt"
	"reflect"
	"sort"
	"strconv"
	"strings"
	"sync"
	"sync/atomic"

	gqlparser "github.com/vektah/gqlparser/v2"
	"github.com/vektah/gqlparser/v2/ast"
	"github.com/vektah/gqlparser/v2/formatter"
	"github.com/vektah/gqlparser/v2/parser"
	"github.com/vektah/gqlparser/v2/validator"
	"github.com/vektah/gqlparser/v2/validator/rules"
	"github.com/vektah/gqlparser/v2/verifhook"

	"verif/harness/internal/core"
	"verif/harness/internal/dgen"
	"verif/harness/internal/model"
	"verif/harness/internal/tsys"
)

// C11 — a loaded schema is read-only: shared across goroutines without races or drift.
func init() {
	core.Register(&core.Monitor{
		ID: "C11",
		Rule: "one generated schema (defaults, suggestions, abstract types, custom scalars) is loaded once per round and shared by G in {2,4,8,16,32} goroutines released together, each running its own seeded mix of operations on its own documents: parse+validate (valid and faulted documents, default rule set and explicit rule lists), " +
			"VariableValues on own maps, Field/Directive.ArgumentMap over whole documents, FormatSchema, possible-type and implements lookups; the build uses the Go race detector and the hooks inject runtime.Gosched with a seeded probability at walker events. " +
			"Oracles: (1) any race report whose stacks touch gqlparser; (2) a deep reflective snapshot of everything reachable from the *ast.Schema (scalars, strings, maps in key order, pointer structure, slices dumped up to their CAPACITY) taken before and after each round must be identical; " +
			"(3) every concurrent call must return exactly what the same call returned alone before the round, and again alone after it; a sequential replay of the same history is checked the same way; every list of rounds is played by two worker processes in opposite orders (warm and cold rounds swapped), and what a call returned alone must be the same in both. " +
			"distinct = distinct completion-order signatures of the goroutines plus distinct operation kinds; non-trivial = concurrent operations executed",
		Assumptions: []string{
			"interleavings are those the Go scheduler produced in the runs made (diversified by yields); the race detector's happens-before analysis makes detection of an unsynchronised write largely independent of the exact interleaving",
			"documents hitting the recorded ArgumentMap finding (F-C15-01) panic identically alone and concurrently; the panic text is the compared result",
		},
		Shards:          func(tier string) int { return 2 * c11Parts },
		Parallel:        4,
		Run:             c11Run,
		Check:           c11Check,
		Finish:          c11Finish,
		DistinctClasses: []string{"completion-order", "op-kind"},
		MinEvaluations:  func(tier string) int64 { return 20 },
		RequiredCounts:  []string{"concurrent_ops", "cold_rounds", "op:schema-argmaps", "op:format-builtin", "rounds", "snapshots_compared", "yield_rounds", "op:deep-argmap", "op:validate", "op:validate-rules", "op:variables", "op:argmap", "op:format", "op:lookups"},
		Race:            true,
		ShardTimeoutS:   2400,
		CaseStallS:      900, // one case is a whole round (up to 32 goroutines under the race detector): minutes on a loaded machine
	})
}

type c11Op struct {
	kind   string
	doc    string
	vars   map[string]interface{}
	ruleIx []int
}

func c11Run(x *core.Ctx) {
	rounds := 15 // x8 shards = 120 rounds
	opsPer := 40
	if !x.Quick() {
		rounds, opsPer = 75, 120
	}
	// every list of rounds is played by two worker processes: forward, and - with warm and cold rounds swapped - backward
	part, replica := x.Shard%c11Parts, x.Shard/c11Parts
	r := x.Rand(uint64(part))
	gs := []int{2, 4, 8, 16, 32}
	var cases []*core.Case
	for i := 0; i < rounds; i++ {
		cold := []int{1, 0, 0, 1, 0}[i%5]
		if replica == 1 {
			cold = 1 - cold
		}
		cases = append(cases, core.NewCase("round", "seed", fmt.Sprint(r.Uint64()%1000000007), "g", strconv.Itoa(gs[(i+part)%len(gs)]), "ops", strconv.Itoa(opsPer), "yield", strconv.Itoa([]int{0, 2000, 20000}[i%3]), "cold", strconv.Itoa(cold)))
	}
	for i := range cases {
		c := cases[i]
		if replica == 1 {
			c = cases[len(cases)-1-i]
		}
		x.Do(c, func() { c11Check(x, c) })
	}
}

const c11Parts = 8

// c11Finish: a call alone returns the same thing in every process, whatever that process did before.
func c11Finish(x *core.Ctx, merged *core.Result) {
	outs := map[string]map[string]bool{}
	for key := range merged.Distinct["alone"] {
		i := strings.LastIndexByte(key, '=')
		if outs[key[:i]] == nil {
			outs[key[:i]] = map[string]bool{}
		}
		outs[key[:i]][key[i+1:]] = true
	}
	ins := map[string]map[string]bool{}
	for id := range outs {
		j := strings.LastIndexByte(id, '#')
		if ins[id[:j]] == nil {
			ins[id[:j]] = map[string]bool{}
		}
		ins[id[:j]][id[j+1:]] = true
	}
	for id, set := range ins {
		if len(set) > 1 {
			x.HarnessBug("round generator is not a function of the seed: " + id + " had different operations in different workers")
			return
		}
	}
	n := 0
	for id, set := range outs {
		if len(set) > 1 {
			if n++; n > 3 {
				continue
			}
			parts := strings.Split(id[:strings.LastIndexByte(id, '#')], "/")
			x.SetCurrent(core.NewCase("round", "seed", parts[0], "note", "played in two worker processes in opposite orders; compare the sequential results"))
			x.Violate("result-drift:another-process:"+parts[2], fmt.Sprintf("round %s goroutine %s: the %s calls, each made alone, returned different results in two worker processes with different histories", parts[0], parts[1], parts[2]), "the same results")
		}
	}
	merged.Counts["alone_results_compared_across_processes"] = int64(len(outs))
}

// ---------------------------------------------------------------- deep snapshot

type snapshotter struct {
	b   strings.Builder
	ids map[uintptr]int
}

func (s *snapshotter) dump(v reflect.Value, depth int) {
	if depth > 60 {
		s.b.WriteString("<deep>")
		return
	}
	switch v.Kind() {
	case reflect.Ptr:
		if v.IsNil() {
			s.b.WriteString("nil")
			return
		}
		if id, ok := s.ids[v.Pointer()]; ok {
			fmt.Fprintf(&s.b, "&%d", id)
			return
		}
		id := len(s.ids) + 1
		s.ids[v.Pointer()] = id
		fmt.Fprintf(&s.b, "&%d=", id)
		s.dump(v.Elem(), depth+1)
	case reflect.Interface:
		if v.IsNil() {
			s.b.WriteString("nil")
			return
		}
		fmt.Fprintf(&s.b, "(%s)", v.Elem().Type())
		s.dump(v.Elem(), depth+1)
	case reflect.Struct:
		t := v.Type()
		s.b.WriteString(t.Name() + "{")
		for i := 0; i < t.NumField(); i++ {
			if !t.Field(i).IsExported() {
				continue
			}
			s.b.WriteString(t.Field(i).Name + ":")
			s.dump(v.Field(i), depth+1)
			s.b.WriteString(";")
		}
		s.b.WriteString("}")
	case reflect.Slice:
		if v.IsNil() {
			s.b.WriteString("nil[]")
			return
		}
		fmt.Fprintf(&s.b, "[len=%d cap=%d:", v.Len(), v.Cap())
		// up to capacity: an append into spare capacity of a schema-owned array is a write to the schema
		full := v.Slice(0, v.Cap())
		for i := 0; i < full.Len(); i++ {
			if i == v.Len() {
				s.b.WriteString("|spare:")
			}
			s.dump(full.Index(i), depth+1)
			s.b.WriteString(",")
		}
		s.b.WriteString("]")
	case reflect.Array:
		s.b.WriteString("[")
		for i := 0; i < v.Len(); i++ {
			s.dump(v.Index(i), depth+1)
			s.b.WriteString(",")
		}
		s.b.WriteString("]")
	case reflect.Map:
		if v.IsNil() {
			s.b.WriteString("nilmap")
			return
		}
		keys := v.MapKeys()
		sort.Slice(keys, func(i, j int) bool { return fmt.Sprint(keys[i].Interface()) < fmt.Sprint(keys[j].Interface()) })
		s.b.WriteString("map{")
		for _, k := range keys {
			fmt.Fprintf(&s.b, "%v:", k.Interface())
			s.dump(v.MapIndex(k), depth+1)
			s.b.WriteString(";")
		}
		s.b.WriteString("}")
	case reflect.String:
		fmt.Fprintf(&s.b, "%q", v.String())
	case reflect.Bool:
		fmt.Fprint(&s.b, v.Bool())
	case reflect.Int, reflect.Int8, reflect.Int16, reflect.Int32, reflect.Int64:
		fmt.Fprint(&s.b, v.Int())
	case reflect.Uint, reflect.Uint8, reflect.Uint16, reflect.Uint32, reflect.Uint64:
		fmt.Fprint(&s.b, v.Uint())
	case reflect.Float32, reflect.Float64:
		fmt.Fprint(&s.b, v.Float())
	case reflect.Func, reflect.Chan, reflect.UnsafePointer:
		s.b.WriteString("<" + v.Kind().String() + ">")
	default:
		fmt.Fprintf(&s.b, "<%s>", v.Kind())
	}
}

// Snapshot is a canonical dump of everything reachable from the schema.
func snapshotSchema(s *ast.Schema) string {
	sn := &snapshotter{ids: map[uintptr]int{}}
	sn.dump(reflect.ValueOf(s), 0)
	return sn.b.String()
}

// firstDifference returns a window around the first differing byte of two dumps.
func firstDifference(a, b string) (string, string) {
	n := len(a)
	if len(b) < n {
		n = len(b)
	}
	i := 0
	for i < n && a[i] == b[i] {
		i++
	}
	lo := i - 160
	if lo < 0 {
		lo = 0
	}
	cut := func(s string) string {
		hi := i + 80
		if hi > len(s) {
			hi = len(s)
		}
		if lo > len(s) {
			return ""
		}
		return s[lo:hi]
	}
	return cut(a), cut(b)
}

// snapshotPathKind names the kind of node at which two dumps differ (last struct field name before the difference).
func snapshotPathKind(a, b string) string {
	n := len(a)
	if len(b) < n {
		n = len(b)
	}
	i := 0
	for i < n && a[i] == b[i] {
		i++
	}
	pre := a[:i]
	// last "Name:" before the difference
	j := strings.LastIndexAny(pre, ";{")
	field := pre[j+1:]
	if k := strings.IndexByte(field, ':'); k >= 0 {
		field = field[:k]
	}
	if len(field) > 30 || field == "" {
		field = "?"
	}
	if strings.Contains(pre[max(0, len(pre)-40):], "spare:") || strings.Contains(pre[max(0, len(pre)-30):], "cap=") {
		return field + "(slice-capacity)"
	}
	return field
}

// ---------------------------------------------------------------- operations

// c11SharedRules is one rule list with spare capacity that every goroutine passes prefixes of (a server keeps its tiers of
// rules as sub-slices of one list): the caller's list is the caller's.
var c11SharedRules = func() []validator.Rule {
	l := make([]validator.Rule, 0, len(c18Standard)+16)
	return append(l, c18Standard...)
}()

func c11RuleSubset(ix []int) []validator.Rule {
	if len(ix) > 0 && ix[0]%2 == 0 {
		return c11SharedRules[:3+(ix[0]/2+len(ix))%(len(c11SharedRules)-3)]
	}
	var out []validator.Rule
	for _, i := range ix {
		out = append(out, c18Standard[i%len(c18Standard)])
	}
	out = append(out, rules.ValuesOfCorrectTypeRuleWithoutSuggestions)
	return out
}

// c11Exec runs one operation against the shared schema and returns a canonical result string.
var (
	c11DeepOnce sync.Once
	c11Deep     *ast.Schema
)

// c11DeepSchema is a second, process-wide shared schema with a custom-scalar argument.
func c11DeepSchema() *ast.Schema {
	c11DeepOnce.Do(func() {
		c11Deep = gqlparser.MustLoadSchema(&ast.Source{Name: "deep.graphql", Input: "scalar JSON type Query { j(v: JSON): Int }"})
	})
	return c11Deep
}

func c11Exec(schema *ast.Schema, op *c11Op) (res string) {
	defer func() {
		if v := recover(); v != nil {
			res = "PANIC: " + core.PanicClass(fmt.Sprint(v))
		}
	}()
	switch op.kind {
	case "deep-argmap":
		deep := c11DeepSchema()
		doc, err := parser.ParseQuery(&ast.Source{Name: "deep.graphql", Input: op.doc})
		if err != nil {
			return "PARSE: " + err.Error()
		}
		if errs := validator.Validate(deep, doc); len(errs) > 0 {
			return "INVALID: " + serializeErrs(errs)
		}
		f := doc.Operations[0].SelectionSet[0].(*ast.Field)
		out := ""
		for k := 0; k < 30; k++ {
			var v interface{} = f.ArgumentMap(nil)["v"]
			n := 0
			for {
				l, ok := v.([]interface{})
				if !ok || len(l) != 1 {
					break
				}
				v = l[0]
				n++
			}
			if s := fmt.Sprintf("DEPTH %d LEAF %v", n, v); k == 0 {
				out = s
			} else if s != out {
				return "UNSTABLE: " + out + " then " + s
			}
		}
		return out
	case "validate", "validate-rules":
		doc, err := parser.ParseQuery(&ast.Source{Name: "doc.graphql", Input: op.doc})
		if err != nil {
			return "PARSE: " + err.Error()
		}
		if op.kind == "validate-rules" {
			return serializeErrs(validator.Validate(schema, doc, c11RuleSubset(op.ruleIx)...))
		}
		return serializeErrs(validator.Validate(schema, doc))
	case "variables", "argmap":
		doc, err := parser.ParseQuery(&ast.Source{Name: "doc.graphql", Input: op.doc})
		if err != nil {
			return "PARSE: " + err.Error()
		}
		if errs := validator.Validate(schema, doc); len(errs) > 0 {
			return "INVALID: " + serializeErrs(errs)
		}
		var b strings.Builder
		for _, o := range doc.Operations {
			in := map[string]interface{}{}
			for k, v := range op.vars {
				if strings.HasPrefix(k, o.Name+".") {
					in[strings.TrimPrefix(k, o.Name+".")] = deepCopy(v)
				}
			}
			coerced, verr := validator.VariableValues(schema, o, in)
			if verr != nil {
				b.WriteString("VARERR " + verr.Error() + "\n")
				continue
			}
			b.WriteString("VARS " + showMap(coerced) + "\n")
			// what a call returns belongs to its caller: resolvers add to and overwrite these maps; other calls must not see it
			defer func(mp map[string]interface{}) {
				if mp != nil {
					mp["scribbledByCaller"] = op.doc
				}
			}(coerced)
			if op.kind == "argmap" {
				var walk func(ss ast.SelectionSet, depth int)
				seen := map[string]bool{}
				walk = func(ss ast.SelectionSet, depth int) {
					for _, sel := range ss {
						switch s := sel.(type) {
						case *ast.Field:
							if s.Definition != nil {
								am := s.ArgumentMap(coerced)
								b.WriteString(s.Name + "(" + showMap(am) + ")")
								am["scribbledByCaller"] = s.Name
							}
							for _, d := range s.Directives {
								if d.Definition != nil {
									am := d.ArgumentMap(coerced)
									b.WriteString("@" + d.Name + "(" + showMap(am) + ")")
									am["scribbledByCaller"] = d.Name
								}
							}
							walk(s.SelectionSet, depth+1)
						case *ast.InlineFragment:
							walk(s.SelectionSet, depth+1)
						case *ast.FragmentSpread:
							if s.Definition != nil && !seen[s.Name] {
								seen[s.Name] = true
								walk(s.Definition.SelectionSet, depth+1)
							}
						}
					}
				}
				walk(o.SelectionSet, 0)
				b.WriteString("\n")
			}
		}
		return b.String()
	case "format":
		return fmtSchema(schema, nil)
	case "format-nodesc":
		return fmtSchema(schema, []formatter.FormatterOption{formatter.WithoutDescription(), formatter.WithIndent("  ")})
	case "format-builtin":
		return fmtSchema(schema, []formatter.FormatterOption{formatter.WithBuiltin(), formatter.WithComments()})
	case "schema-argmaps":
		// the arguments of the directives applied IN the schema (servers read @deprecated reasons, auth roles, ... this way)
		var b strings.Builder
		dirs := func(where string, ds ast.DirectiveList) {
			for _, d := range ds {
				if d.Definition == nil {
					continue
				}
				func() {
					defer func() {
						if v := recover(); v != nil {
							b.WriteString(where + "@" + d.Name + " PANIC " + core.PanicClass(fmt.Sprint(v)) + ";")
						}
					}()
					am := d.ArgumentMap(nil)
					b.WriteString(where + "@" + d.Name + "(" + showMap(am) + ");")
					am["scribbledByCaller"] = where
				}()
			}
		}
		var names []string
		for n := range schema.Types {
			names = append(names, n)
		}
		sort.Strings(names)
		dirs("schema", schema.SchemaDirectives)
		for _, n := range names {
			d := schema.Types[n]
			dirs(n, d.Directives)
			for _, f := range d.Fields {
				dirs(n+"."+f.Name, f.Directives)
				for _, a := range f.Arguments {
					dirs(n+"."+f.Name+"("+a.Name+")", a.Directives)
				}
			}
			for _, ev := range d.EnumValues {
				dirs(n+"."+ev.Name, ev.Directives)
			}
		}
		var dn []string
		for n := range schema.Directives {
			dn = append(dn, n)
		}
		sort.Strings(dn)
		for _, n := range dn {
			for _, a := range schema.Directives[n].Arguments {
				dirs("@"+n+"("+a.Name+")", a.Directives)
			}
		}
		return b.String()
	case "lookups":
		var b strings.Builder
		var names []string
		for n := range schema.Types {
			names = append(names, n)
		}
		sort.Strings(names)
		for _, n := range names {
			d := schema.Types[n]
			b.WriteString(n + ":")
			for _, p := range schema.GetPossibleTypes(d) {
				b.WriteString(p.Name + ",")
			}
			b.WriteString("/")
			for _, p := range schema.GetImplements(d) {
				b.WriteString(p.Name + ",")
			}
			b.WriteString(";")
		}
		return b.String()
	}
	return "?"
}

func deepCopy(v interface{}) interface{} {
	switch t := v.(type) {
	case []interface{}:
		out := make([]interface{}, len(t))
		for i := range t {
			out[i] = deepCopy(t[i])
		}
		return out
	case map[string]interface{}:
		out := make(map[string]interface{}, len(t))
		for k, e := range t {
			out[k] = deepCopy(e)
		}
		return out
	}
	return v
}

// c11BuildOps prepares the operation list of one goroutine (inputs only; nothing is shared between goroutines).
func c11BuildOps(r *core.Rand, mg *tsys.Merged, n int) []*c11Op {
	rn := &model.Renderer{}
	var ops []*c11Op
	for i := 0; i < n; i++ {
		op := &c11Op{}
		switch k := r.Intn(12); {
		case k < 4:
			op.kind = "validate"
		case k < 6:
			op.kind = "validate-rules"
			for j := 0; j < 2+r.Intn(5); j++ {
				op.ruleIx = append(op.ruleIx, r.Intn(27))
			}
		case k < 8:
			op.kind = "variables"
		case k < 10:
			op.kind = "argmap"
		case k < 11:
			op.kind = "format"
			switch r.Intn(4) {
			case 0:
				op.kind = "schema-argmaps"
			case 1:
				op.kind = "format-builtin"
			case 2:
				op.kind = "format-nodesc"
			}
		default:
			op.kind = "lookups"
		}
		if op.kind == "format" || op.kind == "format-nodesc" || op.kind == "format-builtin" || op.kind == "lookups" || op.kind == "schema-argmaps" {
			ops = append(ops, op)
			continue
		}
		g := dgen.New(r, mg, &dgen.Opts{MaxDepth: 1 + r.Intn(3), MaxOps: 1 + r.Intn(2), Introspect: i%4 == 0})
		doc := g.Doc()
		if len(doc.Defs) == 0 {
			continue
		}
		if strings.HasPrefix(op.kind, "validate") && r.Chance(2, 3) {
			for k := 0; k < 1+r.Intn(3); k++ {
				f := dgen.Faults[r.Intn(len(dgen.Faults))]
				if r.Chance(1, 2) {
					// misspelt names: the 'did you mean' machinery (distances, sorting, candidate lists) runs concurrently
					f = c10NearMiss()[r.Intn(len(c10NearMiss()))]
				}
				f.Do(dgen.NewFCtx(r, mg, doc))
			}
		}
		if op.kind == "variables" || op.kind == "argmap" {
			op.vars = map[string]interface{}{}
			for _, d := range doc.Defs {
				if d.IsFragment {
					continue
				}
				for _, v := range d.Vars {
					switch k := r.Intn(4); {
					case k == 0 && !v.Type.NonNull:
						op.vars[d.Name+"."+v.Name] = nil
					case k == 1 && (!v.Type.NonNull || v.Default != nil):
					default:
						nn := *v.Type
						nn.NonNull = true
						op.vars[d.Name+"."+v.Name] = goValue(tsys.GenValue(r, g.Lookup, &nn, 2, false))
					}
				}
			}
		}
		if (op.kind == "variables" || op.kind == "argmap") && len(op.vars) > 0 && r.Chance(1, 3) {
			// one supplied value is replaced by something no input type accepts at some depth: coercion answers with an error
			// that carries a path, which the caller reads while other goroutines coerce their own variables
			var keys []string
			for k := range op.vars {
				keys = append(keys, k)
			}
			sort.Strings(keys)
			k := keys[r.Intn(len(keys))]
			op.vars[k] = []interface{}{map[string]interface{}{"noSuchField": []interface{}{1, map[string]interface{}{"deeper": true}}}, op.vars[k]}
		}
		op.doc = rn.RenderDoc(doc)
		ops = append(ops, op)
	}
	return ops
}

func c11Check(x *core.Ctx, c *core.Case) {
	if c.Kind != "round" {
		return
	}
	seed, _ := strconv.ParseUint(c.Get("seed"), 10, 64)
	G, _ := strconv.Atoi(c.Get("g"))
	nops, _ := strconv.Atoi(c.Get("ops"))
	yield, _ := strconv.Atoi(c.Get("yield"))
	r := core.NewRand(seed, 11)
	items := tsys.Schema(r, &tsys.GenOpts{Descs: true, Extensions: true, Hostile: seed%2 == 0}) // hostile: descriptions with control and non-ASCII characters, which the formatter escapes
	if seed%4 == 1 {
		// one type serves as query AND mutation root (the loader allows it): walks of different operation kinds meet on it
		for _, it := range items {
			if it.Kind == "schema" && !it.Extend && len(it.OpTypes) == 1 && it.OpTypes[0].Op == "query" {
				it.OpTypes = append(it.OpTypes, model.OpType{Op: "mutation", Type: it.OpTypes[0].Type})
				x.Count("rounds_with_shared_root_type")
			}
		}
	}
	if seed%4 == 2 {
		// no query root at all, but an ordinary type that happens to be called Query (only mutations can be run)
		mut, hasQ := "", false
		var rest []*model.Item
		var schemaDirs []model.Dir
		for _, it := range items {
			if it.Kind == "schema" {
				for _, ot := range it.OpTypes {
					if ot.Op == "mutation" {
						mut = ot.Type
					}
				}
				schemaDirs = append(schemaDirs, it.Dirs...)
				continue
			}
			if it.Kind == "type" && it.Name == "Query" {
				hasQ = true
			}
			if it.Kind == "type" && it.Name == "Mutation" && mut == "" {
				mut = "Mutation"
			}
			rest = append(rest, it)
		}
		if mut == "" {
			mut = "Writes"
			rest = append(rest, &model.Item{Kind: "type", Name: "Writes", Fields: []*model.FieldDef{{Name: "w", Type: &model.Type{Name: "Int"}, Args: []*model.ArgDef{{Name: "n", Type: &model.Type{Name: "Int"}}}}}})
		}
		if !hasQ {
			rest = append(rest, &model.Item{Kind: "type", Name: "Query", Fields: []*model.FieldDef{{Name: "q", Type: &model.Type{Name: "Int"}}}})
		}
		items = append(rest, &model.Item{Kind: "schema", OpTypes: []model.OpType{{Op: "mutation", Type: mut}}, Dirs: schemaDirs})
		x.Count("rounds_without_query_root")
	}
	srn := &model.Renderer{}
	if seed%5 == 3 {
		// a schema text full of comments (kept on the definitions, printed by the formatter under WithComments)
		srn = &model.Renderer{R: r.Fork(4242), Trivia: 2}
		x.Count("rounds_with_commented_schema")
	}
	src := srn.RenderSDoc(&model.SDoc{Items: items})
	schema, err := gqlparser.LoadSchema(&ast.Source{Name: "shared.graphql", Input: src})
	if err != nil {
		// whether a generated schema loads is C07's business (it checks these very schemas against the reference rule
		// checker); a round needs a loaded schema to share, so this one is not played - and the required counts see to it
		// that a run in which too few rounds were played is not a pass
		x.Count("rounds_not_played:schema-rejected")
		return
	}
	mg := tsys.Merge(items)
	// inputs per goroutine, prepared before anything runs concurrently
	all := make([][]*c11Op, G)
	for g := 0; g < G; g++ {
		all[g] = c11BuildOps(r.Fork(uint64(g)), mg, nops)
	}
	if seed%3 == 0 {
		// every goroutine starts with the argument map of a literal nested 2500-6000 levels deep (a custom-scalar argument of
		// a small shared schema of its own), resolved thirty times: what is deep for one call is not deeper because other
		// calls are deep at the same moment
		for g := 0; g < G; g++ {
			d := 2500 + r.Intn(3500)
			all[g] = append([]*c11Op{{kind: "deep-argmap", doc: "{ j(v: " + strings.Repeat("[", d) + "1" + strings.Repeat("]", d) + ") }"}}, all[g]...)
		}
	}
	before := snapshotSchema(schema)
	// sequential baselines: before the concurrent phase, or - in a COLD round - after it, so that the goroutines meet a
	// schema (and a process) in which nothing has run yet and every lazily built structure is built under contention
	cold := c.Get("cold") == "1"
	base := make([][]string, G)
	sequential := func() bool {
		for g := range all {
			base[g] = make([]string, len(all[g]))
			for i, op := range all[g] {
				base[g][i] = c11Exec(schema, op)
				x.Count("op:" + op.kind)
				x.Distinct("op-kind", op.kind)
			}
		}
		// what each call returned alone, for the driver to compare with what the same call returned alone in ANOTHER worker
		// process, which plays the same rounds in the opposite order (another history): per goroutine and operation kind
		for g := range all {
			in, out := map[string]uint64{}, map[string]uint64{}
			for i, op := range all[g] {
				in[op.kind] = in[op.kind]*1099511628211 ^ core.HashString(op.doc+fmt.Sprint(op.ruleIx)+showMap(op.vars))
				out[op.kind] = out[op.kind]*1099511628211 ^ core.HashString(base[g][i])
			}
			for k := range in {
				x.Distinct("alone", fmt.Sprintf("%s/%d/%s#%x=%x", c.Get("seed"), g, k, in[k], out[k]))
			}
		}
		if mid := snapshotSchema(schema); mid != before {
			a, b := firstDifference(before, mid)
			x.Violate("snapshot:sequential:"+snapshotPathKind(before, mid), "after the sequential history: ..."+b, "before: ..."+a)
			return false
		}
		x.Count("snapshots_compared")
		return true
	}
	if cold {
		x.Count("cold_rounds")
	} else if !sequential() {
		return
	}
	// concurrent phase
	got := make([][]string, G)
	order := make([]int32, G)
	var finished int32
	var wg sync.WaitGroup
	start := make(chan struct{})
	if yield > 0 {
		verifhook.YieldProb = uint32(yield)
		verifhook.Mode = verifhook.ModeYield
		x.Count("yield_rounds")
	}
	for g := 0; g < G; g++ {
		got[g] = make([]string, len(all[g]))
		wg.Add(1)
		go func(g int) {
			defer wg.Done()
			<-start
			for i, op := range all[g] {
				got[g][i] = c11Exec(schema, op)
			}
			order[g] = atomic.AddInt32(&finished, 1)
		}(g)
	}
	close(start)
	wg.Wait()
	verifhook.Mode = verifhook.ModeOff
	x.Count("rounds")
	var sig []string
	for g := 0; g < G; g++ {
		sig = append(sig, fmt.Sprint(order[g]))
	}
	x.Distinct("completion-order", fmt.Sprintf("G%d:%s", G, strings.Join(sig, ".")))
	if cold {
		if mid := snapshotSchema(schema); mid != before {
			a, b := firstDifference(before, mid)
			x.Violate("snapshot:concurrent:"+snapshotPathKind(before, mid), "after the (cold) round: ..."+b, "before: ..."+a)
			return
		}
		if !sequential() {
			return
		}
	}
	for g := range all {
		for i := range all[g] {
			x.Count("concurrent_ops")
			x.Nontrivial()
			if got[g][i] != base[g][i] {
				x.Violate("result-drift:concurrent:"+all[g][i].kind, clipStr(got[g][i], 1500), "alone: "+clipStr(base[g][i], 1500))
				return
			}
		}
	}
	after := snapshotSchema(schema)
	if after != before {
		a, b := firstDifference(before, after)
		x.Violate("snapshot:concurrent:"+snapshotPathKind(before, after), "after the round: ..."+b, "before: ..."+a)
		return
	}
	x.Count("snapshots_compared")
	// alone again, after the round
	for g := range all {
		for i, op := range all[g] {
			if i%3 != 0 {
				continue
			}
			if again := c11Exec(schema, op); again != base[g][i] {
				x.Violate("result-drift:after:"+op.kind, clipStr(again, 1500), "alone before the round: "+clipStr(base[g][i], 1500))
				return
			}
		}
	}
	if x.WantSample() {
		x.Sample(map[string]interface{}{"goroutines": G, "operations_per_goroutine": nops, "yield_probability_per_65536": yield, "completion_order": strings.Join(sig, "."), "schema_snapshot_bytes": len(before), "verdict": "no result drift, snapshot identical (to slice capacity) before and after"})
	}
}
