package mon

import (
	"fmt"
	"reflect"
	"sort"
	"strings"

	"github.com/vektah/gqlparser/v2/ast"
	"github.com/vektah/gqlparser/v2/gqlerror"
	"github.com/vektah/gqlparser/v2/lexer"
	"github.com/vektah/gqlparser/v2/parser"

	"verif/harness/internal/core"
	"verif/harness/internal/gen"
	"verif/harness/internal/model"
	"verif/harness/internal/ref"
)

// C04 — every reported position is truthful.
func init() {
	core.Register(&core.Monitor{
		ID: "C04",
		Rule: "documents (executable and type-system, single- and multi-file) are rendered from random trees with hostile trivia (multi-line block strings, comments, lone CR, CRLF, LF CR, BOMs, multi-byte characters) before every node kind; " +
			"every token from ReadToken, every *ast.Position reachable by reflection from the parsed document / loaded schema, and every error location (syntax errors from mutated inputs, load errors, validation errors) is checked against an independent line index and " +
			"the reference lexer's token starts: offset in range, offset is a token start (or end of input), line = 1 + line terminators before, column = distance from line start + 1, Src is the file the text came from, and for named nodes the text at the offset is the node's anchor. " +
			"distinct = distinct (carrier type, preceding-trivia class) pairs checked",
		Assumptions: []string{
			"lexical errors (identified by replaying the lexer alone) may legitimately point inside the text that fails to form a token or at end of input: bounds, line/column consistency and, when the reference lexer fails on the same text, an offset between the start of the failing lexeme and the character that rules it out are required of them",
			"nil positions of synthetic nodes (__typename, injected introspection fields, list item wrappers) are skipped",
			"inputs the reference lexer cannot lex are skipped for the token-start clause",
		},
		Shards:          func(tier string) int { return 16 },
		Run:             c04Run,
		Check:           c04Check,
		DistinctClasses: []string{"carrier"},
		MinEvaluations:  func(tier string) int64 { return 5000 },
		RequiredCounts:  []string{"positions_checked", "tokens_checked", "error_locations_checked", "lexical_error_extents_checked", "load_errors", "loaded_multi_source", "validation_error_locations", "validated_two_source_documents"},
	})
}

// srcInfo caches the oracles for one source text.
type srcInfo struct {
	src             *ast.Source
	li              *ref.LineIndex
	starts          map[int]ref.Tok // reference token starts
	lexOK           bool
	lexWhy          string // why the reference lexer gave no frame of reference
	failAt, failEnd int    // reference lexer failed: extent [start of the failing lexeme, character that rules it out]; -1 otherwise
	runes           []rune
}

func newSrcInfo(s *ast.Source) *srcInfo {
	si := &srcInfo{src: s, li: ref.NewLineIndex(s.Input), starts: map[int]ref.Tok{}, runes: []rune(s.Input), failAt: -1, failEnd: -1}
	// the frame of reference for positions: the October 2021 lexer, except that (a) a block string closed by more than three
	// quotes is read as the library reads it on purpose (finding F-C03-03, C03's business) and (b) characters above U+FFFF
	// are source characters, as in the later drafts the library follows (Lex abstains on them)
	rr := ref.Lex(s.Input)
	if rr.Abstain == "non-bmp-source-character" || rr.Abstain == "surrogate-escape" || (rr.Abstain == "" && strings.Contains(s.Input, `""""`)) {
		if fr := ref.LexFrame(s.Input); fr.Abstain == "" {
			rr = fr
		}
	}
	if rr.Abstain == "" && !rr.Failed {
		si.lexOK = true
	} else if rr.Abstain != "" {
		si.lexWhy = "abstain:" + rr.Abstain
	} else {
		si.lexWhy = "fails:" + rr.Reason
		si.failAt, si.failEnd = rr.FailAt, rr.FailEnd
	}
	for _, t := range rr.Toks {
		si.starts[t.Start] = t
	}
	return si
}

// quotedStringAt: a quoted (not block) string starts at the offset.
func (si *srcInfo) quotedStringAt(off int) bool {
	if off < 0 || off >= len(si.runes) || si.runes[off] != '"' {
		return false
	}
	if off+2 < len(si.runes) && si.runes[off+1] == '"' && si.runes[off+2] == '"' {
		return false
	}
	return true
}

type posChecker struct {
	x       *core.Ctx
	sources map[*ast.Source]*srcInfo
	byName  map[string]*srcInfo
}

func newPosChecker(x *core.Ctx, srcs ...*ast.Source) *posChecker {
	pc := &posChecker{x: x, sources: map[*ast.Source]*srcInfo{}, byName: map[string]*srcInfo{}}
	for _, s := range srcs {
		si := newSrcInfo(s)
		pc.sources[s] = si
		pc.byName[s.Name] = si
	}
	return pc
}

// triviaClass describes what precedes an offset (for the diversity count and context tags).
func (si *srcInfo) triviaClass(off int) string {
	if off <= 0 || off > len(si.runes) {
		return "start"
	}
	// look back over the ignored run
	cls := map[string]bool{}
	i := off - 1
	for i >= 0 {
		r := si.runes[i]
		switch {
		case r == '\n' && i > 0 && si.runes[i-1] == '\r':
			cls["crlf"] = true
			i--
		case r == '\n':
			cls["lf"] = true
		case r == '\r':
			cls["cr"] = true
		case r == 0xFEFF:
			cls["bom"] = true
		case r == ' ' || r == '\t' || r == ',':
			cls["ws"] = true
		default:
			goto done
		}
		i--
	}
done:
	if i >= 0 {
		// what token ends here?
		for s, t := range si.starts {
			if t.End == i+1 {
				_ = s
				if t.Kind == ref.KBlock && strings.ContainsAny(t.Text, "\r\n") {
					cls["after-multiline-block"] = true
				}
				if t.Kind == ref.KComment {
					cls["after-comment"] = true
				}
				break
			}
		}
	}
	var out []string
	for _, k := range []string{"after-multiline-block", "after-comment", "crlf", "cr", "lf", "bom", "ws"} {
		if cls[k] {
			out = append(out, k)
		}
	}
	if len(out) == 0 {
		return "adjacent"
	}
	return strings.Join(out, "+")
}

// checkPos verifies one position. carrier names the kind of thing carrying it; anchor is the
// text expected at the offset ("" = none).
func (pc *posChecker) checkPos(carrier string, p *ast.Position, anchor string) {
	x := pc.x
	if p == nil {
		return
	}
	si := pc.sources[p.Src]
	if p.Src == nil || si == nil {
		x.Violate(carrier+":file", fmt.Sprintf("Src=%v", p.Src), "the source the text came from")
		return
	}
	x.Count("positions_checked")
	n := si.li.NChars()
	if p.Start < 0 || p.Start > n {
		x.Violate(carrier+":offset-range", fmt.Sprintf("start %d", p.Start), fmt.Sprintf("within [0,%d]", n))
		return
	}
	tc := si.triviaClass(p.Start)
	x.Distinct("carrier", carrier+"|"+tc)
	wl, wc := si.li.LineCol(p.Start)
	rt, isStart := si.starts[p.Start]
	if si.lexOK && !isStart && p.Start != n {
		x.Violate(carrier+":not-token-start", fmt.Sprintf("offset %d in %q", p.Start, si.src.Name), "the start of a token")
		return
	}
	if p.Line != wl {
		x.Violate(carrier+":line", fmt.Sprintf("line %d for offset %d (%s)", p.Line, p.Start, tc), fmt.Sprintf("line %d", wl))
		return
	}
	if p.Column != wc {
		if si.quotedStringAt(p.Start) && p.Column == wc+1 {
			x.Violate("column:string-open-quote", fmt.Sprintf("%s: column %d for a quoted string starting at column %d", carrier, p.Column, wc), fmt.Sprintf("column %d", wc))
			return
		}
		x.Violate(carrier+":column", fmt.Sprintf("column %d for offset %d (%s)", p.Column, p.Start, tc), fmt.Sprintf("column %d", wc))
		return
	}
	if anchor != "" && si.lexOK {
		got := ""
		if isStart {
			got = rt.Text
		}
		if !anchorMatches(anchor, got) {
			x.Violate(carrier+":anchor-text", fmt.Sprintf("token %q at offset %d of %q", got, p.Start, si.src.Name), fmt.Sprintf("token %q", anchor))
		}
	}
}

// anchorMatches: anchor may list alternatives separated by \x00; `"` matches any string token.
func anchorMatches(anchor, tokText string) bool {
	for _, a := range strings.Split(anchor, "\x00") {
		if a == `"` {
			if strings.HasPrefix(tokText, `"`) {
				return true
			}
			continue
		}
		if a == tokText {
			return true
		}
	}
	return false
}

func alt(xs ...string) string { return strings.Join(xs, "\x00") }

var positionType = reflect.TypeOf((*ast.Position)(nil))

// walkPositions visits every *ast.Position reachable from v.
func (pc *posChecker) walkPositions(root interface{}, requireNonNil bool) {
	seen := map[uintptr]bool{}
	var walk func(v reflect.Value, depth int)
	walk = func(v reflect.Value, depth int) {
		if depth > 200 {
			return
		}
		switch v.Kind() {
		case reflect.Ptr:
			if v.IsNil() {
				return
			}
			if v.Type() == positionType {
				return // handled at the struct level
			}
			if v.Type() == reflect.TypeOf((*ast.Source)(nil)) {
				return
			}
			if seen[v.Pointer()] {
				return
			}
			seen[v.Pointer()] = true
			walk(v.Elem(), depth+1)
		case reflect.Interface:
			if !v.IsNil() {
				walk(v.Elem(), depth+1)
			}
		case reflect.Slice, reflect.Array:
			for i := 0; i < v.Len(); i++ {
				walk(v.Index(i), depth+1)
			}
		case reflect.Map:
			it := v.MapRange()
			for it.Next() {
				walk(it.Value(), depth+1)
			}
		case reflect.Struct:
			t := v.Type()
			for i := 0; i < t.NumField(); i++ {
				f := t.Field(i)
				if !f.IsExported() {
					continue
				}
				fv := v.Field(i)
				if f.Type == positionType {
					pos, _ := fv.Interface().(*ast.Position)
					carrier := "node(" + t.Name() + ")"
					if pos == nil {
						if requireNonNil && !nilPositionAllowed(v) {
							pc.x.Violate(carrier+":nil-position", "nil", "a position for every parsed node")
						} else {
							pc.x.Count("nil_positions_skipped")
						}
						continue
					}
					pc.checkPos(carrier, pos, anchorFor(v))
					continue
				}
				walk(fv, depth+1)
			}
		}
	}
	walk(reflect.ValueOf(root), 0)
}

func nilPositionAllowed(v reflect.Value) bool {
	switch n := v.Interface().(type) {
	case ast.ChildValue:
		return n.Name == "" // list items
	case ast.FieldDefinition:
		return strings.HasPrefix(n.Name, "__") // injected introspection fields
	case ast.ArgumentDefinition:
		return n.Name == "name" // argument of injected __type
	case ast.Type:
		return true // types of synthetic fields
	case ast.Definition:
		return false
	}
	return false
}

func anchorFor(v reflect.Value) string {
	switch n := v.Interface().(type) {
	case ast.Field:
		return n.Alias
	case ast.Argument:
		return n.Name
	case ast.ChildValue:
		return n.Name
	case ast.Directive:
		return n.Name
	case ast.FragmentSpread:
		return n.Name
	case ast.FragmentDefinition:
		return "fragment"
	case ast.OperationDefinition:
		return alt("{", string(n.Operation))
	case ast.VariableDefinition:
		return "$"
	case ast.InlineFragment:
		return alt("on", "@", "{")
	case ast.Definition:
		return n.Name
	case ast.FieldDefinition:
		return alt(n.Name, `"`)
	case ast.ArgumentDefinition:
		return alt(n.Name, `"`)
	case ast.EnumValueDefinition:
		return alt(n.Name, `"`)
	case ast.DirectiveDefinition:
		return n.Name
	case ast.OperationTypeDefinition:
		return string(n.Operation)
	case ast.Value:
		switch n.Kind {
		case ast.Variable:
			return "$"
		case ast.ListValue:
			return "["
		case ast.ObjectValue:
			return "{"
		case ast.StringValue, ast.BlockValue:
			return `"`
		default:
			return n.Raw
		}
	case ast.Type:
		return alt(n.Name(), "[")
	}
	return ""
}

// checkErrorLocation verifies a located error against the named (or only) source.
func (pc *posChecker) checkErrorLocation(entry string, err *gqlerror.Error, only *ast.Source) {
	x := pc.x
	if err == nil || len(err.Locations) == 0 {
		return
	}
	file, _ := err.Extensions["file"].(string)
	si := pc.byName[file]
	if si == nil && only != nil && file == "" && only.Name == "" {
		si = pc.sources[only]
	}
	if si == nil {
		x.Violate("error("+entry+"):file", fmt.Sprintf("file %q: %s", file, err.Message), "the name of one of the sources")
		return
	}
	x.Count("error_locations_checked")
	// lexical errors: the lexer alone, on the same source, reports the same location
	lexical := false
	il := runLexer(si.src.Name, si.src.Input)
	if il.Err != nil {
		if l, c, _, ok := errLocation(il.Err); ok && l == err.Locations[0].Line && c == err.Locations[0].Column {
			lexical = true
		}
	}
	for _, loc := range err.Locations {
		off, ok := si.li.Offset(loc.Line, loc.Column)
		if !ok {
			if off > 0 {
				if si.quotedStringAt(off - 1) {
					x.Violate("column:string-open-quote", fmt.Sprintf("error(%s) at line %d column %d", entry, loc.Line, loc.Column), "the column of the opening quote")
					continue
				}
			}
			x.Violate("error("+entry+"):out-of-range", fmt.Sprintf("line %d column %d: %s", loc.Line, loc.Column, err.Message), "a position inside the source")
			continue
		}
		if lexical || !si.lexOK {
			x.Count("lexical_error_locations")
			if lexical {
				pc.checkLexemeExtent(entry, si, off, err.Message)
			}
			continue
		}
		if _, isStart := si.starts[off]; !isStart && off != si.li.NChars() {
			if _, isPrev := si.starts[off-1]; isPrev && si.quotedStringAt(off-1) {
				x.Violate("column:string-open-quote", fmt.Sprintf("error(%s) at line %d column %d", entry, loc.Line, loc.Column), "the column of the opening quote")
				continue
			}
			x.Violate("error("+entry+"):not-token-start", fmt.Sprintf("line %d column %d (offset %d): %s", loc.Line, loc.Column, off, err.Message), "the start of a token")
		}
	}
}

// checkLexemeExtent: a lexical error is located inside the text that is not a token - from the start of the failing lexeme
// (where the reference lexer fails too) to the character that rules the lexeme out, not before it and not after it.
func (pc *posChecker) checkLexemeExtent(entry string, si *srcInfo, off int, msg string) {
	if si.failAt < 0 {
		return
	}
	pc.x.Count("lexical_error_extents_checked")
	if off < si.failAt || off > si.failEnd {
		pc.x.Violate("error("+entry+"):outside-failing-lexeme("+strings.TrimPrefix(si.lexWhy, "fails:")+")", fmt.Sprintf("offset %d: %s", off, msg),
			fmt.Sprintf("an offset in [%d,%d], the characters that fail to form a token", si.failAt, si.failEnd))
	}
}

func (pc *posChecker) checkTokens(s *ast.Source) {
	x := pc.x
	si := pc.sources[s]
	lx := lexer.New(s)
	for i := 0; i <= si.li.NChars()+1; i++ {
		t, err := lx.ReadToken()
		if err != nil {
			if ge, ok := err.(*gqlerror.Error); ok {
				// lexical error: bounds only
				for _, loc := range ge.Locations {
					off, ok := si.li.Offset(loc.Line, loc.Column)
					if !ok {
						x.Violate("error(lexer):out-of-range", fmt.Sprintf("line %d column %d: %s", loc.Line, loc.Column, ge.Message), "a position inside the source")
						continue
					}
					pc.checkLexemeExtent("lexer", si, off, ge.Message)
				}
				x.Count("error_locations_checked")
			}
			return
		}
		x.Count("tokens_checked")
		tp := t.Pos
		pc.checkPos("token("+t.Kind.Name()+")", &tp, "")
		if t.Kind == lexer.EOF {
			return
		}
	}
}

// ---------------------------------------------------------------- workload

func c04Run(x *core.Ctx) {
	n := 1250
	if !x.Quick() {
		n = 31250
	}
	r := x.Rand(uint64(x.Shard))
	for i := 0; i < n; i++ {
		rn := &model.Renderer{R: r.Fork(uint64(i)), BlockValue: ref.BlockStringValue, Trivia: 2, WideComments: i%2 == 0}
		switch i % 4 {
		case 0, 1:
			d := gen.QueryDoc(r, &gen.QOpts{MaxDepth: 3, Hostile: i%8 < 4, FragVars: true, VarDirs: true, KeywordNames: i%3 == 0})
			src := rn.RenderDoc(d)
			if i%16 == 4 {
				src = c04CloseRun(r, src)
			}
			if i%16 == 8 || i%16 == 9 {
				src = c04SurrogateEscapes(r, src)
			}
			c := core.NewCase("query", "src", src)
			x.Do(c, func() { c04Check(x, c) })
			// a broken variant: error locations
			toks := rn.DocTokens(d)
			c2 := core.NewCase("query", "src", rn.Text(mutateTokens(r, toks)))
			x.Do(c2, func() { c04Check(x, c2) })
			// a variant that is not even a token sequence: where the lexical error is reported
			c3 := core.NewCase("query", "src", c04LexFault(r, src))
			x.Do(c3, func() { c04Check(x, c3) })
			c4 := core.NewCase("badutf8", "src", c04BadUTF8(r, src), "grammar", "query")
			x.Do(c4, func() { c04Check(x, c4) })
		case 2:
			d := gen.SchemaDoc(r, &gen.SOpts{Hostile: i%8 < 4, KeywordNames: i%3 == 0})
			src := rn.RenderSDoc(d)
			if i%16 == 2 {
				src = c04CloseRun(r, src)
			}
			if i%16 == 10 {
				src = c04SurrogateEscapes(r, src)
			}
			c := core.NewCase("schema", "src", src)
			x.Do(c, func() { c04Check(x, c) })
			toks := rn.SDocTokens(d)
			c2 := core.NewCase("schema", "src", rn.Text(mutateTokens(r, toks)))
			x.Do(c2, func() { c04Check(x, c2) })
			c3 := core.NewCase("schema", "src", c04LexFault(r, src))
			x.Do(c3, func() { c04Check(x, c3) })
			c4 := core.NewCase("badutf8", "src", c04BadUTF8(r, src), "grammar", "schema")
			x.Do(c4, func() { c04Check(x, c4) })
		case 3:
			c04Typed(x, r, rn, i)
		}
	}
}

// c04BadBytes are byte sequences that are not UTF-8: lone continuation bytes, lead bytes without their continuation (a Latin-1
// letter before ASCII), truncated and overlong sequences, an encoded surrogate, bytes no encoding uses.
var c04BadBytes = []string{"\x80", "\xbf", "\xc3", "\xe9", "\xe9a", "\xff", "\xf0\x9f", "\xf0\x9f\x98", "\xed\xa0\x80", "\xc0\x80", "\xe2\x82", "\xf8", "\xb0C", "\xa3\xa3"}

// c04BadUTF8 puts one to three such sequences into the text: mostly inside quoted strings, block strings and comments (where any
// character may stand, so the text stays lexable), sometimes anywhere.
func c04BadUTF8(r *core.Rand, src string) string {
	rs := []rune(src)
	var inside []int
	if rr := ref.LexFrame(src); rr.Abstain == "" {
		for _, t := range rr.Toks {
			lo, hi := t.Start+1, t.End-1
			if t.Kind == ref.KBlock {
				lo, hi = t.Start+3, t.End-3
			}
			if t.Kind == ref.KComment {
				hi = t.End
			}
			if t.Kind == ref.KString || t.Kind == ref.KBlock || t.Kind == ref.KComment {
				for k := lo; k <= hi && k <= len(rs); k++ {
					inside = append(inside, k)
				}
			}
		}
	}
	var ats []int
	for n := 1 + r.Intn(3); n > 0; n-- {
		at := r.Intn(len(rs) + 1)
		if len(inside) > 0 && !r.Chance(1, 5) {
			at = inside[r.Intn(len(inside))]
			if at > len(rs) {
				at = len(rs)
			}
		}
		ats = append(ats, at)
	}
	sort.Sort(sort.Reverse(sort.IntSlice(ats)))
	for _, at := range ats {
		src = string(rs[:at]) + c04BadBytes[r.Intn(len(c04BadBytes))] + src[len(string(rs[:at])):]
	}
	return src
}

// c04LexFaults are texts that are not tokens (one per way a lexeme can fail, several lengths of each).
var c04LexFaults = []string{"0123", "-007", "00", "01", "-00.5", "0009e1", "1.", "1.x", "-", "-x", "1e", "1e+", "2.5e-", "1.5x", "12abc", "1.2.3", "1..2", "0x1F", ".", "..", ". ..",
	"?", "~", "%", "^", "\u0007", "\"unterminated", "\"bad \\q escape\"", "\"\\u12G4\"", "\"\\u12\"", "\"tab\there \\x\"", "\"line\nbreak\"", "\"\"\"never closed", "\"\"\"ctl \u0001 \"\"\"",
	"\"ctl \u0002\"", "\"é\\z\"", "0123456789", "-0000", "1e٣",
	// a control character on a later line of a block string (the error is on THAT line), after seeded change C04-wave10-A
	"\"\"\"first\n second \u0001 x\n\"\"\"", "\"\"\"a\r\nb\n\n   \u0003\"\"\"", "\"\"\"\n\n\u0000", "\"\"\"é\r \u0008é\"\"\""}

// c04LexFault puts one such text in front of a token of the source (or at its end).
func c04LexFault(r *core.Rand, src string) string {
	rr := ref.LexFrame(src)
	f := c04LexFaults[r.Intn(len(c04LexFaults))]
	if rr.Abstain != "" || rr.Failed || len(rr.Toks) == 0 || r.Chance(1, 12) {
		return src + " " + f
	}
	t := rr.Toks[r.Intn(len(rr.Toks))]
	rs := []rune(src)
	sep := r.Pick(" ", "\n", ",", "\r\n", "\t")
	return string(rs[:t.Start]) + f + sep + string(rs[t.Start:])
}

// c04CloseRun lengthens the closing quotes of one block string of the text to a run of four or five.
func c04CloseRun(r *core.Rand, src string) string {
	rr := ref.Lex(src)
	if rr.Abstain != "" || rr.Failed {
		return src
	}
	var blocks []ref.Tok
	for _, t := range rr.Toks {
		if t.Kind == ref.KBlock {
			blocks = append(blocks, t)
		}
	}
	if len(blocks) == 0 {
		return src
	}
	t := blocks[r.Intn(len(blocks))]
	rs := []rune(src)
	extra := strings.Repeat(`"`, 1+r.Intn(2))
	return string(rs[:t.End-3]) + extra + string(rs[t.End-3:])
}

// c04SurrogateEscapes writes \u escapes from the surrogate range (a pair, a lone half, a pair in the wrong order) into one
// quoted string of the text: whatever value the library gives them, the tokens after the string start where they start.
func c04SurrogateEscapes(r *core.Rand, src string) string {
	rr := ref.Lex(src)
	if rr.Abstain != "" || rr.Failed {
		return src
	}
	var strs []ref.Tok
	for _, t := range rr.Toks {
		if t.Kind == ref.KString {
			strs = append(strs, t)
		}
	}
	if len(strs) == 0 {
		return src
	}
	t := strs[r.Intn(len(strs))]
	rs := []rune(src)
	esc := r.Pick(`\uD83D\uDE00`, `\uD83D`, `\uDE00\uD83D`, `\uD83D\uDE00\uD83D\uDE00x`, `\ud83d\ude00`)
	return string(rs[:t.Start+1]) + esc + string(rs[t.Start+1:])
}

// mutateTokens applies one random single-token mutation (delete, duplicate, swap, substitute).
func mutateTokens(r *core.Rand, toks []model.Tok) []model.Tok {
	if len(toks) == 0 {
		return toks
	}
	out := append([]model.Tok{}, toks...)
	i := r.Intn(len(out))
	switch r.Intn(4) {
	case 0:
		out = append(out[:i], out[i+1:]...)
	case 1:
		out = append(out[:i+1], out[i:]...)
	case 2:
		if i+1 < len(out) {
			out[i], out[i+1] = out[i+1], out[i]
		}
	default:
		subs := []model.Tok{{Kind: model.TPunct, Text: "{"}, {Kind: model.TPunct, Text: "}"}, {Kind: model.TPunct, Text: "("}, {Kind: model.TPunct, Text: ":"}, {Kind: model.TName, Text: "on"},
			{Kind: model.TName, Text: "x"}, {Kind: model.TInt, Text: "1"}, {Kind: model.TString, Text: `"s"`}, {Kind: model.TPunct, Text: "$"}, {Kind: model.TPunct, Text: "@"}, {Kind: model.TPunct, Text: "!"},
			{Kind: model.TBlock, Text: "\"\"\"\n b\n\"\"\""}, {Kind: model.TPunct, Text: "..."}, {Kind: model.TPunct, Text: "="}, {Kind: model.TPunct, Text: "|"}, {Kind: model.TPunct, Text: "["}}
		out[i] = subs[r.Intn(len(subs))]
	}
	return out
}

func c04Check(x *core.Ctx, c *core.Case) {
	switch c.Kind {
	case "query", "schema":
		src := &ast.Source{Name: "doc-" + c.Kind + ".graphql", Input: c.Get("src")}
		pc := newPosChecker(x, src)
		if !pc.sources[src].lexOK {
			x.Count("skipped:reference-cannot-lex")
		}
		pc.checkTokens(src)
		var root interface{}
		var err error
		if c.Kind == "query" {
			root, err = parser.ParseQuery(src)
		} else {
			root, err = parser.ParseSchema(src)
		}
		if err != nil {
			if ge, ok := err.(*gqlerror.Error); ok {
				pc.checkErrorLocation("parse-"+c.Kind, ge, src)
			}
			return
		}
		x.Count("parsed_" + c.Kind)
		pc.walkPositions(root, true)
		if x.WantSample() && len(src.Input) < 500 {
			x.Sample(map[string]interface{}{"kind": c.Kind, "source": src.Input, "positions_checked_so_far": x.Res.Counts["positions_checked"], "verdict": "all token, node and error positions agree with the line index"})
		}
	case "badutf8":
		// Bytes that are not UTF-8 count as one character each (what ranging over a Go string gives). So the text in which each
		// of them is replaced by U+FFFD is, character for character, the same text: the library must report the same token
		// kinds, extents, lines and columns and the same error place for both; and the replaced text is judged like any other.
		orig := c.Get("src")
		clean := string([]rune(orig))
		if clean == orig {
			x.Count("badutf8:nothing-invalid")
		}
		type tk struct {
			kind                  lexer.Type
			start, end, line, col int
		}
		lexAll := func(in string) (out []tk, errAt string) {
			lx := lexer.New(&ast.Source{Name: "bytes.graphql", Input: in})
			for i := 0; i <= len(in)+1; i++ {
				t, err := lx.ReadToken()
				if err != nil {
					if ge, ok := err.(*gqlerror.Error); ok && len(ge.Locations) > 0 {
						return out, fmt.Sprintf("%d:%d", ge.Locations[0].Line, ge.Locations[0].Column)
					}
					return out, "unlocated: " + err.Error()
				}
				out = append(out, tk{t.Kind, t.Pos.Start, t.Pos.End, t.Pos.Line, t.Pos.Column})
				if t.Kind == lexer.EOF {
					break
				}
			}
			return out, ""
		}
		to, eo := lexAll(orig)
		tc, ec := lexAll(clean)
		x.Count("badutf8_texts")
		x.CountN("badutf8_tokens_compared", int64(len(to)))
		if eo == "" {
			x.Count("badutf8_lexed_to_the_end")
		}
		if eo != ec {
			x.Violate("invalid-utf8:error-place-differs", "with the raw bytes: "+eo+", with U+FFFD in their place: "+ec, "the same place")
		}
		for i := 0; i < len(to) && i < len(tc); i++ {
			if to[i] != tc[i] {
				x.Violate("invalid-utf8:token("+to[i].kind.Name()+"):position-differs", fmt.Sprintf("token %d with the raw bytes %+v, with U+FFFD in their place %+v", i, to[i], tc[i]), "one character per invalid byte")
				break
			}
		}
		if len(to) != len(tc) {
			x.Violate("invalid-utf8:token-count-differs", fmt.Sprintf("%d vs %d", len(to), len(tc)), "the same tokens")
		}
		parse := func(in string) (interface{}, error) {
			s := &ast.Source{Name: "bytes.graphql", Input: in}
			if c.Get("grammar") == "query" {
				return parser.ParseQuery(s)
			}
			return parser.ParseSchema(s)
		}
		ro, erro := parse(orig)
		rc, errc := parse(clean)
		if (erro == nil) != (errc == nil) {
			x.Violate("invalid-utf8:parse-verdict-differs", fmt.Sprintf("raw: %v; replaced: %v", erro, errc), "the same verdict")
		} else if erro == nil {
			x.Count("badutf8_parsed")
			po, pcn := collectPositions(ro), collectPositions(rc)
			if po != pcn {
				x.Violate("invalid-utf8:node-positions-differ", firstDiffLine(po, pcn), "the same positions")
			}
		} else if ge1, ok1 := erro.(*gqlerror.Error); ok1 {
			if ge2, ok2 := errc.(*gqlerror.Error); ok2 && fmt.Sprint(ge1.Locations) != fmt.Sprint(ge2.Locations) {
				x.Violate("invalid-utf8:parse-error-place-differs", fmt.Sprint(ge1.Locations)+" vs "+fmt.Sprint(ge2.Locations), "the same place")
			}
		}
		c2 := core.NewCase(c.Get("grammar"), "src", clean)
		c04Check(x, c2)
	default:
		c04CheckTyped(x, c)
	}
}

// collectPositions lists every *ast.Position reachable from a tree (start, end, line, column) in walk order.
func collectPositions(root interface{}) string {
	var b strings.Builder
	seen := map[uintptr]bool{}
	var walk func(v reflect.Value, depth int)
	walk = func(v reflect.Value, depth int) {
		if depth > 4000 {
			return
		}
		switch v.Kind() {
		case reflect.Ptr:
			if v.IsNil() || seen[v.Pointer()] {
				return
			}
			if p, ok := v.Interface().(*ast.Position); ok {
				fmt.Fprintf(&b, "%d-%d@%d:%d\n", p.Start, p.End, p.Line, p.Column)
				return
			}
			if _, ok := v.Interface().(*ast.Source); ok {
				return
			}
			seen[v.Pointer()] = true
			walk(v.Elem(), depth+1)
		case reflect.Interface:
			if !v.IsNil() {
				walk(v.Elem(), depth+1)
			}
		case reflect.Struct:
			for i := 0; i < v.NumField(); i++ {
				if v.Type().Field(i).PkgPath == "" {
					walk(v.Field(i), depth+1)
				}
			}
		case reflect.Slice, reflect.Array:
			for i := 0; i < v.Len(); i++ {
				walk(v.Index(i), depth+1)
			}
		case reflect.Map:
			// no maps in parsed documents
		}
	}
	walk(reflect.ValueOf(root), 0)
	return b.String()
}
