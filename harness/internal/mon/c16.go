package mon

import (
	"fmt"
	"math"
	"reflect"
	"runtime"
	"runtime/debug"
	"strconv"
	"strings"
	"unicode/utf8"

	"github.com/vektah/gqlparser/v2/ast"
	"github.com/vektah/gqlparser/v2/parser"
	"github.com/vektah/gqlparser/v2/verifhook"

	"verif/harness/internal/core"
	"verif/harness/internal/gen"
	"verif/harness/internal/model"
	"verif/harness/internal/ref"
)

// C16 — the token limit is exact, monotone and bounds the work.
func init() {
	core.Register(&core.Monitor{
		ID: "C16",
		Rule: "documents of both grammars (rendered from random trees with comments and hostile trivia; half of them broken by one token mutation) are parsed without a limit and then with EVERY limit L in 0..T+2, " +
			"T = number of non-EOF tokens counted by the independent reference lexer (comments included); oracle: L=0 or L>=T reproduces the unlimited result (reflect.DeepEqual on the tree, equal error text), 0<L<T fails; " +
			"on a limit failure the hook counters must show at most 2L+8 lexer reads (L+1 is what the library does today) and no byte scanned beyond the start of reference token 2L+8; multi-source ParseSchemasWithLimit is checked per source; " +
			"floods (1-8 MiB of nesting, tokens, comments) under small limits run with a lowered stack ceiling so recursion not bounded by L is a fatal exit. " +
			"distinct = distinct (grammar, T) pairs explored over all limits; non-trivial = documents with T>=3",
		Assumptions: []string{
			"T is the reference lexer's token count; inputs the reference lexer rejects or abstains on are only checked for L=0 equivalence and for failing under every limit",
			"work is measured in deterministic hook counters (lexer reads, byte offset of the last token start), not in time",
			"negative limits are outside the property's domain",
		},
		Shards:          func(tier string) int { return 16 },
		Run:             c16Run,
		Check:           c16Check,
		DistinctClasses: []string{"grammar-T"},
		MinEvaluations:  func(tier string) int64 { return 1000 },
		RequiredCounts:  []string{"sparse_documents", "limit_parses", "exact_ok_at_T", "fail_below_T", "flood_cases", "multi_source_cases", "work_checked"},
		MaxStackMB:      512,
	})
}

var c16FloodPieces = []string{"[", "{", "(", "{a", "a:[", "a:{a:", "[[", "@a(a:[", "#\n", "a ", "... {", "\"\"\"x\"\"\" ", "$a:[", "1 ", "{a(b:[", "type T{", "\"d\" "}
var c16FloodPre = []string{"", "{a(b:", "query($v:", "type T @a(b:", "{"}

func c16Run(x *core.Ctx) {
	n := 500
	if !x.Quick() {
		n = 3750
	}
	r := x.Rand(uint64(x.Shard))
	for i := 0; i < n; i++ {
		rn := &model.Renderer{R: r.Fork(uint64(i)), BlockValue: ref.BlockStringValue, Trivia: 1 + i%2}
		var toks []model.Tok
		g := "query"
		if i%2 == 0 {
			d := gen.QueryDoc(r, &gen.QOpts{MaxDepth: 1 + r.Intn(3), Hostile: i%8 < 4, FragVars: true, VarDirs: true, KeywordNames: i%3 == 0, MaxDefs: 3})
			toks = rn.DocTokens(d)
		} else {
			g = "schema"
			d := gen.SchemaDoc(r, &gen.SOpts{Hostile: i%8 < 4, KeywordNames: i%3 == 0, MaxItems: 3})
			toks = rn.SDocTokens(d)
		}
		if i%4 >= 2 {
			toks = mutateTokens(r, toks)
		}
		if len(toks) > 160 {
			toks = toks[:160]
		}
		text := rn.Text(toks)
		if i%3 == 1 {
			// sparse document: few tokens, many bytes (long ignored runs, long comments, long strings)
			if len(toks) > 24 {
				toks = toks[:24]
			}
			text = c16Sparse(r, toks)
			x.Count("sparse_documents")
		}
		if i%6 >= 4 {
			// ignored characters in front of the first token (byte order marks, blank lines, commas): not tokens
			text = r.Pick("\ufeff", "\ufeff\ufeff", "\n\n", ",,", "\ufeff\r\n") + text
			x.Count("documents_with_leading_ignored_characters")
		}
		c := core.NewCase("limits", "grammar", g, "src", text)
		x.Do(c, func() { c16Check(x, c) })
		if i%7 == 3 {
			// deeply nested value literals: every nesting level costs tokens, nothing else
			depth := 3 + r.Intn(28)
			open, cls := "[", "]"
			if r.Chance(1, 3) {
				open, cls = "{k:", "}"
			}
			lit := strings.Repeat(open, depth) + "1" + strings.Repeat(cls, depth)
			var txt, gr string
			if r.Bool() {
				gr, txt = "query", "{ a(b: "+lit+") }"
			} else {
				gr, txt = "schema", "type T { f(a: X = "+lit+" @d(x: "+lit+")): Int }"
			}
			cd := core.NewCase("limits", "grammar", gr, "src", txt)
			x.Do(cd, func() { c16Check(x, cd) })
			x.Count("deep_literal_documents")
		}
		if i%5 == 0 {
			// multi-source schema
			k := 1 + r.Intn(4) // a single source goes through the same merge as several
			kv := []string{"n", strconv.Itoa(k)}
			for j := 0; j < k; j++ {
				d := gen.SchemaDoc(r, &gen.SOpts{KeywordNames: j%2 == 1, MaxItems: 2})
				kv = append(kv, fmt.Sprintf("src%d", j), rn.RenderSDoc(d))
			}
			cm := core.NewCase("multi", kv...)
			x.Do(cm, func() { c16Check(x, cm) })
		}
	}
	if x.Shard == 1 || (!x.Quick() && x.Shard == 2) {
		g := "query"
		if x.Shard == 2 {
			g = "schema"
		}
		hc := core.NewCase("huge", "grammar", g, "tokens", strconv.Itoa(1<<20+1000+x.Rand(5).Intn(50000)))
		x.Do(hc, func() { c16Check(x, hc) })
	}
	// degenerate documents: nothing at all, only ignored characters, only comments (T is 0 or the number of comments)
	if x.Shard == 1 {
		for _, text := range []string{"", " ", "\n", "\ufeff", ",,,", "\ufeff \r\n,", "# only a comment", "# one\n# two\n", "#", "\n#\n", "  # c  \n  ,  "} {
			for _, g := range []string{"query", "schema"} {
				c := core.NewCase("limits", "grammar", g, "src", text)
				x.Do(c, func() { c16Check(x, c) })
				x.Count("degenerate_documents")
			}
		}
	}
	// floods: a fixed list distributed over the shards
	sizes := []int{1 << 20}
	limits := []int{1, 10, 1000}
	if !x.Quick() {
		sizes = []int{1 << 20, 8 << 20}
		limits = []int{1, 2, 10, 1000, 15000}
	}
	k := 0
	for _, p := range c16FloodPieces {
		for _, pre := range c16FloodPre {
			for _, sz := range sizes {
				for _, lim := range limits {
					k++
					if k%x.NShards != x.Shard {
						continue
					}
					if x.Quick() && (k/x.NShards)%3 != 0 && !strings.Contains(p, `"""`) {
						continue
					}
					c := core.NewCase("flood", "piece", p, "pre", pre, "size", strconv.Itoa(sz), "limit", strconv.Itoa(lim))
					x.Do(c, func() { c16Check(x, c) })
				}
			}
		}
	}
}

// c16Sparse joins tokens with long runs of ignored characters and long comments, so that the
// byte length is far above any per-token average.
func c16Sparse(r *core.Rand, toks []model.Tok) string {
	var b strings.Builder
	pad := func() {
		switch r.Intn(5) {
		case 0:
			b.WriteString(strings.Repeat(" ", 1+r.Intn(400)))
		case 1:
			b.WriteString(strings.Repeat("\n", 1+r.Intn(200)))
		case 2:
			b.WriteString(strings.Repeat(",", 1+r.Intn(300)))
		case 3:
			b.WriteString(" #" + strings.Repeat("x", r.Intn(600)) + "\n")
		default:
			b.WriteString(" ")
		}
	}
	for _, t := range toks {
		pad()
		b.WriteString(t.Text)
	}
	pad()
	return b.String()
}

func c16Check(x *core.Ctx, c *core.Case) {
	x.OnPanic = stepBudgetPanic
	switch c.Kind {
	case "limits", "src":
		g := c.Get("grammar")
		if g == "" {
			g = "query"
		}
		c16Limits(x, g, c.Get("src"))
	case "multi":
		c16Multi(x, c)
	case "huge":
		// a VALID document with more tokens than any ceiling someone might put on the limit itself (2^20 and a bit):
		// under a limit at or above its token count it parses, below it fails
		n, _ := strconv.Atoi(c.Get("tokens"))
		var text string
		if c.Get("grammar") == "query" {
			text = "{" + strings.Repeat(" a", n-2) + " }"
		} else {
			text = "enum E {" + strings.Repeat(" A", n-4) + " }"
		}
		src := &ast.Source{Name: "huge.graphql", Input: text}
		x.Count("huge_valid_documents")
		x.Nontrivial()
		if u := c16Parse(c.Get("grammar"), src, 0, false); u.err != nil {
			x.Violate("exact:unlimited-entry-fails:"+c.Get("grammar"), fmt.Sprintf("T=%d, no limit -> %s", n, errText(u.err)), "parses: a valid document")
			return
		}
		for _, L := range []int{n, n + 1, math.MaxInt32, 0} {
			if a := c16Parse(c.Get("grammar"), src, L, true); a.err != nil {
				x.Violate("exact:fails-at-or-above-T:"+c.Get("grammar"), fmt.Sprintf("T=%d limit %d -> %s", n, L, errText(a.err)), "parses: the document has exactly T tokens")
				return
			}
		}
		if a := c16Parse(c.Get("grammar"), src, n-1, true); a.err == nil {
			x.Violate("exact:succeeds-below-T:"+c.Get("grammar"), fmt.Sprintf("T=%d limit %d succeeds", n, n-1), "fails: more than L tokens")
		}
	case "flood":
		sz, _ := strconv.Atoi(c.Get("size"))
		lim, _ := strconv.Atoi(c.Get("limit"))
		p := c.Get("piece")
		c16Flood(x, c.Get("pre")+strings.Repeat(p, sz/len(p)), lim)
	}
}

type c16Res struct {
	doc    interface{}
	isNil  bool
	err    error
	reads  int64
	lastAt int64
}

func c16Parse(g string, src *ast.Source, lim int, limited bool) c16Res {
	verifhook.Reset()
	verifhook.Budget = 0
	verifhook.Mode = verifhook.ModeCount
	var out c16Res
	if g == "query" {
		var d *ast.QueryDocument
		if limited {
			d, out.err = parser.ParseQueryWithTokenLimit(src, lim)
		} else {
			d, out.err = parser.ParseQuery(src)
		}
		out.doc, out.isNil = d, d == nil
	} else {
		var d *ast.SchemaDocument
		if limited {
			d, out.err = parser.ParseSchemaWithLimit(src, lim)
		} else {
			d, out.err = parser.ParseSchema(src)
		}
		out.doc, out.isNil = d, d == nil
	}
	verifhook.Mode = verifhook.ModeOff
	out.reads = verifhook.Counts[verifhook.SiteLexRead]
	out.lastAt = verifhook.Gauges[verifhook.SiteLexRead]
	return out
}

func errText(e error) string {
	if e == nil {
		return "<nil>"
	}
	return e.Error()
}

func isLimitErr(e error) bool {
	return e != nil && strings.HasPrefix(e.Error(), "exceeded token limit")
}

// byteStarts maps reference token index -> byte offset of the token start; the last entry is len(src) (EOF).
func byteStarts(src string, toks []ref.Tok) []int64 {
	out := make([]int64, 0, len(toks)+1)
	ci, bi := 0, 0
	for _, t := range toks {
		for ci < t.Start {
			_, w := decodeRune(src[bi:])
			bi += w
			ci++
		}
		out = append(out, int64(bi))
	}
	return append(out, int64(len(src)))
}

func decodeRune(s string) (rune, int) { return utf8.DecodeRuneInString(s) }

func c16Limits(x *core.Ctx, g, text string) {
	src := &ast.Source{Name: "c16.graphql", Input: text}
	rr := ref.Lex(text)
	u := c16Parse(g, src, 0, false)
	judgedT := rr.Abstain == "" && !rr.Failed
	T := len(rr.Toks)
	if rr.Abstain != "" {
		x.Count("skipped_exactness:reference-abstains")
	} else if rr.Failed {
		x.Count("lexically_invalid_inputs")
		if u.err == nil {
			// C03's business (a listed lexer finding); T is undefined for this monitor
			x.Count("skipped_exactness:reference-rejects-impl-lexes")
			return
		}
	}
	x.Distinct("grammar-T", fmt.Sprintf("%s/%d/%v", g, T, u.err == nil))
	if T >= 3 {
		x.Nontrivial()
	}
	var starts []int64
	if judgedT {
		starts = byteStarts(text, rr.Toks)
	}
	same := func(a c16Res) (bool, string) {
		if (a.err == nil) != (u.err == nil) {
			return false, "verdict"
		}
		if a.err != nil {
			if errText(a.err) != errText(u.err) {
				return false, "error"
			}
			return true, ""
		}
		if !reflect.DeepEqual(a.doc, u.doc) {
			return false, "tree"
		}
		return true, ""
	}
	prevOK := false
	maxL := T + 2
	limits := make([]int, 0, maxL+6)
	for L := 0; L <= maxL; L++ {
		limits = append(limits, L)
	}
	// limits at and beyond the 32-bit edge: a limit is a count, not something to squeeze into a narrower integer
	limits = append(limits, math.MaxInt32-1, math.MaxInt32, math.MaxInt32+1, 1<<32+3, math.MaxInt64)
	for _, L := range limits {
		a := c16Parse(g, src, L, true)
		x.Count("limit_parses")
		if src.Input != text || src.Name != "c16.graphql" || src.BuiltIn {
			// the source is the caller's: earlier trees point at it, and the caller may parse it again
			x.Violate("caller-source-rewritten:"+g, fmt.Sprintf("limit %d: the Source passed in now holds %d bytes named %q", L, len(src.Input), src.Name), fmt.Sprintf("the %d bytes and the name it was given", len(text)))
			src.Input = text
		}
		if a.err == nil && a.isNil {
			x.Violate("result-shape:"+g, fmt.Sprintf("limit %d: nil document and nil error", L), "a document or an error")
		}
		switch {
		case L == 0:
			if ok, what := same(a); !ok {
				x.Violate("exact:zero-not-unlimited:"+what+":"+g, fmt.Sprintf("limit 0 -> %s", errText(a.err)), fmt.Sprintf("unlimited -> %s", errText(u.err)))
			} else {
				x.Count("zero_equals_unlimited")
			}
		case !judgedT && u.err == nil:
			// the reference abstains (characters above U+FFFF) and the text parses: T is unknown, but no text has more
			// tokens than bytes, so a limit beyond its length must behave as no limit
			if L > len(text) {
				if ok, what := same(a); !ok {
					x.Violate("exact:differs-at-or-above-T:"+what+":"+g, fmt.Sprintf("limit %d (> %d bytes) -> %s", L, len(text), errText(a.err)), "unlimited -> "+errText(u.err))
				}
			}
		case !judgedT:
			// lexically invalid input: every limit must fail as the unlimited parse does
			if a.err == nil {
				x.Violate("exact:succeeds-where-unlimited-fails:"+g, fmt.Sprintf("limit %d succeeds", L), "unlimited -> "+errText(u.err))
			}
		case L >= T && u.err != nil:
			// both must fail; the limited parser may report its limit instead of the syntax error when
			// it consumes the end-of-input token (the property only requires failure)
			if a.err == nil {
				x.Violate("exact:succeeds-where-unlimited-fails:"+g, fmt.Sprintf("limit %d succeeds", L), "unlimited -> "+errText(u.err))
			} else if errText(a.err) == errText(u.err) {
				x.Count("same_error_at_or_above_T")
			} else {
				x.Count("other_error_at_or_above_T")
			}
		case L >= T:
			if ok, what := same(a); !ok {
				sig := "exact:differs-at-or-above-T:" + what
				if isLimitErr(a.err) {
					sig = "exact:fails-at-or-above-T"
				}
				x.Violate(sig+":"+g, fmt.Sprintf("T=%d limit %d -> %s", T, L, errText(a.err)), fmt.Sprintf("unlimited -> %s", errText(u.err)))
			} else if L == T {
				x.Count("exact_ok_at_T")
			}
		default: // 0 < L < T
			if a.err == nil {
				x.Violate("exact:succeeds-below-T:"+g, fmt.Sprintf("T=%d limit %d succeeds", T, L), "fails: more than L tokens")
			} else {
				x.Count("fail_below_T")
				if isLimitErr(a.err) {
					// work bound: the parser may look one token ahead of the L it consumed
					x.Count("work_checked")
					// "work proportional to L": the parser consumes L tokens and may look a few tokens ahead; the bound
					// is deliberately not the tightest possible (L+1 today) so that a harmless change of look-ahead
					// is not an alarm, while reading on to the end of a long input is
					if a.reads > 2*int64(L)+8 {
						x.Violate("work:tokens-read:"+g, fmt.Sprintf("limit %d: %d lexer reads", L, a.reads), "at most 2L+8")
					}
					x.Max("lexer_reads_minus_limit", a.reads-int64(L))
					idx := 2*L + 7
					if idx > T {
						idx = T
					}
					if a.lastAt > starts[idx] {
						x.Violate("work:bytes-scanned:"+g, fmt.Sprintf("limit %d: last token read starts at byte %d", L, a.lastAt), fmt.Sprintf("at most byte %d (start of token %d)", starts[idx], idx+1))
					}
				} else if u.err != nil && errText(a.err) != errText(u.err) {
					x.Violate("exact:different-syntax-error-below-T:"+g, fmt.Sprintf("limit %d -> %s", L, errText(a.err)), "the limit error or the unlimited parse's error: "+errText(u.err))
				}
			}
		}
		ok := a.err == nil
		if L >= 2 && prevOK && !ok {
			x.Violate("exact:non-monotone:"+g, fmt.Sprintf("succeeds at limit %d, fails at %d: %s", L-1, L, errText(a.err)), "success is monotone in the limit")
		}
		if L >= 1 {
			prevOK = ok
		}
	}
	if x.WantSample() && T >= 6 && len(text) < 300 && judgedT {
		x.Sample(map[string]interface{}{"grammar": g, "source": text, "reference_token_count": T, "unlimited": errText(u.err), "limits_tried": fmt.Sprintf("0..%d, 2^31-2, 2^31-1, 2^31, 2^32+3, 2^63-1", maxL), "verdict": "exact and monotone; reads <= 2L+8 on every limit failure"})
	}
}

func c16Multi(x *core.Ctx, c *core.Case) {
	n, _ := strconv.Atoi(c.Get("n"))
	var srcs []*ast.Source
	maxT := 0
	for j := 0; j < n; j++ {
		t := c.Get(fmt.Sprintf("src%d", j))
		rr := ref.Lex(t)
		if rr.Abstain != "" || rr.Failed {
			x.Count("skipped_multi:unlexable")
			return
		}
		if len(rr.Toks) > maxT {
			maxT = len(rr.Toks)
		}
		srcs = append(srcs, &ast.Source{Name: fmt.Sprintf("part%d.graphql", j), Input: t, BuiltIn: j == 0})
	}
	if n >= 2 && core.HashString(c.Get("src0"))%3 == 0 {
		// the same source object listed twice (a loader that prepends a shared source the caller also passes): both entry
		// points see it twice
		srcs = append(srcs, srcs[0])
		x.Count("multi_source_cases_with_repeated_source")
	}
	x.Count("multi_source_cases")
	x.Nontrivial()
	ud, uerr := parser.ParseSchemas(srcs...)
	for L := 0; L <= maxT+2; L++ {
		d, err := parser.ParseSchemasWithLimit(L, srcs...)
		x.Count("limit_parses")
		want := uerr == nil && (L == 0 || L >= maxT)
		if L == 0 || L >= maxT {
			if (err == nil) != (uerr == nil) || (L == 0 && err != nil && errText(err) != errText(uerr)) {
				x.Violate("exact:multi-source:verdict", fmt.Sprintf("maxT=%d limit %d -> %s", maxT, L, errText(err)), "unlimited -> "+errText(uerr))
			} else if err == nil && !reflect.DeepEqual(d, ud) {
				x.Violate("exact:multi-source:tree", fmt.Sprintf("maxT=%d limit %d: merged document differs from the unlimited one", maxT, L), "identical tree")
			}
		} else if err == nil {
			// some source has more than L tokens
			x.Violate("exact:multi-source:succeeds-below-T", fmt.Sprintf("maxT=%d limit %d succeeds", maxT, L), "fails: a source has more than L tokens")
		}
		_ = want
	}
}

func c16Flood(x *core.Ctx, s string, lim int) {
	x.Count("flood_cases")
	x.Nontrivial()
	debug.SetMaxStack(32<<20 + lim*2048)
	defer debug.SetMaxStack(512 << 20)
	for _, g := range []string{"query", "schema"} {
		src := &ast.Source{Name: "flood.graphql", Input: s}
		verifhook.Reset()
		verifhook.Budget = 64*int64(lim+2) + 4096
		verifhook.Mode = verifhook.ModeCount
		var err error
		var m0, m1 runtime.MemStats
		runtime.ReadMemStats(&m0)
		if g == "query" {
			_, err = parser.ParseQueryWithTokenLimit(src, lim)
		} else {
			_, err = parser.ParseSchemaWithLimit(src, lim)
		}
		runtime.ReadMemStats(&m1)
		verifhook.Mode = verifhook.ModeOff
		verifhook.Budget = 0
		if err == nil {
			x.Violate("exact:flood-succeeds:"+g, fmt.Sprintf("%d bytes parsed under limit %d", len(s), lim), "fails")
			continue
		}
		reads := verifhook.Counts[verifhook.SiteLexRead]
		lastAt := verifhook.Gauges[verifhook.SiteLexRead]
		x.Max("flood_lexer_reads_minus_limit", reads-int64(lim))
		if reads > 2*int64(lim)+8 {
			x.Violate("work:tokens-read:flood:"+g, fmt.Sprintf("limit %d: %d lexer reads on %d bytes", lim, reads, len(s)), "at most 2L+8")
		}
		// every flood piece is at most 16 bytes per token, and the pre-amble at most 16 bytes
		if bound := int64(2*lim+8)*16 + 32; lastAt > bound {
			x.Violate("work:bytes-scanned:flood:"+g, fmt.Sprintf("limit %d: scanned to byte %d of %d", lim, lastAt, len(s)), fmt.Sprintf("at most %d", bound))
		}
		// memory: what was allocated while parsing is bounded by the tokens that may be read (every flood piece is a few bytes
		// per token), not by the size of the input behind them
		alloc := int64(m1.TotalAlloc - m0.TotalAlloc)
		x.Max("flood_alloc_bytes", alloc)
		x.Max(fmt.Sprintf("flood_alloc_bytes_at_limit_%d", lim), alloc)
		if bound := int64(2*lim+8)*4096 + 256<<10; alloc > bound {
			x.Violate("work:memory:flood:"+g, fmt.Sprintf("limit %d: %d bytes allocated on %d bytes of input", lim, alloc, len(s)), fmt.Sprintf("at most %d (4 KiB per token that may be read + 256 KiB)", bound))
		}
		x.Count("work_checked")
	}
	if x.WantSample() {
		x.Sample(map[string]interface{}{"flood_bytes": len(s), "prefix": s[:min(len(s), 40)], "limit": lim, "lexer_reads": verifhook.Counts[verifhook.SiteLexRead], "verdict": "failed after reading at most 2L+8 tokens"})
	}
}
