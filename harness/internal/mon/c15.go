package mon

import (
	"encoding/json"
	"fmt"
	"reflect"
	"sort"
	"strconv"
	"strings"

	"github.com/vektah/gqlparser/v2/ast"
	"github.com/vektah/gqlparser/v2/validator"

	"verif/harness/internal/core"
	"verif/harness/internal/dgen"
	"verif/harness/internal/model"
	"verif/harness/internal/tsys"
)

// C15 — argument resolution is total and follows literal > variable > default order.
func init() {
	core.Register(&core.Monitor{
		ID: "C15",
		Rule: "valid (schema, document) pairs from the typed generators (one in four with a twin of an operation that shares all its fragments and gives defaults to variables the original leaves without); for each operation a variables map is built per variable (a conforming value / explicit null where nullable / omitted where the variable is nullable or has a default) and passed through VariableValues; " +
			"then Field.ArgumentMap and Directive.ArgumentMap are called for EVERY field and directive of the operation, of the fragments it reaches, and of its variable definitions. Oracle: an independent evaluator over the model " +
			"(literal: ints->int64, floats->float64, strings/enums->string, booleans, null->nil, lists and objects recursively with variables substituted; else the supplied variable; else, through the coerced map, the variable's default; else the argument's default; else absent); maps compared with reflect.DeepEqual (nil and empty lists identified). A panic is a violation. " +
			"distinct = (value-source, literal-shape) classes of resolved arguments; non-trivial = argument maps with at least one entry",
		Assumptions: []string{
			"the literal written is converted as written (an Int literal for a Float argument stays an int64), which is what the property states",
			"documents rejected by validation or variable maps rejected by coercion are outside the property's domain and are skipped",
		},
		Shards:          func(tier string) int { return 16 },
		Run:             c15Run,
		Check:           c15Check,
		DistinctClasses: []string{"source-class"},
		MinEvaluations:  func(tier string) int64 { return 2000 },
		RequiredCounts:  []string{"argument_maps_checked", "twin_operation_documents", "deep_literal_documents", "source:literal", "source:variable", "source:argument-default", "source:variable-default", "source:nested-variable", "source:explicit-null", "source:absent"},
	})
}

// c15DeepSchema: literals nested far deeper than any sensible guard constant, through a custom scalar and a recursive input.
const c15DeepSchema = `scalar J input R { r: R v: Int l: [R] } type Query { f(j: J, r: R = {v: 1}): Int }`

func c15Run(x *core.Ctx) {
	ns := 200
	if !x.Quick() {
		ns = 6000
	}
	r := x.Rand(uint64(x.Shard))
	rn := &model.Renderer{}
	for k := 0; k < 6; k++ {
		depth := 20 + r.Intn(140)
		j, in := "1", "{v: 2}"
		for d := 0; d < depth; d++ {
			if d%3 == 1 {
				j = "{k: " + j + "}"
				in = "{l: [" + in + "]}"
			} else {
				j = "[" + j + "]"
				in = "{r: " + in + "}"
			}
		}
		dc := core.NewCase("pair", "schema", c15DeepSchema, "doc", "{ a: f(j: "+j+") b: f(r: "+in+") c: f }", "expect", "valid", "modes", "", "values", "{}")
		x.Do(dc, func() { c15Check(x, dc) })
		x.Count("deep_literal_documents")
	}
	for i := 0; i < ns; i++ {
		sc := c08MakeSchema(r, i)
		for j := 0; j < 8; j++ {
			g := dgen.New(r, sc.mg, &dgen.Opts{MaxDepth: 1 + r.Intn(3), MaxOps: 1 + r.Intn(2), DeepValues: j%2 == 0, Introspect: j%3 == 1})
			doc := g.Doc()
			if len(doc.Defs) == 0 {
				continue
			}
			if j%4 == 1 && dgen.TwinOperation(r, g, doc) {
				x.Count("twin_operation_documents")
			}
			// supply modes per (operation, variable): v = value, n = explicit null, o = omitted
			var modes []string
			vars := map[string]interface{}{}
			for _, d := range doc.Defs {
				if d.IsFragment {
					continue
				}
				for _, v := range d.Vars {
					mode := "v"
					switch k := r.Intn(4); {
					case k == 0 && !v.Type.NonNull:
						mode = "n"
					case (k == 1 || (k == 2 && j%4 == 1)) && (!v.Type.NonNull || v.Default != nil):
						mode = "o"
					}
					modes = append(modes, d.Name+"."+v.Name+"="+mode)
					if mode == "v" {
						nn := *v.Type
						nn.NonNull = true
						vars[d.Name+"."+v.Name] = goValue(tsys.GenValue(r, g.Lookup, &nn, 2, false))
					}
				}
			}
			if j%4 == 3 {
				// documents the library normally rejects (literals it cannot convert at ID/Float positions): if it ever
				// accepts one, argument resolution must still be total
				for _, f := range dgen.Faults {
					if f.Name == "int-beyond-int64-for-id-or-float" {
						f.Do(dgen.NewFCtx(r, sc.mg, doc))
					}
				}
			}
			vb, _ := json.Marshal(vars)
			c := core.NewCase("pair", "schema", sc.src, "doc", rn.RenderDoc(doc), "expect", "valid", "modes", strings.Join(modes, ","), "values", string(vb))
			x.Do(c, func() { c15Check(x, c) })
		}
	}
}

// goValue converts a constant model value into a JSON-like Go value (what a client would send).
func goValue(v *model.Value) interface{} {
	switch v.Kind {
	case model.VNull:
		return nil
	case model.VInt:
		n, err := strconv.ParseInt(v.Raw, 10, 64)
		if err != nil {
			f, _ := strconv.ParseFloat(v.Raw, 64)
			return f
		}
		return int(n)
	case model.VFloat:
		f, _ := strconv.ParseFloat(v.Raw, 64)
		return f
	case model.VBool:
		return v.Raw == "true"
	case model.VString, model.VEnum:
		return v.Raw
	case model.VList:
		out := []interface{}{}
		for _, it := range v.Items {
			out = append(out, goValue(it))
		}
		return out
	case model.VObject:
		out := map[string]interface{}{}
		for _, f := range v.Fields {
			out[f.Name] = goValue(f.Value)
		}
		return out
	}
	return nil
}

// ---------------------------------------------------------------- reference evaluator

type c15Eval struct {
	x       *core.Ctx
	vars    map[string]interface{}
	varDefs map[string]*model.VarDef
	// foreign is only set to NAME a mismatch, never to judge: the defaults that another operation of the document
	// declares for variables of the same name, applied to nested uses that have no value in this operation
	foreign map[string]*model.Value
	quiet   bool
}

func (e *c15Eval) eval(v *model.Value, nested bool) interface{} {
	switch v.Kind {
	case model.VVar:
		if nested && !e.quiet {
			e.x.Count("source:nested-variable")
		}
		if val, ok := e.vars[v.Raw]; ok {
			return val
		}
		if vd := e.varDefs[v.Raw]; vd != nil && vd.Default != nil {
			return e.eval(vd.Default, true)
		}
		if fd := e.foreign[v.Raw]; fd != nil && nested {
			return e.eval(fd, true)
		}
		return nil
	case model.VInt:
		n, err := strconv.ParseInt(v.Raw, 10, 64)
		if err != nil {
			return fmt.Sprintf("<unrepresentable int %s>", v.Raw)
		}
		return n
	case model.VFloat:
		f, err := strconv.ParseFloat(v.Raw, 64)
		if err != nil {
			return fmt.Sprintf("<unrepresentable float %s>", v.Raw)
		}
		return f
	case model.VString, model.VEnum:
		return v.Raw
	case model.VBool:
		return v.Raw == "true"
	case model.VNull:
		return nil
	case model.VList:
		out := []interface{}{}
		for _, it := range v.Items {
			out = append(out, e.eval(it, true))
		}
		return out
	case model.VObject:
		out := map[string]interface{}{}
		for _, f := range v.Fields {
			out[f.Name] = e.eval(f.Value, true)
		}
		return out
	}
	return nil
}

func valueShape(v *model.Value) string {
	switch v.Kind {
	case model.VList:
		if len(v.Items) == 0 {
			return "list()"
		}
		return "list(" + valueShape(v.Items[0]) + ")"
	case model.VObject:
		return "object"
	}
	return v.Kind.String()
}

// argMapQuiet is argMap without the evidence counters (used to name a mismatch).
func (e *c15Eval) argMapQuiet(args []model.Arg, defs []*model.ArgDef) map[string]interface{} {
	out := map[string]interface{}{}
	for _, d := range defs {
		var written *model.Value
		for _, a := range args {
			if a.Name == d.Name {
				written = a.Value
				break
			}
		}
		switch {
		case written != nil && written.Kind == model.VVar:
			if val, ok := e.vars[written.Raw]; ok {
				out[d.Name] = val
				continue
			}
		case written != nil:
			out[d.Name] = e.eval(written, false)
			continue
		}
		if d.Default != nil {
			out[d.Name] = e.eval(d.Default, false)
		}
	}
	return out
}

// argMap computes the expected argument map for written arguments against argument definitions.
func (e *c15Eval) argMap(args []model.Arg, defs []*model.ArgDef) map[string]interface{} {
	out := map[string]interface{}{}
	for _, d := range defs {
		var written *model.Value
		for _, a := range args {
			if a.Name == d.Name {
				written = a.Value
				break
			}
		}
		has := false
		if written != nil {
			if written.Kind == model.VVar {
				if val, ok := e.vars[written.Raw]; ok {
					out[d.Name] = val
					has = true
					if vd := e.varDefs[written.Raw]; vd != nil && vd.Default != nil {
						e.x.Count("source:variable-or-its-default")
					}
					e.x.Count("source:variable")
					e.x.Distinct("source-class", "variable")
				}
			} else {
				out[d.Name] = e.eval(written, false)
				has = true
				if written.Kind == model.VNull {
					e.x.Count("source:explicit-null")
				}
				e.x.Count("source:literal")
				e.x.Distinct("source-class", "literal/"+valueShape(written))
			}
		}
		if !has && d.Default != nil {
			out[d.Name] = e.eval(d.Default, false)
			has = true
			e.x.Count("source:argument-default")
			e.x.Distinct("source-class", "argument-default/"+valueShape(d.Default))
		}
		if !has {
			e.x.Count("source:absent")
		}
	}
	return out
}

// normalise identifies nil and empty slices/maps so that DeepEqual compares content.
func normalise(v interface{}) interface{} {
	switch t := v.(type) {
	case []interface{}:
		out := make([]interface{}, 0, len(t))
		for _, it := range t {
			out = append(out, normalise(it))
		}
		return out
	case map[string]interface{}:
		out := make(map[string]interface{}, len(t))
		for k, it := range t {
			out[k] = normalise(it)
		}
		return out
	}
	if v != nil {
		rv := reflect.ValueOf(v)
		if rv.Kind() == reflect.Slice {
			out := make([]interface{}, 0, rv.Len())
			for i := 0; i < rv.Len(); i++ {
				out = append(out, normalise(rv.Index(i).Interface()))
			}
			return out
		}
	}
	return v
}

func showMap(m map[string]interface{}) string {
	var ks []string
	for k := range m {
		ks = append(ks, k)
	}
	sort.Strings(ks)
	var b strings.Builder
	for _, k := range ks {
		fmt.Fprintf(&b, "%s: %#v; ", k, m[k])
	}
	return b.String()
}

func c15Check(x *core.Ctx, c *core.Case) {
	schema, mg, doc := loadPair(x, c)
	if schema == nil {
		return
	}
	if errs := validator.Validate(schema, doc); len(errs) > 0 {
		x.Count("skipped:document-rejected")
		return
	}
	mdoc := model.FromAST(doc)
	modes := map[string]string{}
	for _, kv := range strings.Split(c.Get("modes"), ",") {
		if i := strings.LastIndexByte(kv, '='); i > 0 {
			modes[kv[:i]] = kv[i+1:]
		}
	}
	values := map[string]interface{}{}
	json.Unmarshal([]byte(c.Get("values")), &values) //nolint
	mfrags := map[string]*model.Def{}
	for _, d := range mdoc.Defs {
		if d.IsFragment {
			mfrags[d.Name] = d
		}
	}
	for oi, op := range doc.Operations {
		mop := mdoc.Defs[oi]
		// the client's variables map
		in := map[string]interface{}{}
		for _, v := range mop.Vars {
			switch modes[mop.Name+"."+v.Name] {
			case "n":
				in[v.Name] = nil
			case "o":
			default:
				if val, ok := values[mop.Name+"."+v.Name]; ok {
					in[v.Name] = val
				}
			}
		}
		coerced, err := validator.VariableValues(schema, op, in)
		if err != nil {
			x.Count("skipped:variables-rejected")
			continue
		}
		// reference variables: supplied ones as coerced by the library (C14's business), omitted ones
		// from their declared default, evaluated independently
		refVars := map[string]interface{}{}
		e := &c15Eval{x: x, vars: refVars, varDefs: map[string]*model.VarDef{}}
		for i := range mop.Vars {
			name := mop.Vars[i].Name
			e.varDefs[name] = &mop.Vars[i]
			if _, supplied := in[name]; supplied {
				if cv, ok := coerced[name]; ok {
					refVars[name] = cv
				}
			} else if mop.Vars[i].Default != nil {
				// the default is coerced to the variable's type by VariableValues (C14's business): take the
				// coerced form when the library provides one, but insist that there is an entry
				refVars[name] = e.eval(mop.Vars[i].Default, false)
				if cv, ok := coerced[name]; ok {
					refVars[name] = cv
				}
				x.Count("source:variable-default")
				if mop.Vars[i].Default.Kind == model.VNull {
					x.Count("source:variable-default-null")
				}
			}
		}
		coercedObjects := map[string]bool{}
		var noteObjects func(v interface{})
		noteObjects = func(v interface{}) {
			switch t := v.(type) {
			case map[string]interface{}:
				coercedObjects[fmt.Sprintf("%p", t)] = true
				for _, e := range t {
					noteObjects(e)
				}
			case []interface{}:
				if len(t) > 0 {
					coercedObjects[fmt.Sprintf("%p", t)] = true
				}
				for _, e := range t {
					noteObjects(e)
				}
			}
		}
		for _, v := range coerced {
			noteObjects(v)
		}
		// a panic is named after its context: the recorded finding is only about custom-scalar positions
		setPanicContext := func(args []model.Arg, defs []*model.ArgDef) {
			custom := false
			var at func(t *model.Type, v *model.Value) bool
			at = func(t *model.Type, v *model.Value) bool {
				if v == nil || t == nil {
					return false
				}
				td := mg.Types[t.Base()]
				if td == nil {
					return false
				}
				if td.Kind == "scalar" && !td.BuiltIn {
					return hasUnconvertibleNumber(v)
				}
				switch v.Kind {
				case model.VList:
					et := t
					if t.Elem != nil {
						et = t.Elem
					}
					for _, it := range v.Items {
						if at(et, it) {
							return true
						}
					}
				case model.VObject:
					if td.Kind == "input" {
						for _, f := range v.Fields {
							if fd := td.Field(f.Name); fd != nil && at(fd.Type, f.Value) {
								return true
							}
						}
					}
				}
				return false
			}
			for _, d := range defs {
				if at(d.Type, d.Default) {
					custom = true
				}
				for _, a := range args {
					if a.Name == d.Name && at(d.Type, a.Value) {
						custom = true
					}
				}
			}
			x.OnPanic = func(v interface{}) (string, bool) {
				if custom && strings.Contains(fmt.Sprint(v), "strconv.Parse") {
					return "panic:ast.arg2map:custom-scalar-number-beyond-64-bits", true
				}
				return "", false
			}
		}
		cmp := func(where string, got map[string]interface{}, args []model.Arg, defs []*model.ArgDef) {
			// the map belongs to the caller: once compared it is scribbled over (as a resolver normalising its arguments
			// would); the second resolution of the same node must give the specified values again
			defer func() {
				for k, v := range got {
					if _, isVar := coercedObjects[fmt.Sprintf("%p", v)]; !isVar {
						mutateInPlace(v)
					}
					_ = k
				}
				if got != nil {
					got["scribbledByCaller"] = 1
				}
			}()
			want := e.argMap(args, defs)
			x.Count("argument_maps_checked")
			if len(want) > 0 {
				x.Nontrivial()
			}
			if !reflect.DeepEqual(normalise(got), normalise(want)) {
				reason := "value-differs"
				// is the difference explained by a nested variable without a value in this operation taking the default
				// that ANOTHER operation declares for a variable of that name?
				for oj, other := range mdoc.Defs {
					if other.IsFragment || oj == oi {
						continue
					}
					e2 := &c15Eval{x: x, vars: refVars, varDefs: e.varDefs, foreign: map[string]*model.Value{}, quiet: true}
					for vi := range other.Vars {
						if other.Vars[vi].Default != nil {
							e2.foreign[other.Vars[vi].Name] = other.Vars[vi].Default
						}
					}
					if len(e2.foreign) > 0 && reflect.DeepEqual(normalise(got), normalise(e2.argMapQuiet(args, defs))) {
						x.Violate("nested-variable-takes-default-of-another-operation", where+": "+showMap(got)+" while running operation "+mop.Name, showMap(want))
						return
					}
				}
				for k := range want {
					if _, ok := got[k]; !ok {
						reason = "missing-key"
					}
				}
				for k := range got {
					if _, ok := want[k]; !ok {
						reason = "extra-key"
					}
				}
				x.Violate(reason, where+": "+showMap(got), showMap(want))
			}
		}
		dirs := func(where string, ads ast.DirectiveList, mds []model.Dir) {
			for i, d := range ads {
				if d.Definition == nil || i >= len(mds) {
					continue
				}
				def := mg.Directives[d.Name]
				if def == nil {
					continue
				}
				var got map[string]interface{}
				setPanicContext(mds[i].Args, def.Args)
				if x.Guard(func() { got = d.ArgumentMap(coerced) }) {
					continue
				}
				cmp(where+" @"+d.Name, got, mds[i].Args, def.Args)
				if !x.Guard(func() { got = d.ArgumentMap(coerced) }) {
					cmp(where+" @"+d.Name+" (second resolution)", got, mds[i].Args, def.Args)
				}
			}
		}
		visited := map[string]bool{}
		var sels func(parent *tsys.Def, as ast.SelectionSet, ms []*model.Sel, where string)
		sels = func(parent *tsys.Def, as ast.SelectionSet, ms []*model.Sel, where string) {
			for i, sel := range as {
				if i >= len(ms) {
					return
				}
				msel := ms[i]
				switch s := sel.(type) {
				case *ast.Field:
					dirs(where+"/"+s.Name, s.Directives, msel.Dirs)
					var fd *model.FieldDef
					if parent != nil {
						fd = parent.Field(s.Name)
						if parent.Name == mg.Roots["query"] && s.Name == "__type" {
							fd = &model.FieldDef{Name: "__type", Type: &model.Type{Name: "__Type"}, Args: []*model.ArgDef{{Name: "name", Type: &model.Type{Name: "String", NonNull: true}}}}
						}
						if parent.Name == mg.Roots["query"] && s.Name == "__schema" {
							fd = &model.FieldDef{Name: "__schema", Type: &model.Type{Name: "__Schema", NonNull: true}}
						}
					}
					if s.Name == "__typename" {
						fd = &model.FieldDef{Name: "__typename", Type: &model.Type{Name: "String", NonNull: true}}
					}
					if fd == nil || s.Definition == nil {
						continue
					}
					var got map[string]interface{}
					setPanicContext(msel.Args, fd.Args)
					if !x.Guard(func() { got = s.ArgumentMap(coerced) }) {
						cmp(where+"/"+s.Name, got, msel.Args, fd.Args)
						if !x.Guard(func() { got = s.ArgumentMap(coerced) }) {
							cmp(where+"/"+s.Name+" (second resolution)", got, msel.Args, fd.Args)
						}
					}
					sels(mg.Types[fd.Type.Base()], s.SelectionSet, msel.Sel, where+"/"+s.Name)
				case *ast.InlineFragment:
					dirs(where+"/...", s.Directives, msel.Dirs)
					next := parent
					if s.TypeCondition != "" {
						next = mg.Types[s.TypeCondition]
					}
					sels(next, s.SelectionSet, msel.Sel, where+"/...")
				case *ast.FragmentSpread:
					dirs(where+"/..."+s.Name, s.Directives, msel.Dirs)
					if visited[s.Name] || s.Definition == nil {
						continue
					}
					visited[s.Name] = true
					if mf := mfrags[s.Name]; mf != nil {
						dirs("fragment "+s.Name, s.Definition.Directives, mf.Dirs)
						sels(mg.Types[mf.TypeCond], s.Definition.SelectionSet, mf.Sel, "fragment "+s.Name)
					}
				}
			}
		}
		where := "operation " + op.Name
		dirs(where, op.Directives, mop.Dirs)
		for i, vd := range op.VariableDefinitions {
			if i < len(mop.Vars) {
				dirs(where+" $"+vd.Variable, vd.Directives, mop.Vars[i].Dirs)
			}
		}
		sels(mg.Types[mg.Roots[string(op.Operation)]], op.SelectionSet, mop.Sel, where)
	}
	if x.WantSample() && len(c.Get("doc")) < 500 && len(c.Get("modes")) > 0 {
		x.Sample(map[string]interface{}{"document": c.Get("doc"), "variable_modes": c.Get("modes"), "supplied_values": c.Get("values"), "verdict": "every argument map equals the reference evaluation"})
	}
}

// hasUnconvertibleNumber: the literal holds an integer beyond int64 or a float beyond float64.
func hasUnconvertibleNumber(v *model.Value) bool {
	if v == nil {
		return false
	}
	switch v.Kind {
	case model.VInt:
		_, err := strconv.ParseInt(v.Raw, 10, 64)
		return err != nil
	case model.VFloat:
		_, err := strconv.ParseFloat(v.Raw, 64)
		return err != nil
	case model.VList:
		for _, it := range v.Items {
			if hasUnconvertibleNumber(it) {
				return true
			}
		}
	case model.VObject:
		for _, f := range v.Fields {
			if hasUnconvertibleNumber(f.Value) {
				return true
			}
		}
	}
	return false
}
