package mon

import (
	"fmt"
	"strconv"
	"strings"

	gqlparser "github.com/vektah/gqlparser/v2"
	"github.com/vektah/gqlparser/v2/ast"
	"github.com/vektah/gqlparser/v2/gqlerror"
	"github.com/vektah/gqlparser/v2/parser"

	"verif/harness/internal/core"
	"verif/harness/internal/model"
	"verif/harness/internal/tsys"
)

// C17 — schema loading is independent of definition order and of how sources are split.
func init() {
	core.Register(&core.Monitor{
		ID: "C17",
		Rule: "generated type systems (valid, and with one injected fault whose involved definitions are known) are loaded once as a single file in generation order and then under random arrangements: " +
			"a permutation of the top-level items (whole items only) distributed over 1-5 named sources in random order, with forced patterns (every extension before its base type, interfaces after implementers, roots last, reverse order). " +
			"Oracle (metamorphic): every arrangement has the same verdict as the base arrangement; loading ones give the same canonical schema (types; fields, enum values, members, interfaces, directive applications as sets; relations; roots; directive definitions); " +
			"a load error names a file that contains one of the definitions involved in the injected fault. distinct = (fault code, #sources, pattern) classes; non-trivial = arrangements that differ from the base order",
		Assumptions: []string{
			"the involved definitions of a fault are those the injector edited (type names, @directive names, schema)",
			"canonical equality treats fields as sets per type as the property states; argument order within a field is kept",
		},
		Shards:          func(tier string) int { return 16 },
		Run:             c17Run,
		Check:           c17Check,
		DistinctClasses: []string{"arrangement-class"},
		MinEvaluations:  func(tier string) int64 { return 5000 },
		RequiredCounts:  []string{"arrangements_valid_equal", "arrangements_fault_rejected", "error_file_checked", "multi_source"},
	})
}

func c17Run(x *core.Ctx) {
	n := 150 // x16 = 2.4k schemas x 12 arrangements
	arr := 12
	if !x.Quick() {
		n, arr = 2500, 40
	}
	r := x.Rand(uint64(x.Shard))
	rn := &model.Renderer{}
	if x.Shard == 3 {
		// definitions that make one BIG source (more tokens than any per-source budget someone might introduce: ~2^16 and
		// a bit) load the same from one file and from three
		var big []*model.Item
		nt := 440 + r.Intn(60)
		for k := 0; k < nt; k++ {
			it := &model.Item{Kind: "type", Name: fmt.Sprintf("Big%d", k)}
			for f := 0; f < 50; f++ {
				it.Fields = append(it.Fields, &model.FieldDef{Name: fmt.Sprintf("f%d", f), Type: &model.Type{Name: "Int"}})
			}
			it.Fields = append(it.Fields, &model.FieldDef{Name: "next", Type: &model.Type{Name: fmt.Sprintf("Big%d", (k+1)%nt)}})
			big = append(big, it)
		}
		big = append(big, &model.Item{Kind: "type", Name: "Query", Fields: []*model.FieldDef{{Name: "big", Type: &model.Type{Name: "Big0"}}}})
		third := len(big) / 3
		bc := core.NewCase("arrangement", "base", rn.RenderSDoc(&model.SDoc{Items: big}), "fault", "", "involved", "", "pattern", "big-one-file-vs-three", "n", "3",
			"src0", rn.RenderSDoc(&model.SDoc{Items: big[2*third:]}), "src1", rn.RenderSDoc(&model.SDoc{Items: big[:third]}), "src2", rn.RenderSDoc(&model.SDoc{Items: big[third : 2*third]}))
		x.Do(bc, func() { c17Check(x, bc) })
		x.Count("big_source_arrangements")
	}
	for i := 0; i < n; i++ {
		items := tsys.Schema(r, &tsys.GenOpts{Descs: i%4 == 0, Extensions: true, ExtOnly: i%5 == 0, Small: i%3 == 0})
		code, involved := "", ""
		if i%2 == 1 {
			f := tsys.Faults[r.Intn(len(tsys.Faults))]
			if i%8 == 3 {
				f = tsys.ExtraFaults[r.Intn(len(tsys.ExtraFaults))]
			}
			out, inv, ok := f.Inject(r, tsys.CloneItems(items))
			if ok {
				items, code, involved = out, f.Code, strings.Join(inv, ",")
			}
		}
		base := rn.RenderSDoc(&model.SDoc{Items: items})
		for a := 0; a < arr; a++ {
			order, pattern := c17Order(r, items, a)
			k := 1 + r.Intn(5)
			if a%4 == 0 {
				k = 1
			}
			if k > len(order) {
				k = len(order)
			}
			// cut the order into k consecutive groups, then shuffle the groups (sources in any order)
			cuts := map[int]bool{}
			for len(cuts) < k-1 {
				cuts[1+r.Intn(len(order)-1)] = true
			}
			var groups [][]*model.Item
			var cur []*model.Item
			for j, it := range order {
				if cuts[j] && len(cur) > 0 {
					groups = append(groups, cur)
					cur = nil
				}
				cur = append(cur, it)
			}
			groups = append(groups, cur)
			if pattern == "random" || a%2 == 1 {
				p := r.Perm(len(groups))
				sh := make([][]*model.Item, len(groups))
				for j, q := range p {
					sh[j] = groups[q]
				}
				groups = sh
			}
			kv := []string{"base", base, "fault", code, "involved", involved, "pattern", pattern, "n", strconv.Itoa(len(groups))}
			// one arrangement in three is written with comments, byte order marks and odd line ends between its tokens,
			// one in five has a byte order mark at the head of every source (files saved by an editor that writes them)
			srn := rn
			if a%3 == 2 {
				srn = &model.Renderer{R: r.Fork(uint64(i*64 + a)), Trivia: 2}
			}
			for j, g := range groups {
				text := srn.RenderSDoc(&model.SDoc{Items: g})
				if a%5 == 4 {
					text = "\ufeff" + text
				}
				kv = append(kv, fmt.Sprintf("src%d", j), text)
			}
			c := core.NewCase("arrangement", kv...)
			x.Do(c, func() { c17Check(x, c) })
		}
	}
}

// c17Order returns the items in a new order following a named pattern.
func c17Order(r *core.Rand, items []*model.Item, a int) ([]*model.Item, string) {
	out := append([]*model.Item{}, items...)
	stable := func(key func(*model.Item) int) {
		// stable partition by key (keeps the relative order of the extensions of one type)
		var res []*model.Item
		for k := 0; k < 4; k++ {
			for _, it := range out {
				if key(it) == k {
					res = append(res, it)
				}
			}
		}
		out = res
	}
	switch a % 6 {
	case 0:
		return out, "as-generated"
	case 1:
		stable(func(it *model.Item) int {
			if it.Extend {
				return 0
			}
			return 1
		})
		return out, "extensions-first"
	case 2:
		stable(func(it *model.Item) int {
			switch {
			case it.Kind == "type" || it.Kind == "union":
				return 0
			case it.Kind == "interface":
				return 2
			}
			return 1
		})
		return out, "interfaces-after-implementers"
	case 3:
		for i, j := 0, len(out)-1; i < j; i, j = i+1, j-1 {
			out[i], out[j] = out[j], out[i]
		}
		return out, "reversed"
	case 4:
		stable(func(it *model.Item) int {
			if it.Kind == "schema" || strings.Contains(it.Name, "Query") || strings.Contains(it.Name, "Root") || it.Name == "Mutation" || it.Name == "Subscription" {
				return 1
			}
			return 0
		})
		return out, "roots-last"
	}
	p := r.Perm(len(out))
	sh := make([]*model.Item, len(out))
	for i, q := range p {
		sh[i] = out[q]
	}
	return sh, "random"
}

var c17Canon = model.CanonOpts{FieldsAsSets: true}

func c17Check(x *core.Ctx, c *core.Case) {
	n, _ := strconv.Atoi(c.Get("n"))
	baseSchema, baseErr := gqlparser.LoadSchema(&ast.Source{Name: "base.graphql", Input: c.Get("base")})
	var srcs []*ast.Source
	// in one arrangement out of three one of the sources has no name (an in-memory snippet next to files): an error about a
	// definition in it has no file to name, and must not borrow the name of another source
	unnamed := -1
	if h := core.HashString(c.Get("base") + c.Get("src0")); n > 1 && h%3 == 0 {
		unnamed = int(h>>8) % n
		x.Count("arrangements_with_an_unnamed_source")
	}
	for j := 0; j < n; j++ {
		name := fmt.Sprintf("part%d.graphql", j)
		if j == unnamed {
			name = ""
		}
		srcs = append(srcs, &ast.Source{Name: name, Input: c.Get(fmt.Sprintf("src%d", j))})
	}
	if h := core.HashString(c.Get("src0") + c.Get("base")); h%4 == 1 && !strings.HasPrefix(c.Get("fault"), "reserved-name") {
		// one of the sources is flagged BuiltIn (a framework's own definitions): the flag says where a definition comes
		// from, not that it is exempt from anything - except from the ban on names that begin with "__", which the prelude
		// itself needs lifted (so faults of that class are not played with a flagged source: the unflagged base arrangement
		// would not be comparable)
		srcs[int(h>>4)%n].BuiltIn = true
		x.Count("arrangements_with_a_builtin_flagged_source")
	}
	s, err := gqlparser.LoadSchema(srcs...)
	fault := c.Get("fault")
	pattern := c.Get("pattern")
	x.Distinct("arrangement-class", fmt.Sprintf("%s/%d/%s", fault, n, pattern))
	if pattern != "as-generated" || n > 1 {
		x.Nontrivial()
	}
	if n > 1 {
		x.Count("multi_source")
	}
	if (baseErr == nil) != (err == nil) {
		x.Violate("verdict-differs("+orStr(fault, "valid")+")", fmt.Sprintf("arrangement [%s, %d sources]: %s", pattern, n, errStr(err)), "base arrangement: "+errStr(baseErr))
		return
	}
	if err == nil {
		a, b := model.CanonSchema(baseSchema, c17Canon), model.CanonSchema(s, c17Canon)
		if a != b {
			la, lb := model.FirstDiff(a, b)
			x.Violate("model-differs("+firstWords(strings.TrimSpace(la)+" "+strings.TrimSpace(lb), 1)+")", fmt.Sprintf("arrangement [%s, %d sources]: %s", pattern, n, lb), "base arrangement: "+la)
			return
		}
		if fault == "" {
			x.Count("arrangements_valid_equal")
		} else {
			x.Count("arrangements_faulted_but_loading_equal")
		}
		if x.WantSample() && n >= 3 {
			x.Sample(map[string]interface{}{"sources": n, "pattern": pattern, "first_source": clipStr(srcs[0].Input, 300), "verdict": "loads; canonical schema equals the single-file base arrangement"})
		}
		return
	}
	x.Count("arrangements_fault_rejected")
	// the error must name a file that holds one of the involved definitions
	if fault == "" {
		return
	}
	ge, ok := err.(*gqlerror.Error)
	if !ok {
		return
	}
	file, _ := ge.Extensions["file"].(string)
	involved := map[string]bool{}
	for _, nme := range strings.Split(c.Get("involved"), ",") {
		involved[nme] = true
	}
	allowed := map[string]bool{}
	// definitions involved in ANY violation the reference checker sees (an injected fault can make
	// other definitions violate a rule too, e.g. the implementers of an edited interface)
	var all []*model.Item
	perSrc := map[string][]*model.Item{}
	for _, src := range srcs {
		sd, perr := parser.ParseSchema(src)
		if perr != nil {
			return
		}
		its := model.FromSchemaAST(sd).Items
		perSrc[src.Name] = its
		all = append(all, its...)
	}
	viol, extra := tsys.Check(tsys.Merge(all))
	if len(extra) > 0 {
		x.Count("error_file_unjudged:extra-rule")
		return
	}
	for _, v := range viol {
		for _, nme := range v.Involved {
			involved[nme] = true
		}
	}
	for _, src := range srcs {
		for _, it := range perSrc[src.Name] {
			key := it.Name
			switch it.Kind {
			case "schema":
				key = "schema"
			case "directive":
				key = "@" + it.Name
			}
			if involved[key] {
				allowed[src.Name] = true
			}
		}
	}
	x.Count("error_file_checked")
	if len(allowed) == 0 {
		x.Count("error_file_unjudged:no-involved-definition-found")
		return
	}
	if !allowed[file] {
		var l []string
		for f := range allowed {
			l = append(l, f)
		}
		x.Violate("file("+fault+")", fmt.Sprintf("error %q names file %q", ge.Message, file), "one of the files holding an involved definition: "+strings.Join(l, ","))
	}
}

func orStr(a, b string) string {
	if a == "" {
		return b
	}
	return a
}

func errStr(e error) string {
	if e == nil {
		return "loads"
	}
	return "error: " + e.Error()
}
