package mon

import (
	"fmt"
	"strings"

	"github.com/vektah/gqlparser/v2/ast"
	"github.com/vektah/gqlparser/v2/parser"

	"verif/harness/internal/core"
	"verif/harness/internal/gen"
	"verif/harness/internal/model"
	"verif/harness/internal/ref"
)

// C06 — the schema parser accepts exactly the type-system grammar and builds a faithful tree.
func init() {
	core.Register(&core.Monitor{
		ID: "C06",
		Rule: "(1) every token sequence up to length B over 39 type-system token classes (punctuators, Name, Int, String, BlockString, the ten definition keywords, implements/on/repeatable/query, FIELD/OBJECT location names, `true`, and Strings whose content is a keyword) and, beyond B, " +
			"every one-token extension of every viable prefix up to length V (quick B=3,V=6; thorough B=4,V=7) is judged by an Earley recognizer running the Appendix-B type-system grammar as data and by ParseSchema; " +
			"(2) type-system documents rendered from random trees with random ignored-token placement, and their single-token mutations (delete, duplicate, swap, substitute, keyword-as-string, variable-in-const-position), are judged the same way; " +
			"(3) accepted unmutated renderings must give back the generated tree (definitions, extensions, fields, arguments, enum values, members, interfaces, locations, descriptions, directives, in source order) under two trivia placements; " +
			"(4) ParseSchema/ParseSchemas over sources with mixed BuiltIn flags (same source name reused with different text) must mark exactly the definitions and extensions of built-in sources. " +
			"distinct = (verdict, first-three-token-classes, length) classes, recognizer rejection reasons and definition-kind shapes; non-trivial = sequences judged after at least two tokens, accepted trees, mutants",
		Assumptions: []string{
			"the grammar is Appendix B of the October 2021 specification (type-system definitions and extensions)",
			"beyond length B only extensions of viable prefixes are enumerated; longer tails of non-viable prefixes are sampled",
		},
		Shards:          func(tier string) int { return 16 },
		Run:             c06Run,
		Check:           c06Check,
		DistinctClasses: []string{"seq-class", "reject-reason", "shape"},
		MinEvaluations:  func(tier string) int64 { return 100000 },
		RequiredCounts:  []string{"seq_accept_agree", "seq_reject_agree", "tree_roundtrips", "mutants_judged", "viable_prefixes_extended", "builtin_flags_checked"},
	})
}

func gp(s string) gramTok   { return gramTok{s, ref.GTok{Kind: ref.KPunct, Val: s}} }
func gn(s string) gramTok   { return gramTok{s, ref.GTok{Kind: ref.KName, Val: s}} }
func gstr(s string) gramTok { return gramTok{`"` + s + `"`, ref.GTok{Kind: ref.KString}} }

var c06Alphabet = []gramTok{
	gp("{"), gp("}"), gp("("), gp(")"), gp("["), gp("]"), gp(":"), gp("="), gp("!"), gp("@"), gp("|"), gp("&"), gp("$"),
	gn("a"), {"1", ref.GTok{Kind: ref.KInt}}, gstr("s"), {`"""b"""`, ref.GTok{Kind: ref.KBlock}},
	gn("schema"), gn("scalar"), gn("type"), gn("interface"), gn("union"), gn("enum"), gn("input"), gn("directive"), gn("extend"),
	gn("implements"), gn("on"), gn("ON"), gn("repeatable"), gn("query"), gn("FIELD"), gn("OBJECT"), gn("true"),
	gstr("on"), gstr("implements"), gstr("schema"), gstr("query"), gstr("repeatable"), gstr("extend"),
}

func c06Run(x *core.Ctx) {
	deep := map[int]bool{}
	for i := len(c06Alphabet) - 6; i < len(c06Alphabet); i++ {
		deep[i] = true
	}
	e := &seqEnum{x: x, g: ref.TypeSystemGrammar, alpha: c06Alphabet, kind: "src", B: 3, V: 6, r: x.Rand(uint64(x.Shard), 7), deepOnly: deep,
		parse: func(src string) error {
			_, err := parser.ParseSchema(&ast.Source{Name: "seq.graphql", Input: src})
			return err
		}}
	if !x.Quick() {
		e.B, e.V = 4, 7
	}
	e.run(x.Shard, x.NShards)

	n := 2400
	if !x.Quick() {
		n = 62500
	}
	r := x.Rand(uint64(x.Shard))
	for i := 0; i < n; i++ {
		d := gen.SchemaDoc(r, &gen.SOpts{Hostile: i%4 == 0, KeywordNames: i%2 == 0, MaxItems: 4})
		rn := &model.Renderer{R: r.Fork(uint64(i)), BlockValue: ref.BlockStringValue, Trivia: 2}
		toks := rn.SDocTokens(d)
		switch {
		case i%4 == 0:
			plain := (&model.Renderer{}).Text(toks)
			c := core.NewCase("tree", "src", rn.Text(toks), "plain", plain, "canon", d.Canon(true))
			x.Do(c, func() { c06Check(x, c) })
		case i%16 == 5:
			// built-in flags over several sources sharing one name
			k := 2 + r.Intn(3)
			kv := []string{"n", fmt.Sprint(k)}
			for j := 0; j < k; j++ {
				dj := gen.SchemaDoc(r, &gen.SOpts{MaxItems: 3})
				kv = append(kv, fmt.Sprintf("src%d", j), rn.RenderSDoc(dj), fmt.Sprintf("builtin%d", j), fmt.Sprint(r.Bool()))
			}
			c := core.NewCase("builtin", kv...)
			x.Do(c, func() { c06Check(x, c) })
		default:
			var mt []model.Tok
			switch i % 8 {
			case 1:
				mt = mutateKeywordString(r, toks)
			case 2:
				mt = mutateVarInConst(r, toks)
			case 3:
				mt = mutateBrokenLexeme(r, toks)
			default:
				mt = mutateTokens(r, toks)
			}
			c := core.NewCase("mutant", "src", rn.Text(mt))
			x.Do(c, func() { c06Check(x, c) })
		}
	}
}

func c06Check(x *core.Ctx, c *core.Case) {
	parse := func(name string) func(string) (interface{}, error) {
		return func(s string) (interface{}, error) {
			d, err := parser.ParseSchema(&ast.Source{Name: name, Input: s})
			if err != nil {
				return nil, err
			}
			return d, nil
		}
	}
	switch c.Kind {
	case "src":
		gramJudgeText(x, ref.TypeSystemGrammar, c.Get("src"), parse("seq.graphql"))
	case "mutant":
		x.Count("mutants_judged")
		gramJudgeText(x, ref.TypeSystemGrammar, c.Get("src"), parse("mutant.graphql"))
	case "tree":
		src := c.Get("src")
		res, ok := gramJudgeText(x, ref.TypeSystemGrammar, src, parse("tree.graphql"))
		if !ok || res == nil {
			return
		}
		got := model.FromSchemaAST(res.(*ast.SchemaDocument))
		x.Count("tree_roundtrips")
		x.Nontrivial()
		shape := ""
		for _, it := range got.Items {
			shape += it.Kind[:2]
			if it.Extend {
				shape += "+"
			}
		}
		x.Distinct("shape", shape)
		if want := c.Get("canon"); got.Canon(true) != want {
			x.Violate("tree-differs("+firstDiffLine(want, got.Canon(true))+")", got.Canon(true), want)
			return
		}
		checkTypeTexts(x, res)
		// a string value (default, directive argument) written as a block string is a block value in the tree, one written
		// in quotes a quoted one
		if rr := ref.LexFrame(src); rr.Abstain == "" && !rr.Failed {
			starts := map[int]ref.Tok{}
			for _, t := range rr.Toks {
				starts[t.Start] = t
			}
			walkAST(res, nil, func(v *ast.Value) {
				if (v.Kind != ast.StringValue && v.Kind != ast.BlockValue) || v.Position == nil {
					return
				}
				t, ok := starts[v.Position.Start]
				if !ok || (t.Kind != ref.KBlock && t.Kind != ref.KString) {
					return // where values are is C04's business
				}
				x.Count("string_value_kinds_compared")
				if (t.Kind == ref.KBlock) != (v.Kind == ast.BlockValue) {
					x.Violate("tree-differs(string-kinds)", fmt.Sprintf("value kind %d for a %s token", v.Kind, t.Kind), "BlockValue for block strings, StringValue for quoted ones")
				}
			})
		}
		if plain := c.Get("plain"); plain != "" {
			d2, err := parser.ParseSchema(&ast.Source{Name: "plain.graphql", Input: plain})
			if err != nil {
				x.Violate("trivia-sensitive(verdict)", "single-space rendering rejected: "+err.Error(), "same verdict for both renderings")
			} else if g2 := model.FromSchemaAST(d2); g2.Canon(true) != got.Canon(true) {
				x.Violate("trivia-sensitive(tree)", g2.Canon(true), got.Canon(true))
			}
		}
		if x.WantSample() && len(src) < 300 {
			x.Sample(map[string]interface{}{"rendered": src, "verdict": "accepted by grammar and parser; tree equals the generated tree under both trivia placements"})
		}
	case "builtin":
		c06Builtin(x, c)
	}
}

// c06Builtin: definitions and extensions carry the BuiltIn flag of the source they were written in.
func c06Builtin(x *core.Ctx, c *core.Case) {
	var n int
	fmt.Sscan(c.Get("n"), &n)
	var srcs []*ast.Source
	for j := 0; j < n; j++ {
		srcs = append(srcs, &ast.Source{Name: "prelude.graphql", Input: c.Get(fmt.Sprintf("src%d", j)), BuiltIn: c.Get(fmt.Sprintf("builtin%d", j)) == "true"})
	}
	check := func(entry string, sd *ast.SchemaDocument, only *ast.Source) {
		flag := func(kind string, def *ast.Definition) {
			if def.Position == nil || def.Position.Src == nil {
				return
			}
			src := def.Position.Src
			found := false
			for _, s := range srcs {
				if s == src {
					found = true
				}
			}
			if !found {
				x.Violate("builtin-flag("+kind+"):foreign-source:"+entry, def.Name+" is positioned in a source that was not passed in", "a definition written in one of the parsed sources")
				return
			}
			x.Count("builtin_flags_checked")
			if def.BuiltIn != src.BuiltIn {
				x.Violate("builtin-flag("+kind+"):"+entry, fmt.Sprintf("%s %s: BuiltIn=%v, its source has BuiltIn=%v", kind, def.Name, def.BuiltIn, src.BuiltIn), "flag of the source")
			}
		}
		for _, d := range sd.Definitions {
			flag("definition", d)
		}
		for _, d := range sd.Extensions {
			flag("extension", d)
		}
	}
	wantDefs := 0
	allOK := true
	var wantOrder []string
	for _, s := range srcs {
		sd, err := parser.ParseSchema(s)
		if err != nil {
			allOK = false
			continue
		}
		wantDefs += len(sd.Definitions) + len(sd.Extensions)
		for _, d := range sd.Definitions {
			wantOrder = append(wantOrder, d.Name)
		}
		for _, d := range sd.Definitions {
			if d.Position.Src != s {
				x.Violate("builtin-flag(definition):foreign-source:ParseSchema", d.Name+" is not positioned in the source that was parsed", "positions point into the parsed source")
			}
		}
		check("ParseSchema", sd, s)
	}
	if !allOK {
		x.Count("builtin_case_with_syntax_error")
		return
	}
	x.Nontrivial()
	sd, err := parser.ParseSchemas(srcs...)
	if err != nil {
		x.Violate("builtin-flag:ParseSchemas-rejects", err.Error(), "every source parses alone")
		return
	}
	if got := len(sd.Definitions) + len(sd.Extensions); got != wantDefs {
		x.Violate("builtin-flag:merged-count", fmt.Sprintf("%d definitions+extensions after merging", got), fmt.Sprintf("%d", wantDefs))
	}
	check("ParseSchemas", sd, nil)
	// source order: the merged document lists the definitions of the first source, then those of the second, ...
	var gotOrder []string
	for _, d := range sd.Definitions {
		gotOrder = append(gotOrder, d.Name)
	}
	if strings.Join(gotOrder, ",") != strings.Join(wantOrder, ",") {
		x.Violate("builtin-flag:merged-order", strings.Join(gotOrder, ","), strings.Join(wantOrder, ","))
	}
	sd2, err := parser.ParseSchemasWithLimit(0, srcs...)
	if err == nil {
		check("ParseSchemasWithLimit", sd2, nil)
	}
	// Merge, the exported building block of ParseSchemas: one parsed document merged into two fresh documents, each of which
	// then receives another document - what the first assembly lists must not change when the second is put together
	if len(srcs) >= 2 {
		base, _ := parser.ParseSchema(srcs[0])
		extra1, _ := parser.ParseSchema(srcs[1])
		extra2, _ := parser.ParseSchema(srcs[len(srcs)-1])
		if base != nil && extra1 != nil && extra2 != nil {
			names := func(d *ast.SchemaDocument) string {
				var b strings.Builder
				for _, x := range d.Definitions {
					b.WriteString("def " + x.Name + ";")
				}
				for _, x := range d.Extensions {
					b.WriteString("ext " + x.Name + ";")
				}
				for _, x := range d.Directives {
					b.WriteString("dir " + x.Name + ";")
				}
				fmt.Fprintf(&b, "schema %d/%d", len(d.Schema), len(d.SchemaExtension))
				return b.String()
			}
			one, two := &ast.SchemaDocument{}, &ast.SchemaDocument{}
			one.Merge(base)
			two.Merge(base)
			one.Merge(extra1)
			before := names(one)
			two.Merge(extra2)
			two.Merge(extra1)
			x.Count("merge_assemblies")
			if after := names(one); after != before {
				x.Violate("merge:assembly-changed-by-another", after, before)
			}
			if got, want := names(base), names(mustParse(srcs[0])); got != want {
				x.Violate("merge:merged-document-changed", got, want)
			}
		}
	}
}

func mustParse(s *ast.Source) *ast.SchemaDocument {
	d, err := parser.ParseSchema(s)
	if err != nil {
		return &ast.SchemaDocument{}
	}
	return d
}
