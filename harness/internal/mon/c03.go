package mon

import (
	"fmt"
	"strings"

	"verif/harness/internal/core"
	"verif/harness/internal/ref"
)

// C03 — tokenisation conforms to the October 2021 lexical grammar.
func init() {
	core.Register(&core.Monitor{
		ID: "C03",
		Rule: "every input is lexed by the real lexer (ReadToken until EOF/error) and by an independent reference lexer transcribed from spec §2.1; kinds, character extents and semantic values of all tokens " +
			"and the success/failure point are compared. Inputs: all strings up to length 5 (quick) / 6 (thorough) over the 19 lexically significant symbols, all block-string bodies up to length 7 / 9 over 6 symbols (two variants), " +
			"random long token soups with Unicode, escapes, CR/LF/CRLF, BOMs, plus ignored-token insertion (metamorphic). distinct_nontrivial counts inputs (distinct by construction in the enumerations) that yield at least one token or a lexical failure; distinct token-kind trigrams and reference failure reasons are reported under distinct_class_sizes",
		Assumptions: []string{
			"the reference lexer is a faithful transcription of the October 2021 lexical grammar (comments are returned as tokens because gqlparser exposes them)",
			"abstains (counted, not judged) on invalid UTF-8, source characters above U+FFFF and \\u escapes in the surrogate range",
			"error positions are not compared here (C01/C04); only that both sides fail after the same token prefix",
		},
		Shards: func(tier string) int { return 32 },
		Run:    c03Run,
		Check:  func(x *core.Ctx, c *core.Case) { c03Compare(x, c.Get("src")) },

		MinEvaluations: func(tier string) int64 { return 2000000 },
		RequiredCounts: []string{"lexed_ok", "lexed_fail", "kind:BlockString", "kind:String", "kind:Float", "metamorphic_checks"},
		Exhaustive:     func(tier string) bool { return false },
	})
}

var c03Alphabet = []string{`"`, `\`, "n", "u", "0", "1", "a", "E", ".", "-", "+", "#", " ", "\n", "\r", ",", "$", "{", "é"}
var c03BlockAlphabet = []string{" ", "a", "\n", `"`, `\`, "\r"}

func enumerate(alpha []string, length int, shard, nshards int, f func(s string)) {
	total := 1
	for i := 0; i < length; i++ {
		total *= len(alpha)
	}
	var b strings.Builder
	for idx := shard; idx < total; idx += nshards {
		b.Reset()
		v := idx
		for i := 0; i < length; i++ {
			b.WriteString(alpha[v%len(alpha)])
			v /= len(alpha)
		}
		f(b.String())
	}
}

func c03Run(x *core.Ctx) {
	maxLen, maxBlock, nRandom := 5, 7, 200000
	if !x.Quick() {
		maxLen, maxBlock, nRandom = 6, 9, 5000000
	}
	for l := 0; l <= maxLen; l++ {
		enumerate(c03Alphabet, l, x.Shard, x.NShards, func(s string) {
			x.DoLite("src", "src", s, func() { c03Compare(x, s) })
		})
	}
	for l := 0; l <= maxBlock; l++ {
		enumerate(c03BlockAlphabet, l, x.Shard, x.NShards, func(body string) {
			s := `"""` + body + `"""`
			x.DoLite("src", "src", s, func() { c03Compare(x, s) })
			s2 := `"""` + strings.ReplaceAll(body, " ", "\t") + `""" x`
			if s2 != s+" x" {
				x.DoLite("src", "src", s2, func() { c03Compare(x, s2) })
			}
		})
	}
	// escape sweep: every character after a backslash, and every 3- and 4-character body of a \u escape over an alphabet
	// that includes the characters number parsers are lenient about (signs, blank, underscore, radix prefix)
	for b := 0; b < 0x80; b++ {
		if b%x.NShards != x.Shard {
			continue
		}
		for _, tail := range []string{`"`, `0041"`, `x"`} {
			s := "\"\\" + string(rune(b)) + tail
			x.DoLite("src", "src", s, func() { c03Compare(x, s) })
		}
	}
	for _, l := range []int{3, 4, 5} {
		enumerate(c03HexAlphabet, l, x.Shard, x.NShards, func(body string) {
			s := `"\u` + body + `"`
			x.DoLite("src", "src", s, func() { c03Compare(x, s) })
		})
	}
	// a name, a number or a punctuator directly followed by a character above U+007F whose LOW byte is that of a letter, a
	// digit, an underscore, a quote or a blank: arithmetic on a truncated character takes it for one
	for lo := 0; lo < 256; lo++ {
		if lo%x.NShards != x.Shard {
			continue
		}
		for _, hi := range []rune{0x01, 0x02, 0x4E, 0xFF} {
			ch := string(hi<<8 | rune(lo))
			for _, pre := range []string{"a", "_", "1", "1.5", "{", "\"x", "#c", "$"} {
				s := pre + ch + " b"
				x.DoLite("src", "src", s, func() { c03Compare(x, s) })
			}
		}
	}
	// characters that decoders and scanners treat specially (the replacement character, the last BMP characters, C1
	// controls, line and paragraph separators, a no-break space), each inside every kind of token that holds text and
	// between tokens
	for ci, ch := range []string{"\uFFFD", "\uFFFE", "\uFFFF", "\u0080", "\u0085", "\u00A0", "\u2028", "\u2029", "\u3000", "\uD7FF", "\uE000", "\u200B"} {
		if ci%x.NShards != x.Shard {
			continue
		}
		for _, f := range []string{"# caf%s au lait\n b", "\"caf%s\" b", "\"\"\"caf%s\n  x\"\"\" b", "\"\"\"%s\"\"\"", "a %s b", "a%s", "#%s", "\"\\n%s\" b", "\"\"\"\n %s\n\"\"\""} {
			s := fmt.Sprintf(f, ch)
			x.DoLite("src", "src", s, func() { c03Compare(x, s) })
		}
	}
	// lexemes longer than the buffers line readers and scanners start with (64 KiB and a bit, 1 MiB and a bit)
	if x.Shard < 6 {
		for _, n := range []int{65536 + 7, 70001, 1<<20 + 3} {
			if !x.Quick() || n < 1<<20 {
				long := strings.Repeat("abcdefghi ", n/10)
				word := strings.Repeat("a1_", n/3)
				for k, s := range []string{
					"\"\"\"" + long + "\"\"\" b", "\"\"\"first\n  " + long + "\n  last\"\"\" b", "# " + long + "\nb", "\"" + long + "\" b", word + " b", strings.Repeat("7", n) + " b",
					"\"\"\"\n" + strings.Repeat("  x\n", n/4) + "\"\"\" b", "a" + strings.Repeat(" ", n) + "b", "a" + strings.Repeat("\n", n) + "b",
				} {
					if k%6 == x.Shard {
						s := s
						x.DoLite("src", "src", s, func() { c03Compare(x, s) })
						x.Count("long_lexemes")
					}
				}
			}
		}
	}
	r := x.Rand(uint64(x.Shard))
	per := nRandom / x.NShards
	for i := 0; i < per; i++ {
		s := randomLexSoup(r, soupPieces, 5+r.Intn(60))
		if i%2 == 0 {
			s = randomLexSoup(r, validPieces, 5+r.Intn(60))
		}
		x.DoLite("src", "src", s, func() { c03Compare(x, s) })
		if i%4 == 0 {
			x.DoLite("meta", "src", s, func() { c03Metamorphic(x, r, s) })
		}
	}
}

var c03HexAlphabet = []string{"0", "4", "1", "a", "F", "g", "+", "-", " ", "_", "x", "é"}

var soupPieces = []string{
	`"\u+041"`, `"\u-041"`, `"\u 041"`, `"\u0x41"`, `"\u00_1"`, "# \x00 c", "# \x0c\n", "#\x1b",
	"{", "}", "(", ")", "[", "]", ":", "=", "!", "$", "@", "|", "&", "...", "..", ".", "a", "B_9", "_", "on", "e", "E", "x1",
	"0", "-0", "1", "-12", "007", "1.5", "1.", ".5", "1e5", "1E+5", "1e-", "1.5e10", "-1.5E-3", "2e", "9a", "3.x", "1..2", "0x1", "0.0", "12345678901234567890",
	`""`, `"a"`, `"é"`, `"\n"`, `"é"`, `"éx"`, `"\uD83D"`, `"\q"`, `"\u12"`, `"\u12G4"`, `"unterminated`, `"\"`, `"\\"`, `"a\tb"`, "\"tab\there\"", `"\/"`, `"\b\f\r\t"`,
	`"""`, `""""""`, `"""a"""`, "\"\"\"\n  a\n   b\n  \"\"\"", `"""\""""""`, `"""a""""`, "\"\"\" x\r\n y\"\"\"", `"""\"""`, "\"\"\"a\\\"\"\"",
	"#", "# c", "#\t{", "# é \"", "# ", " ", "  ", "\t", ",", "\n", "\r", "\r\n", "\n\r", "\uFEFF", " ", " ", "é", "日本", "\x00", "\x07", "\x7f", "'", "`", "?", "%", "^", "~", ";", "\\", "*", "<", ">", "+", "-", "/",
}

var validPieces = []string{
	"{", "}", "(", ")", "[", "]", ":", "=", "!", "$", "@", "|", "&", "...", "a", "B_9", "_", "on", "e", "E", "x1", "query", "true",
	"0", "-0", "1", "-12", "1.5", "1e5", "1E+5", "1.5e10", "-1.5E-3", "0.0", "12345678901234567890",
	`""`, `"a"`, `"\u00e9"`, `"\n"`, `"é"`, `"éx"`, `"\\"`, `"a\tb"`, "\"tab\there\"", `"\/"`, `"\b\f\r\t"`, `"\""`, `"日本"`,
	`""""""`, `"""a"""`, "\"\"\"\n  a\n   b\n  \"\"\"", `"""\""""""`, "\"\"\" x\r\n y\"\"\"", "\"\"\"a\\\"\"\" b\"\"\"", "\"\"\"first\n\tsecond\n\t\tthird\"\"\"",
	"# c\n", "#\t{\r", "# é \"\r\n", "#\n", " ", "\t", ",", "\n", "\r", "\r\n", "\uFEFF",
}

func randomLexSoup(r *core.Rand, pieces []string, n int) string {
	var b strings.Builder
	for i := 0; i < n; i++ {
		b.WriteString(pieces[r.Intn(len(pieces))])
		if r.Chance(2, 3) {
			b.WriteString(r.Pick(" ", " ", "\n", ",", "\t", "\r\n", "\r"))
		}
	}
	return b.String()
}

func c03Compare(x *core.Ctx, src string) {
	rr := ref.Lex(src)
	frame := false
	if rr.Abstain == "surrogate-escape" && !strings.Contains(src, `""""`) {
		// \uD800-\uDFFF: the October 2021 grammar admits any four hex digits, what the VALUE of such an escape is it does
		// not say (the reference abstains on that), but the text still is a token sequence: kinds, extents and where lexing
		// fails are judged, the values of quoted strings are not
		if fr := ref.LexFrame(src); fr.Abstain == "" {
			rr, frame = fr, true
			x.Count("surrogate_escape_texts_judged_for_kinds_and_extents")
		}
	}
	if rr.Abstain != "" {
		x.Count("abstain:" + rr.Abstain)
		return
	}
	il := runLexer("", src)
	if il.Stuck || il.Overrun {
		x.Violate("lexer-progress", fmt.Sprintf("stuck=%v overrun=%v reads=%d", il.Stuck, il.Overrun, il.Reads), "every ReadToken advances")
		return
	}
	if len(rr.Toks) > 0 || rr.Failed {
		x.Nontrivial()
	}
	if rr.Failed {
		x.Count("lexed_fail")
		x.Distinct("fail-reason", rr.Reason)
	} else {
		x.Count("lexed_ok")
	}
	for i := range rr.Toks {
		k := rr.Toks[i].Kind
		x.Count("kind:" + k.String())
		if i >= 2 {
			x.Distinct("trigram", fmt.Sprintf("%d%d%d", rr.Toks[i-2].Kind, rr.Toks[i-1].Kind, k))
		}
	}
	sample := func(verdict string) {
		if x.WantSample() && len(rr.Toks) >= 3 && len(src) > 8 {
			var ks []string
			for _, t := range rr.Toks {
				ks = append(ks, describeRefTok(t))
			}
			x.Sample(map[string]interface{}{"input": src, "reference_tokens": ks, "reference_failure": rr.Reason, "verdict": verdict})
		}
	}
	n := len(rr.Toks)
	if len(il.Toks) > n {
		n = len(il.Toks)
	}
	for i := 0; i < n; i++ {
		refHas, implHas := i < len(rr.Toks), i < len(il.Toks)
		switch {
		case refHas && implHas:
			rt, it := rr.Toks[i], il.Toks[i]
			ik, iv, ok := implKindToRef(it)
			if !ok {
				x.Violate("impl-token-kind-unknown", describeImplTok(it), describeRefTok(rt))
				return
			}
			if ik != rt.Kind || (ik == ref.KPunct && iv != rt.Value) {
				x.Violate(fmt.Sprintf("kind-differs(ref=%s/impl=%s)", rt.Kind, ik), describeImplTok(it), describeRefTok(rt))
				return
			}
			if it.Pos.Start != rt.Start || it.Pos.End != rt.End {
				x.Violate(fmt.Sprintf("extent-differs(%s)", rt.Kind), describeImplTok(it), describeRefTok(rt))
				return
			}
			if ik != ref.KPunct && iv != rt.Value && !(frame && rt.Kind == ref.KString) {
				x.Violate(fmt.Sprintf("value-differs(%s:%s)", rt.Kind, valueSubReason(src, rt, iv)), describeImplTok(it), describeRefTok(rt))
				return
			}
		case refHas && !implHas:
			if il.Err != nil {
				x.Violate(fmt.Sprintf("ref-token(%s)/impl-rejects", rr.Toks[i].Kind), "error: "+il.Err.Error(), describeRefTok(rr.Toks[i]))
			} else {
				x.Violate(fmt.Sprintf("missing-token(%s)", rr.Toks[i].Kind), "EOF", describeRefTok(rr.Toks[i]))
			}
			return
		case !refHas && implHas:
			ik, _, _ := implKindToRef(il.Toks[i])
			if rr.Failed {
				x.Violate(fmt.Sprintf("ref-rejects(%s)/impl-token(%s)", rr.Reason, ik), describeImplTok(il.Toks[i]), fmt.Sprintf("no token at character %d (%s)", rr.FailAt, rr.Reason))
			} else {
				x.Violate(fmt.Sprintf("extra-token(%s)", ik), describeImplTok(il.Toks[i]), "end of input")
			}
			return
		}
	}
	if rr.Failed && il.Err == nil {
		x.Violate(fmt.Sprintf("ref-rejects(%s)/impl-eof", rr.Reason), "EOF without error", fmt.Sprintf("no token at character %d", rr.FailAt))
		return
	}
	if !rr.Failed && il.Err != nil {
		x.Violate("ref-eof/impl-rejects", "error: "+il.Err.Error(), "clean end of input")
		return
	}
	sample("token streams agree")
}

func valueSubReason(src string, rt ref.Tok, implVal string) string {
	switch rt.Kind {
	case ref.KBlock:
		rs := []rune(src)
		if rt.End < len(rs) && rs[rt.End] == '"' {
			return "block-close-run" // the closing quotes are followed by more quotes
		}
		if strings.Contains(rt.Text, "\r") && strings.Contains(implVal, "\r") {
			return "crlf-normalise"
		}
		trim := func(s string) string { return strings.TrimLeft(s, " \t") }
		il, rl := strings.Split(implVal, "\n"), strings.Split(rt.Value, "\n")
		if len(il) == len(rl) && len(il) > 0 && il[0] == rl[0] {
			same := true
			for i := 1; i < len(il); i++ {
				if trim(il[i]) != trim(rl[i]) {
					same = false
				}
			}
			if same {
				return "block-common-indent"
			}
		}
		if strings.Trim(implVal, " \t\n") == strings.Trim(rt.Value, " \t\n") {
			return "block-trim"
		}
		return "block-other"
	case ref.KString:
		return "escape"
	}
	return "text"
}

var metaTrivia = []string{" ", "\t", ",", "\n", "\r", "\r\n", "\uFEFF", "#c\n", "# x \r", " , \n "}

// c03Metamorphic: for a lexable input, inserting an ignored sequence at a token boundary
// leaves kinds and values unchanged.
func c03Metamorphic(x *core.Ctx, r *core.Rand, src string) {
	rr := ref.Lex(src)
	if rr.Abstain != "" || rr.Failed || len(rr.Toks) == 0 {
		return
	}
	base := runLexer("", src)
	if base.Err != nil || len(base.Toks) != len(rr.Toks) {
		return // disagreement is reported by the direct comparison
	}
	for i, t := range base.Toks {
		if t.Pos.Start != rr.Toks[i].Start || t.Pos.End != rr.Toks[i].End {
			return // token boundaries differ (direct comparison reports it); no common boundary to insert at
		}
		if k, v, _ := implKindToRef(t); k != rr.Toks[i].Kind || (k != ref.KPunct && v != rr.Toks[i].Value) {
			return
		}
	}
	rs := []rune(src)
	t := rr.Toks[r.Intn(len(rr.Toks))]
	off := t.End
	if t.Kind == ref.KComment {
		return // inserting after a comment would extend the comment
	}
	if r.Bool() {
		off = t.Start
	}
	tv := metaTrivia[r.Intn(len(metaTrivia))]
	mod := string(rs[:off]) + tv + string(rs[off:])
	x.Current().Set("modified", mod)
	after := runLexer("", mod)
	x.Count("metamorphic_checks")
	sig := func(l *implLex) string {
		var b strings.Builder
		for _, t := range l.Toks {
			if t.Kind.Name() == "Comment" {
				continue
			}
			fmt.Fprintf(&b, "%s:%q;", t.Kind.Name(), t.Value)
		}
		if l.Err != nil {
			b.WriteString("ERR")
		}
		return b.String()
	}
	if a, b := sig(base), sig(after); a != b {
		cls := "space"
		switch {
		case strings.Contains(tv, "#"):
			cls = "comment"
		case strings.Contains(tv, "\uFEFF"):
			cls = "bom"
		case strings.ContainsAny(tv, "\r\n"):
			cls = "line-terminator"
		case strings.Contains(tv, ","):
			cls = "comma"
		}
		x.Violate("trivia-sensitive("+cls+")", b, a)
	}
}
