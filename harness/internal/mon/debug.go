package mon

import (
	"encoding/json"
	"fmt"
	"os"

	"github.com/vektah/gqlparser/v2/validator"

	"verif/harness/internal/core"
	"verif/harness/internal/model"
	"verif/harness/internal/rval"
)

// DebugPair prints the reference validator's findings and the library's errors for a replay file or case file.
func DebugPair(path string) {
	b, err := os.ReadFile(path)
	if err != nil {
		fmt.Println(err)
		return
	}
	var rf struct {
		Case *core.Case `json:"case"`
	}
	var c core.Case
	if json.Unmarshal(b, &rf) == nil && rf.Case != nil {
		c = *rf.Case
	} else if err := json.Unmarshal(b, &c); err != nil {
		fmt.Println(err)
		return
	}
	x := core.NewCtx("DEBUG", "quick", 1, 0, 1)
	schema, mg, doc := loadPair(x, &c)
	if schema == nil {
		fmt.Println("pair does not load", x.Res.HarnessBugs)
		return
	}
	ref := rval.Validate(mg, model.FromAST(doc))
	fmt.Println("--- reference findings")
	for _, f := range ref.Findings() {
		fmt.Printf("%s  %s\n", f.Code(), f.Detail)
	}
	fmt.Println("abstain:", ref.Abstain)
	fmt.Println("--- library errors")
	for _, e := range validator.Validate(schema, doc) {
		fmt.Printf("[%s] %s %v\n", e.Rule, e.Message, e.Locations)
	}
}
