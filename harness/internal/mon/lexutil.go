package mon

import (
	"fmt"
	"unicode/utf8"

	"github.com/vektah/gqlparser/v2/ast"
	"github.com/vektah/gqlparser/v2/gqlerror"
	"github.com/vektah/gqlparser/v2/lexer"

	"verif/harness/internal/ref"
)

// implLex drives the real lexer to the end of the input.
type implLex struct {
	Toks    []lexer.Token // without the final EOF
	EOF     *lexer.Token
	Err     error
	ErrTok  lexer.Token
	Reads   int
	Stuck   bool // a ReadToken call neither advanced nor ended: progress invariant broken
	Overrun bool // more ReadToken calls than characters+1
}

func runLexer(name, src string) *implLex {
	out := &implLex{}
	lx := lexer.New(&ast.Source{Name: name, Input: src})
	limit := utf8.RuneCountInString(src) + 2
	if !utf8.ValidString(src) {
		limit = len(src) + 2
	}
	prevEnd := -1
	for {
		t, err := lx.ReadToken()
		out.Reads++
		if err != nil {
			out.Err = err
			out.ErrTok = t
			return out
		}
		if t.Kind == lexer.EOF {
			tt := t
			out.EOF = &tt
			return out
		}
		if t.Pos.End <= prevEnd || t.Pos.End <= t.Pos.Start {
			out.Stuck = true
		}
		prevEnd = t.Pos.End
		out.Toks = append(out.Toks, t)
		if out.Reads > limit {
			out.Overrun = true
			return out
		}
	}
}

func implKindToRef(t lexer.Token) (ref.Kind, string, bool) {
	switch t.Kind {
	case lexer.Name:
		return ref.KName, t.Value, true
	case lexer.Int:
		return ref.KInt, t.Value, true
	case lexer.Float:
		return ref.KFloat, t.Value, true
	case lexer.String:
		return ref.KString, t.Value, true
	case lexer.BlockString:
		return ref.KBlock, t.Value, true
	case lexer.Comment:
		return ref.KComment, t.Value, true
	case lexer.Bang, lexer.Dollar, lexer.Amp, lexer.ParenL, lexer.ParenR, lexer.Spread, lexer.Colon, lexer.Equals,
		lexer.At, lexer.BracketL, lexer.BracketR, lexer.BraceL, lexer.BraceR, lexer.Pipe:
		return ref.KPunct, t.Kind.String(), true
	}
	return 0, "", false
}

func describeImplTok(t lexer.Token) string {
	return fmt.Sprintf("%s[%d,%d)%q", t.Kind.Name(), t.Pos.Start, t.Pos.End, t.Value)
}

func describeRefTok(t ref.Tok) string {
	return fmt.Sprintf("%s[%d,%d)%q", t.Kind, t.Start, t.End, t.Value)
}

// errLocation extracts (line, column, file) from a located error; ok=false if it has none.
func errLocation(err error) (line, col int, file string, ok bool) {
	ge, isG := err.(*gqlerror.Error)
	if !isG || ge == nil || len(ge.Locations) == 0 {
		return 0, 0, "", false
	}
	f, _ := ge.Extensions["file"].(string)
	return ge.Locations[0].Line, ge.Locations[0].Column, f, true
}
