package mon

import (
	"fmt"
	"strings"

	"github.com/vektah/gqlparser/v2/ast"
	"github.com/vektah/gqlparser/v2/parser"

	"verif/harness/internal/core"
)

// c07SpecBuiltins is what the October 2021 specification says every schema contains (section 3.5 built-in scalars, 3.13
// built-in directives, 4.2 the introspection types), written down here independently of the library's own prelude text.
// Later drafts ADD to it (deprecation of arguments and input fields, @oneOf, @defer), so the check is one of inclusion:
// everything listed here is in a loaded schema, with this type, these arguments and these defaults.
const c07SpecBuiltins = `
scalar Int scalar Float scalar String scalar Boolean scalar ID
directive @skip(if: Boolean!) on FIELD | FRAGMENT_SPREAD | INLINE_FRAGMENT
directive @include(if: Boolean!) on FIELD | FRAGMENT_SPREAD | INLINE_FRAGMENT
directive @deprecated(reason: String = "No longer supported") on FIELD_DEFINITION | ENUM_VALUE
directive @specifiedBy(url: String!) on SCALAR
type __Schema { description: String types: [__Type!]! queryType: __Type! mutationType: __Type subscriptionType: __Type directives: [__Directive!]! }
type __Type { kind: __TypeKind! name: String description: String fields(includeDeprecated: Boolean = false): [__Field!] interfaces: [__Type!] possibleTypes: [__Type!]
  enumValues(includeDeprecated: Boolean = false): [__EnumValue!] inputFields: [__InputValue!] ofType: __Type specifiedByURL: String }
enum __TypeKind { SCALAR OBJECT INTERFACE UNION ENUM INPUT_OBJECT LIST NON_NULL }
type __Field { name: String! description: String args: [__InputValue!]! type: __Type! isDeprecated: Boolean! deprecationReason: String }
type __InputValue { name: String! description: String type: __Type! defaultValue: String }
type __EnumValue { name: String! description: String isDeprecated: Boolean! deprecationReason: String }
type __Directive { name: String! description: String locations: [__DirectiveLocation!]! args: [__InputValue!]! isRepeatable: Boolean! }
enum __DirectiveLocation { QUERY MUTATION SUBSCRIPTION FIELD FRAGMENT_DEFINITION FRAGMENT_SPREAD INLINE_FRAGMENT VARIABLE_DEFINITION SCHEMA SCALAR OBJECT
  FIELD_DEFINITION ARGUMENT_DEFINITION INTERFACE UNION ENUM ENUM_VALUE INPUT_OBJECT INPUT_FIELD_DEFINITION }
`

var c07SpecDoc *ast.SchemaDocument

// c07CheckBuiltins: the loaded schema contains what the specification says every schema contains. redefined names the
// directives the user's own source declares again (those follow the user's text and are not compared).
func c07CheckBuiltins(x *core.Ctx, schema *ast.Schema, redefined map[string]bool) {
	if c07SpecDoc == nil {
		d, err := parser.ParseSchema(&ast.Source{Name: "spec.graphql", Input: c07SpecBuiltins})
		if err != nil {
			x.HarnessBug("the specification's built-ins do not parse: " + err.Error())
			return
		}
		c07SpecDoc = d
	}
	x.Count("schemas_compared_with_the_specified_builtins")
	// types are compared by structure (name, non-null mark and element of every level), not by the text they print: a
	// nullable type NAMED "String!" prints like a non-null String
	ts := func(t *ast.Type) string {
		var b strings.Builder
		for ; t != nil; t = t.Elem {
			fmt.Fprintf(&b, "(%q nonnull=%v list=%v)", t.NamedType, t.NonNull, t.Elem != nil)
		}
		return b.String()
	}
	val := func(v *ast.Value) string {
		if v == nil {
			return "<none>"
		}
		return v.String()
	}
	args := func(where string, want, got ast.ArgumentDefinitionList) bool {
		for _, wa := range want {
			ga := got.ForName(wa.Name)
			switch {
			case ga == nil:
				x.Violate("builtins:missing-argument", where+"("+wa.Name+":) is missing", "argument "+wa.Name+": "+wa.Type.String())
				return false
			case ts(ga.Type) != ts(wa.Type) || val(ga.DefaultValue) != val(wa.DefaultValue):
				x.Violate("builtins:argument-differs", fmt.Sprintf("%s(%s: %s = %s)", where, ga.Name, ga.Type.String(), val(ga.DefaultValue)), fmt.Sprintf("%s: %s = %s", wa.Name, wa.Type.String(), val(wa.DefaultValue)))
				return false
			}
		}
		for _, ga := range got {
			if want.ForName(ga.Name) == nil && ga.Type.NonNull && ga.DefaultValue == nil {
				x.Violate("builtins:extra-required-argument", where+"("+ga.Name+": "+ga.Type.String()+")", "no required argument beyond the specified ones")
				return false
			}
		}
		return true
	}
	for _, wd := range c07SpecDoc.Directives {
		if redefined[wd.Name] {
			continue
		}
		gd := schema.Directives[wd.Name]
		if gd == nil {
			x.Violate("builtins:missing-directive", "@"+wd.Name+" is not in the loaded schema", "every schema has it")
			return
		}
		if !args("@"+wd.Name, wd.Arguments, gd.Arguments) {
			return
		}
		for _, wl := range wd.Locations {
			found := false
			for _, gl := range gd.Locations {
				found = found || gl == wl
			}
			if !found {
				x.Violate("builtins:missing-location", fmt.Sprintf("@%s on %v", wd.Name, gd.Locations), "allowed on "+string(wl))
				return
			}
		}
	}
	// the introspection fields on the query root (section 4.1)
	if q := schema.Query; q != nil {
		meta, _ := parser.ParseSchema(&ast.Source{Name: "meta.graphql", Input: "type Q { __schema: __Schema! __type(name: String!): __Type }"})
		for _, wf := range meta.Definitions[0].Fields {
			gf := q.Fields.ForName(wf.Name)
			switch {
			case gf == nil:
				x.Violate("builtins:missing-field", "the query root lacks "+wf.Name, wf.Name+": "+wf.Type.String())
				return
			case ts(gf.Type) != ts(wf.Type):
				x.Violate("builtins:field-type-differs", fmt.Sprintf("%s.%s: %s %s", q.Name, wf.Name, gf.Type.String(), ts(gf.Type)), wf.Type.String()+" "+ts(wf.Type))
				return
			}
			if !args(q.Name+"."+wf.Name, wf.Arguments, gf.Arguments) {
				return
			}
			for _, ga := range gf.Arguments {
				if schema.Types[ga.Type.Name()] == nil {
					x.Violate("builtins:argument-of-unknown-type", fmt.Sprintf("%s.%s(%s: %s)", q.Name, wf.Name, ga.Name, ts(ga.Type)), "a type of the schema")
					return
				}
			}
		}
	}
	for _, wt := range c07SpecDoc.Definitions {
		gt := schema.Types[wt.Name]
		switch {
		case gt == nil:
			x.Violate("builtins:missing-type", wt.Name+" is not in the loaded schema", "every schema has it")
			return
		case gt.Kind != wt.Kind:
			x.Violate("builtins:kind-differs", fmt.Sprintf("%s is %s", wt.Name, gt.Kind), string(wt.Kind))
			return
		}
		for _, wf := range wt.Fields {
			gf := gt.Fields.ForName(wf.Name)
			switch {
			case gf == nil:
				x.Violate("builtins:missing-field", wt.Name+"."+wf.Name+" is missing", wf.Name+": "+wf.Type.String())
				return
			case ts(gf.Type) != ts(wf.Type):
				x.Violate("builtins:field-type-differs", fmt.Sprintf("%s.%s: %s", wt.Name, wf.Name, gf.Type.String()), wf.Type.String())
				return
			}
			if !args(wt.Name+"."+wf.Name, wf.Arguments, gf.Arguments) {
				return
			}
		}
		for _, wv := range wt.EnumValues {
			if gt.EnumValues.ForName(wv.Name) == nil {
				x.Violate("builtins:missing-enum-value", wt.Name+" lacks "+wv.Name, strings.TrimSpace(wv.Name))
				return
			}
		}
	}
}
