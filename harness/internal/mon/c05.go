package mon

import (
	"fmt"
	"sort"
	"strings"

	"github.com/vektah/gqlparser/v2/ast"
	"github.com/vektah/gqlparser/v2/parser"

	"verif/harness/internal/core"
	"verif/harness/internal/gen"
	"verif/harness/internal/model"
	"verif/harness/internal/ref"
)

// C05 — the query parser accepts exactly the executable grammar and builds a faithful tree.
func init() {
	core.Register(&core.Monitor{
		ID: "C05",
		Rule: "(1) every token sequence up to length B over 18 token classes ({ } ( ) [ ] : = ! $ @ ... Name on query fragment Int and a String whose content is `on`) and, beyond B, every one-token extension of every viable prefix up to length V " +
			"(quick B=5,V=7; thorough B=6,V=8) is judged by an Earley recognizer running the Appendix-B executable grammar as data and by ParseQuery; " +
			"(2) documents rendered from random syntax trees with random ignored-token placement, and their single-token mutations (delete, duplicate, swap, substitute, keyword-as-string, variable-in-const-position), are judged the same way; " +
			"(3) accepted unmutated renderings must give back the generated tree (operations, names, variable definitions, selections, aliases, arguments, values, directives, types, in source order) under two different trivia placements. " +
			"distinct = distinct (verdict, first-three-token-classes, length) classes for (1) plus distinct recognizer rejection reasons and tree shapes for (2,3); non-trivial = sequences the grammar accepts or rejects after at least two tokens",
		Assumptions: []string{
			"the grammar is Appendix B of the October 2021 specification plus variable definitions on fragment definitions (documented experimental feature of the library)",
			"beyond length B only extensions of viable prefixes are enumerated; longer tails of non-viable prefixes are sampled (one random extension each), relying on the parser's sticky error",
		},
		Shards:          func(tier string) int { return 16 },
		Run:             c05Run,
		Check:           c05Check,
		DistinctClasses: []string{"seq-class", "reject-reason", "shape"},
		MinEvaluations:  func(tier string) int64 { return 100000 },
		RequiredCounts:  []string{"seq_accept_agree", "seq_reject_agree", "tree_roundtrips", "mutants_judged", "viable_prefixes_extended"},
		Exhaustive:      func(tier string) bool { return false },
	})
}

type gramTok struct {
	text string
	g    ref.GTok
}

var c05Alphabet = []gramTok{
	{"{", ref.GTok{Kind: ref.KPunct, Val: "{"}}, {"}", ref.GTok{Kind: ref.KPunct, Val: "}"}}, {"(", ref.GTok{Kind: ref.KPunct, Val: "("}}, {")", ref.GTok{Kind: ref.KPunct, Val: ")"}},
	{"[", ref.GTok{Kind: ref.KPunct, Val: "["}}, {"]", ref.GTok{Kind: ref.KPunct, Val: "]"}}, {":", ref.GTok{Kind: ref.KPunct, Val: ":"}}, {"=", ref.GTok{Kind: ref.KPunct, Val: "="}},
	{"!", ref.GTok{Kind: ref.KPunct, Val: "!"}}, {"$", ref.GTok{Kind: ref.KPunct, Val: "$"}}, {"@", ref.GTok{Kind: ref.KPunct, Val: "@"}}, {"...", ref.GTok{Kind: ref.KPunct, Val: "..."}},
	{"a", ref.GTok{Kind: ref.KName, Val: "a"}}, {"on", ref.GTok{Kind: ref.KName, Val: "on"}}, {"ON", ref.GTok{Kind: ref.KName, Val: "ON"}}, {"query", ref.GTok{Kind: ref.KName, Val: "query"}}, {"fragment", ref.GTok{Kind: ref.KName, Val: "fragment"}},
	{"1", ref.GTok{Kind: ref.KInt}}, {`"on"`, ref.GTok{Kind: ref.KString}},
}

// seqEnum drives the bounded-exhaustive enumeration shared by C05 and C06.
type seqEnum struct {
	x        *core.Ctx
	g        *ref.Grammar
	alpha    []gramTok
	parse    func(src string) error
	B, V     int
	r        *core.Rand
	kind     string
	deepOnly map[int]bool // alphabet indices that are only recursed into at depth < 4 (keyword-content strings)
	viable   bool         // set by visit while it judges a sequence the recognizer has not given up on
}

func (e *seqEnum) judge(seq []int, refAccept bool, reason string) {
	x := e.x
	var sb strings.Builder
	for i, a := range seq {
		if i > 0 {
			sb.WriteByte(' ')
		}
		sb.WriteString(e.alpha[a].text)
	}
	src := sb.String()
	x.DoLite(e.kind, "src", src, func() {
		err := e.parse(src)
		cls := func(v string) {
			k := v + "/" + fmt.Sprint(len(seq))
			for i := 0; i < len(seq) && i < 3; i++ {
				k += "/" + e.alpha[seq[i]].text
			}
			x.Distinct("seq-class", k)
		}
		switch {
		case refAccept && err == nil:
			x.Count("seq_accept_agree")
			x.Nontrivial()
			cls("acc")
			if x.WantSample() && len(seq) >= 5 {
				x.Sample(map[string]interface{}{"token_sequence": src, "grammar": "derivable", "parser": "accepted"})
			}
		case !refAccept && err != nil:
			x.Count("seq_reject_agree")
			if len(seq) >= 3 {
				x.Nontrivial()
			}
			cls("rej")
		case refAccept && err != nil:
			x.Violate("impl-rejects/ref-accepts("+templateOf(err.Error())+")", src+" -> "+err.Error(), "derivable from the grammar")
		default:
			x.Violate("impl-accepts/ref-rejects("+reason+")", src+" -> parsed", "not derivable: "+reason)
		}
	})
	if !e.viable || len(seq) == 0 {
		return
	}
	// ignored tokens never change the verdict: the same sequence of a viable prefix with a comment after every token, the
	// last one ended by the end of the input (after seeded change C06-wave10-A: a comment read while looking for an optional
	// part overwrote the parser's note of what it had consumed, so `extend scalar D # c` was accepted)
	sb.Reset()
	for i, a := range seq {
		if i > 0 {
			sb.WriteString("\n")
		}
		sb.WriteString(e.alpha[a].text)
		sb.WriteString(" # c")
	}
	src2 := sb.String()
	x.DoLite(e.kind, "src", src2, func() {
		err := e.parse(src2)
		x.Count("seq_commented_renderings")
		switch {
		case refAccept && err != nil:
			x.Violate("comments-change-verdict:impl-rejects/ref-accepts("+templateOf(err.Error())+")", src2+" -> "+err.Error(), "derivable from the grammar")
		case !refAccept && err == nil:
			x.Violate("comments-change-verdict:impl-accepts/ref-rejects("+reason+")", src2+" -> parsed", "not derivable: "+reason)
		}
	})
}

// run enumerates all sequences whose first two symbols fall into this shard.
func (e *seqEnum) run(shard, nshards int) {
	st0 := e.g.Begin()
	// the empty sequence and all length-1 sequences belong to shard 0
	if shard == 0 {
		e.judge(nil, st0.Accepting(), "empty-document")
	}
	n := len(e.alpha)
	k := 0
	for a := 0; a < n; a++ {
		sa := st0.Step(e.alpha[a].g)
		if shard == 0 {
			e.visit([]int{a}, st0, sa, false)
		}
		for b := 0; b < n; b++ {
			k++
			if k%nshards != shard {
				continue
			}
			var sb *ref.State
			if sa != nil {
				sb = sa.Step(e.alpha[b].g)
			}
			e.visit([]int{a, b}, sa, sb, true)
		}
	}
}

// visit judges seq (whose recognizer state is st, nil when not viable; parent is the state before
// the last token) and, when recurse is set, its extensions.
func (e *seqEnum) visit(seq []int, parent, st *ref.State, recurse bool) {
	depth := len(seq)
	deadReason := ""
	if st != nil {
		reason := ""
		acc := st.Accepting()
		if !acc {
			reason = "end-of-input in " + st.Expecting()
		}
		e.viable = true
		e.judge(seq, acc, reason)
		e.viable = false
	} else {
		deadReason = "not viable"
		if parent != nil {
			deadReason = parent.WhyNot(e.alpha[seq[depth-1]].g)
		}
		e.judge(seq, false, deadReason)
	}
	if !recurse || depth >= e.V {
		return
	}
	if st == nil {
		if depth >= e.B {
			// beyond the brute-force bound: every one-token extension of a freshly dead prefix (the
			// parser's sticky error must hold whatever follows, in particular closing brackets)
			if parent != nil {
				for a := range e.alpha {
					e.x.Count("dead_prefix_extensions")
					e.judge(append(append([]int{}, seq...), a), false, deadReason)
				}
			}
			return
		}
		for a := range e.alpha {
			e.visit(append(append([]int{}, seq...), a), nil, nil, true)
		}
		return
	}
	if depth >= e.B {
		e.x.Count("viable_prefixes_extended")
	}
	for a := range e.alpha {
		if e.deepOnly[a] && depth >= 4 && depth >= e.B {
			continue
		}
		e.visit(append(append([]int{}, seq...), a), st, st.Step(e.alpha[a].g), true)
	}
}

func tokClassOf(t ref.GTok) string {
	switch t.Kind {
	case ref.KPunct:
		return "'" + t.Val + "'"
	case ref.KName:
		return "Name(" + t.Val + ")"
	case ref.KBlock:
		return "String"
	}
	return t.Kind.String()
}

func c05Run(x *core.Ctx) {
	e := &seqEnum{x: x, g: ref.ExecutableGrammar, alpha: c05Alphabet, kind: "src", B: 5, V: 7, r: x.Rand(uint64(x.Shard), 7),
		parse: func(src string) error {
			_, err := parser.ParseQuery(&ast.Source{Name: "seq.graphql", Input: src})
			return err
		}}
	if !x.Quick() {
		e.B, e.V = 6, 8
	}
	e.run(x.Shard, x.NShards)

	// counts: grammatical documents with MANY siblings of one construct (nothing is nested): a parser keeps no budget that
	// siblings could use up
	if x.Shard < 8 {
		cr := x.Rand(uint64(x.Shard), 55)
		for _, N := range []int{130, 210, 300, 520} {
			N += cr.Intn(20)
			var b strings.Builder
			rep := func(pre string, item func(i int) string, post string) string {
				b.Reset()
				b.WriteString(pre)
				for i := 0; i < N; i++ {
					b.WriteString(item(i))
				}
				b.WriteString(post)
				return b.String()
			}
			var text string
			switch x.Shard {
			case 0:
				text = rep("{ ", func(i int) string { return fmt.Sprintf("a%d: f(x: {k: %d, l: {}}) ", i, i) }, "}")
			case 1:
				text = rep("{ ", func(i int) string { return fmt.Sprintf("a%d: f(x: [%d, []]) ", i, i) }, "}")
			case 2:
				text = rep("query Q(", func(i int) string { return fmt.Sprintf("$v%d: [Int!] = [%d] @d ", i, i) }, ") { f }")
			case 3:
				text = rep("{ ", func(i int) string { return fmt.Sprintf("...F%d ", i) }, "} ") + rep("", func(i int) string { return fmt.Sprintf("fragment F%d on T { a } ", i) }, "")
			case 4:
				text = rep("{ f ", func(i int) string { return fmt.Sprintf("@d%d(a: {}) ", i) }, "}")
			case 5:
				text = rep("", func(i int) string { return fmt.Sprintf("query Q%d { a } ", i) }, "")
			case 6:
				text = rep("{ f(x: {", func(i int) string { return fmt.Sprintf("k%d: {} ", i) }, "}) }")
			default:
				text = rep("{ f(x: [", func(i int) string { return "{} [] " }, "]) ... on T { ") + rep("", func(i int) string { return "... { a } " }, "} }")
			}
			c := core.NewCase("mutant", "src", text)
			x.Do(c, func() { c05Check(x, c) })
			x.Count("many_sibling_documents")
		}
	}
	n := 3200
	if !x.Quick() {
		n = 125000
	}
	r := x.Rand(uint64(x.Shard))
	for i := 0; i < n; i++ {
		d := gen.QueryDoc(r, &gen.QOpts{MaxDepth: 1 + r.Intn(3), Hostile: i%4 == 0, FragVars: true, VarDirs: true, KeywordNames: i%2 == 0})
		rn := &model.Renderer{R: r.Fork(uint64(i)), BlockValue: ref.BlockStringValue, Trivia: 2}
		toks := rn.DocTokens(d)
		if i%4 == 0 {
			// the unmutated rendering: verdict, tree, trivia independence
			plain := (&model.Renderer{}).Text(toks)
			c := core.NewCase("tree", "src", rn.Text(toks), "plain", plain, "canon", d.Canon())
			x.Do(c, func() { c05Check(x, c) })
			continue
		}
		var mt []model.Tok
		switch i % 8 {
		case 1:
			mt = mutateKeywordString(r, toks)
		case 2:
			mt = mutateVarInConst(r, toks)
		case 3:
			mt = mutateBrokenLexeme(r, toks)
		default:
			mt = mutateTokens(r, toks)
		}
		c := core.NewCase("mutant", "src", rn.Text(mt))
		x.Do(c, func() { c05Check(x, c) })
	}
}

// mutateKeywordString replaces one keyword Name token by a String token with the same content.
func mutateKeywordString(r *core.Rand, toks []model.Tok) []model.Tok {
	out := append([]model.Tok{}, toks...)
	var idx []int
	for i, t := range out {
		if t.Kind == model.TName {
			switch t.Text {
			case "on", "query", "mutation", "subscription", "fragment", "schema", "type", "implements", "extend", "repeatable", "directive", "enum", "input", "union", "scalar", "interface":
				idx = append(idx, i)
			}
		}
	}
	if len(idx) == 0 {
		return mutateTokens(r, toks)
	}
	i := idx[r.Intn(len(idx))]
	if r.Chance(1, 3) {
		// the same word in another case: a Name like any other, not the keyword
		t := out[i].Text
		alt := strings.ToUpper(t)
		if r.Bool() {
			alt = strings.ToUpper(t[:1]) + t[1:]
		}
		out[i] = model.Tok{Kind: model.TName, Text: alt}
		return out
	}
	txt := `"` + out[i].Text + `"`
	if r.Chance(1, 3) {
		txt = `"""` + out[i].Text + `"""`
	}
	out[i] = model.Tok{Kind: model.TString, Text: txt, Val: out[i].Text}
	return out
}

// brokenLexemes are texts the lexical grammar admits no token for although a lenient reader of numbers or escapes might:
// a document with one of them in the place of a value is not derivable. (No unterminated block strings: they run on to the
// next quotes of the document, and where those are a run of more than three the library's deliberate reading - finding
// F-C03-03 - differs from the grammar's.)
var brokenLexemes = []string{`"\u+041"`, `"\u-041"`, `"\u 041"`, `"\u0x41"`, `"\u_041"`, `"\u00g1"`, `"\u41"`, `"\x41"`, `"\a"`, `"\'"`, `"\u{41}"`, `"a\`, `"\u004"`,
	`01`, `-01`, `00`, `1.`, `.5`, `1e`, `1e+`, `1e-+5`, `1e+-5`, `1E--1`, `1.e1`, `1..2`, `+1`, `0x10`, `1_000`, `-`, `1.0.0`, `0e`, `1e1.5`, `-.5`, `1e5e5`,
	`"a\nb`, "\"a\tb\u0001\""}

var strayChars = []string{"\u00a0", "\u2028", "\u2029", "\u0085", "\f", "\v", "\u200b", "\u3000", "\u2003", "\u00e9", "\u0663", "\u00aa", "~", "?", "%", "^", "\\", ";", "<", "'", "`", "*", "/", "\u2026", "\uff01", "\uff5b", "\x00", "\x7f", "..", "."}

// mutateBrokenLexeme replaces one value token (or a name after ':') by a broken lexeme.
func mutateBrokenLexeme(r *core.Rand, toks []model.Tok) []model.Tok {
	var idx []int
	for i, t := range toks {
		switch t.Kind {
		case model.TString, model.TBlock, model.TInt, model.TFloat:
			idx = append(idx, i)
		case model.TName:
			if i > 0 && toks[i-1].Kind == model.TPunct && toks[i-1].Text == ":" {
				idx = append(idx, i)
			}
		}
	}
	if len(idx) == 0 || r.Chance(1, 3) {
		// a character that is no token and not ignored either, as a token of its own between two others (look-alikes of
		// white space and of punctuators, letters outside ASCII)
		i := r.Intn(len(toks) + 1)
		out := append(append(append([]model.Tok{}, toks[:i]...), model.Tok{Kind: model.TPunct, Text: strayChars[r.Intn(len(strayChars))]}), toks[i:]...)
		return out
	}
	out := append([]model.Tok{}, toks...)
	out[idx[r.Intn(len(idx))]] = model.Tok{Kind: model.TString, Text: brokenLexemes[r.Intn(len(brokenLexemes))]}
	return out
}

// mutateVarInConst inserts a variable where the token before is '=' or ':' (default values, arguments):
// in constant contexts the grammar then rejects.
func mutateVarInConst(r *core.Rand, toks []model.Tok) []model.Tok {
	var idx []int
	for i, t := range toks {
		if t.Kind == model.TPunct && (t.Text == "=" || t.Text == ":" || t.Text == "[") && i+1 < len(toks) {
			idx = append(idx, i)
		}
	}
	if len(idx) == 0 {
		return mutateTokens(r, toks)
	}
	i := idx[r.Intn(len(idx))]
	out := append([]model.Tok{}, toks[:i+1]...)
	out = append(out, model.Tok{Kind: model.TPunct, Text: "$"}, model.Tok{Kind: model.TName, Text: "v"})
	// replace the following simple token when there is one, else insert
	j := i + 1
	if toks[j].Kind != model.TPunct {
		j++
	}
	return append(out, toks[j:]...)
}

func c05Check(x *core.Ctx, c *core.Case) {
	switch c.Kind {
	case "src":
		src := c.Get("src")
		gramJudgeText(x, ref.ExecutableGrammar, src, func(s string) (interface{}, error) {
			return parser.ParseQuery(&ast.Source{Name: "seq.graphql", Input: s})
		})
	case "mutant":
		x.Count("mutants_judged")
		gramJudgeText(x, ref.ExecutableGrammar, c.Get("src"), func(s string) (interface{}, error) {
			return parser.ParseQuery(&ast.Source{Name: "mutant.graphql", Input: s})
		})
	case "tree":
		src := c.Get("src")
		res, ok := gramJudgeText(x, ref.ExecutableGrammar, src, func(s string) (interface{}, error) {
			return parser.ParseQuery(&ast.Source{Name: "tree.graphql", Input: s})
		})
		if !ok || res == nil {
			return
		}
		got := model.FromAST(res.(*ast.QueryDocument))
		x.Count("tree_roundtrips")
		x.Nontrivial()
		shape, _, _ := shapeOf(got)
		x.Distinct("shape", shape)
		if want := c.Get("canon"); got.Canon() != want {
			x.Violate("tree-differs("+firstDiffLine(want, got.Canon())+")", got.Canon(), want)
			return
		}
		// what was written as a block string is a block-string value in the tree, what was written in quotes is a quoted
		// one: the kinds of the string tokens of the text, in order, are the kinds of the tree's string values, in order
		if rr := ref.LexFrame(src); rr.Abstain == "" && !rr.Failed {
			var written []string
			for _, t := range rr.Toks {
				switch t.Kind {
				case ref.KBlock:
					written = append(written, "block")
				case ref.KString:
					written = append(written, "quoted")
				}
			}
			type sv struct {
				at   int
				kind string
			}
			var inTree []sv
			var val func(v *ast.Value)
			val = func(v *ast.Value) {
				if v == nil {
					return
				}
				switch v.Kind {
				case ast.BlockValue:
					inTree = append(inTree, sv{v.Position.Start, "block"})
				case ast.StringValue:
					inTree = append(inTree, sv{v.Position.Start, "quoted"})
				}
				for _, ch := range v.Children {
					val(ch.Value)
				}
			}
			walkQueryValues(res.(*ast.QueryDocument), val)
			sort.Slice(inTree, func(i, j int) bool { return inTree[i].at < inTree[j].at })
			var kinds []string
			for _, e := range inTree {
				kinds = append(kinds, e.kind)
			}
			if strings.Join(kinds, ",") != strings.Join(written, ",") {
				x.Violate("tree-differs(string-kinds)", strings.Join(kinds, ","), "as written: "+strings.Join(written, ","))
				return
			}
			x.Count("string_kind_sequences_compared")
		}
		checkTypeTexts(x, res)
		checkQueryLookups(x, res.(*ast.QueryDocument))
		if plain := c.Get("plain"); plain != "" {
			d2, err := parser.ParseQuery(&ast.Source{Name: "plain.graphql", Input: plain})
			if err != nil {
				x.Violate("trivia-sensitive(verdict)", "single-space rendering rejected: "+err.Error(), "same verdict for both renderings")
			} else if g2 := model.FromAST(d2); g2.Canon() != got.Canon() {
				x.Violate("trivia-sensitive(tree)", g2.Canon(), got.Canon())
			}
		}
		if x.WantSample() && len(src) < 300 {
			x.Sample(map[string]interface{}{"rendered": src, "verdict": "accepted by grammar and parser; tree equals the generated tree under both trivia placements"})
		}
	}
}

// firstDiffLine names the kind of the first differing line of two canonical dumps.
func firstDiffLine(a, b string) string {
	la, lb := strings.Split(a, "\n"), strings.Split(b, "\n")
	for i := 0; i < len(la) || i < len(lb); i++ {
		var x, y string
		if i < len(la) {
			x = la[i]
		}
		if i < len(lb) {
			y = lb[i]
		}
		if x != y {
			f := strings.Fields(strings.TrimSpace(x))
			if len(f) == 0 {
				f = strings.Fields(strings.TrimSpace(y))
			}
			if len(f) > 0 {
				return f[0]
			}
			return "line"
		}
	}
	return "none"
}

// gramJudgeText compares the recognizer's verdict on the reference token stream of src with the
// parser's. It returns the parse result when both accept.
func gramJudgeText(x *core.Ctx, g *ref.Grammar, src string, parse func(string) (interface{}, error)) (interface{}, bool) {
	rr := ref.Lex(src)
	if rr.Abstain != "" {
		x.Count("abstain:" + rr.Abstain)
		return nil, false
	}
	res, err := parse(src)
	if rr.Failed {
		x.Count("lexically_invalid")
		if err == nil {
			if strings.Contains(src, `""""`) {
				// a block string closed by a run of more than three quotes: the library's deliberate reading (finding F-C03-03, judged by C03)
				x.Count("skipped:quote-run(F-C03-03)")
				return nil, false
			}
			// a text the lexical grammar admits no token sequence for is not derivable, whatever the lexer made of it
			x.Violate("impl-accepts/ref-rejects(lexical:"+rr.Reason+")", "parsed", "no token at character "+fmt.Sprint(rr.FailAt)+": "+rr.Reason)
		}
		return nil, false
	}
	ok, _, reason := g.Recognize(ref.GToksFromLex(rr.Toks))
	switch {
	case ok && err == nil:
		x.Count("text_accept_agree")
		return res, true
	case !ok && err != nil:
		x.Count("text_reject_agree")
		x.Distinct("reject-reason", reason)
		x.Nontrivial()
	case ok && err != nil:
		x.Violate("impl-rejects/ref-accepts("+templateOf(err.Error())+")", err.Error(), "derivable from the grammar")
	default:
		x.Violate("impl-accepts/ref-rejects("+reason+")", "parsed", "not derivable: "+reason)
	}
	return nil, false
}

// walkQueryValues calls f for every value written in the document (arguments of fields and directives, variable defaults).
func walkQueryValues(doc *ast.QueryDocument, f func(v *ast.Value)) {
	dirs := func(ds ast.DirectiveList) {
		for _, d := range ds {
			for _, a := range d.Arguments {
				f(a.Value)
			}
		}
	}
	var sels func(ss ast.SelectionSet)
	sels = func(ss ast.SelectionSet) {
		for _, sel := range ss {
			switch s := sel.(type) {
			case *ast.Field:
				for _, a := range s.Arguments {
					f(a.Value)
				}
				dirs(s.Directives)
				sels(s.SelectionSet)
			case *ast.InlineFragment:
				dirs(s.Directives)
				sels(s.SelectionSet)
			case *ast.FragmentSpread:
				dirs(s.Directives)
			}
		}
	}
	vars := func(vs ast.VariableDefinitionList) {
		for _, v := range vs {
			f(v.DefaultValue)
			dirs(v.Directives)
		}
	}
	for _, op := range doc.Operations {
		vars(op.VariableDefinitions)
		dirs(op.Directives)
		sels(op.SelectionSet)
	}
	for _, fr := range doc.Fragments {
		vars(fr.VariableDefinition)
		dirs(fr.Directives)
		sels(fr.SelectionSet)
	}
}

// checkQueryLookups: the lookup helpers of the tree's lists (what an executor calls to find the operation, a fragment, an
// argument) answer from what was written: the first entry of the name, nil for a name nothing has, and for operations the
// single operation when no name is asked for.
func checkQueryLookups(x *core.Ctx, doc *ast.QueryDocument) {
	bad := func(what, obs string) {
		x.Violate("lookup-helper("+what+")", obs, "the first listed entry of that name")
	}
	x.Count("lookup_documents")
	for i, op := range doc.Operations {
		first := i
		for j := 0; j < i; j++ {
			if doc.Operations[j].Name == op.Name {
				first = j
				break
			}
		}
		if got := doc.Operations.ForName(op.Name); got != doc.Operations[first] && !(op.Name == "" && len(doc.Operations) == 1) {
			bad("OperationList.ForName", fmt.Sprintf("operation %d %q not found", i, op.Name))
		}
		for _, vd := range op.VariableDefinitions {
			if got := op.VariableDefinitions.ForName(vd.Variable); got == nil || got.Variable != vd.Variable {
				bad("VariableDefinitionList.ForName", "$"+vd.Variable+" not found")
			}
		}
		if op.VariableDefinitions.ForName("\x00none") != nil {
			bad("VariableDefinitionList.ForName", "found a variable nothing declares")
		}
	}
	if len(doc.Operations) == 1 && doc.Operations.ForName("") != doc.Operations[0] {
		bad("OperationList.ForName(single)", "the only operation is not returned for the empty name")
	}
	if len(doc.Operations) > 1 {
		var anon *ast.OperationDefinition
		for _, op := range doc.Operations {
			if op.Name == "" {
				anon = op
				break
			}
		}
		if doc.Operations.ForName("") != anon {
			bad("OperationList.ForName(several)", "empty name among several operations does not give the first anonymous one (or nil)")
		}
	}
	if doc.Operations.ForName("\x00none") != nil {
		bad("OperationList.ForName", "found an operation nothing names")
	}
	for i, f := range doc.Fragments {
		first := i
		for j := 0; j < i; j++ {
			if doc.Fragments[j].Name == f.Name {
				first = j
				break
			}
		}
		if doc.Fragments.ForName(f.Name) != doc.Fragments[first] {
			bad("FragmentDefinitionList.ForName", "fragment "+f.Name+" not found")
		}
	}
	if doc.Fragments.ForName("\x00none") != nil {
		bad("FragmentDefinitionList.ForName", "found a fragment nothing names")
	}
	dirs := func(ds ast.DirectiveList) {
		for i, d := range ds {
			first, n := i, 0
			for j, d2 := range ds {
				if d2.Name == d.Name {
					if j < first {
						first = j
					}
					n++
				}
			}
			if ds.ForName(d.Name) != ds[first] {
				bad("DirectiveList.ForName", "@"+d.Name+" not found")
			}
			if len(ds.ForNames(d.Name)) != n {
				bad("DirectiveList.ForNames", fmt.Sprintf("@%s: %d of %d", d.Name, len(ds.ForNames(d.Name)), n))
			}
			args(x, d.Arguments, bad)
		}
		if ds.ForName("\x00none") != nil || len(ds.ForNames("\x00none")) != 0 {
			bad("DirectiveList.ForName", "found a directive nothing applies")
		}
	}
	var sel func(ss ast.SelectionSet)
	sel = func(ss ast.SelectionSet) {
		for _, s := range ss {
			switch s := s.(type) {
			case *ast.Field:
				args(x, s.Arguments, bad)
				dirs(s.Directives)
				sel(s.SelectionSet)
			case *ast.InlineFragment:
				dirs(s.Directives)
				sel(s.SelectionSet)
			case *ast.FragmentSpread:
				dirs(s.Directives)
			}
		}
	}
	for _, op := range doc.Operations {
		dirs(op.Directives)
		for _, vd := range op.VariableDefinitions {
			dirs(vd.Directives)
		}
		sel(op.SelectionSet)
	}
	for _, f := range doc.Fragments {
		dirs(f.Directives)
		sel(f.SelectionSet)
	}
}

func args(x *core.Ctx, as ast.ArgumentList, bad func(what, obs string)) {
	for i, a := range as {
		first := i
		for j := 0; j < i; j++ {
			if as[j].Name == a.Name {
				first = j
				break
			}
		}
		if as.ForName(a.Name) != as[first] {
			bad("ArgumentList.ForName", "argument "+a.Name+" not found")
		}
		var val func(v *ast.Value)
		val = func(v *ast.Value) {
			if v == nil {
				return
			}
			for k, ch := range v.Children {
				if v.Kind == ast.ObjectValue {
					f := k
					for j := 0; j < k; j++ {
						if v.Children[j].Name == ch.Name {
							f = j
							break
						}
					}
					if v.Children.ForName(ch.Name) != v.Children[f].Value {
						bad("ChildValueList.ForName", "object field "+ch.Name+" not found")
					}
				}
				val(ch.Value)
			}
		}
		val(a.Value)
	}
	if as.ForName("\x00none") != nil {
		bad("ArgumentList.ForName", "found an argument nothing passes")
	}
}
