package mon

import (
	"fmt"
	"sort"
	"strings"

	"github.com/vektah/gqlparser/v2/ast"
	"github.com/vektah/gqlparser/v2/gqlerror"
	"github.com/vektah/gqlparser/v2/parser"
	"github.com/vektah/gqlparser/v2/validator"
	"github.com/vektah/gqlparser/v2/validator/rules"

	"verif/harness/internal/core"
	"verif/harness/internal/dgen"
	"verif/harness/internal/model"
)

// C18 — rule sets compose.
func init() {
	core.Register(&core.Monitor{
		ID: "C18",
		Rule: "for fault-heavy generated (schema, document) pairs, every validation on a fresh parse: (1) Validate(s,d) equals Validate(s,d, the 27 registered rules in registration order) as ordered lists; " +
			"(2) each of the 31 exported rules is run alone, and for random subsets in random order (and the full set) the multiset of (rule, message, locations) must equal the multiset union of the members' own errors; " +
			"(3) every error produced by a rule run alone carries that rule's name; (5) for one pair in six the global registry goes through RemoveRule, RemoveRule of an unknown name, AddRule, ReplaceRule, ReplaceRule of a removed name and back, and after each step Validate(s,d) must equal Validate with the explicit list of what is registered in registration order; (4) each ...WithoutSuggestions variant must report its standard rule's errors, same locations, same messages with only a trailing 'Did you mean ...?' removed. " +
			"distinct = distinct (rule, message template) classes produced by single rules; non-trivial = pairs with at least one error",
		Assumptions: []string{
			"the registration order of the default rule set is the alphabetical order of the rule files (Go initialises a package's files in that order); clause (1) compares ordered lists against that order",
		},
		Shards:          func(tier string) int { return 16 },
		Run:             c18Run,
		Check:           c18Check,
		DistinctClasses: []string{"rule-template"},
		MinEvaluations:  func(tier string) int64 { return 1000 },
		RequiredCounts:  []string{"pairs_with_errors", "registry_sequences", "subsets_checked", "singletons_checked", "variant_pairs_checked", "default_equals_explicit"},
	})
}

var c18Standard = []validator.Rule{
	rules.FieldsOnCorrectTypeRule, rules.FragmentsOnCompositeTypesRule, rules.KnownArgumentNamesRule, rules.KnownDirectivesRule, rules.KnownFragmentNamesRule,
	rules.KnownRootTypeRule, rules.KnownTypeNamesRule, rules.LoneAnonymousOperationRule, rules.MaxIntrospectionDepth, rules.NoFragmentCyclesRule,
	rules.NoUndefinedVariablesRule, rules.NoUnusedFragmentsRule, rules.NoUnusedVariablesRule, rules.OverlappingFieldsCanBeMergedRule, rules.PossibleFragmentSpreadsRule,
	rules.ProvidedRequiredArgumentsRule, rules.ScalarLeafsRule, rules.SingleFieldSubscriptionsRule, rules.UniqueArgumentNamesRule, rules.UniqueDirectivesPerLocationRule,
	rules.UniqueFragmentNamesRule, rules.UniqueInputFieldNamesRule, rules.UniqueOperationNamesRule, rules.UniqueVariableNamesRule, rules.ValuesOfCorrectTypeRule,
	rules.VariablesAreInputTypesRule, rules.VariablesInAllowedPositionRule,
}

var c18Variants = map[string]validator.Rule{
	"FieldsOnCorrectType": rules.FieldsOnCorrectTypeRuleWithoutSuggestions,
	"KnownArgumentNames":  rules.KnownArgumentNamesRuleWithoutSuggestions,
	"KnownTypeNames":      rules.KnownTypeNamesRuleWithoutSuggestions,
	"ValuesOfCorrectType": rules.ValuesOfCorrectTypeRuleWithoutSuggestions,
}

func c18Run(x *core.Ctx) {
	ns := 60
	if !x.Quick() {
		ns = 1200
	}
	r := x.Rand(uint64(x.Shard))
	rn := &model.Renderer{}
	for i := 0; i < ns; i++ {
		sc := c08MakeSchema(r, i)
		if i%3 == 0 {
			// a document with far more errors than any cap on a list of errors someone might think of (60-150 from each of
			// three rules): the errors of the set are still the union of the errors of its members
			n := 60 + r.Intn(90)
			var b strings.Builder
			b.WriteString("query Many(")
			for k := 0; k < n; k++ {
				fmt.Fprintf(&b, "$unused%d: Int ", k)
			}
			b.WriteString(") { ")
			for k := 0; k < n; k++ {
				fmt.Fprintf(&b, "nope%d ...Missing%d ", k, k)
			}
			b.WriteString("}")
			cm := core.NewCase("pair", "schema", sc.src, "doc", b.String(), "subset-seed", fmt.Sprint(r.Uint64()%1000000))
			x.Do(cm, func() { c18Check(x, cm) })
			x.Count("many_error_documents")
		}
		for j := 0; j < 8; j++ {
			g := dgen.New(r, sc.mg, &dgen.Opts{MaxDepth: 1 + r.Intn(3), MaxOps: 1 + r.Intn(3), Introspect: j%3 == 0})
			doc := g.Doc()
			if j%4 == 3 {
				doc = dgen.CollisionDoc(r, sc.mg)
			}
			if j == 5 {
				doc = dgen.CyclicCollisionDoc(r, sc.mg)
			}
			if len(doc.Defs) == 0 {
				continue
			}
			if j == 6 || j == 2 {
				// a literal that one rule prints and another reads (two identical selections of a field carrying it)
				for _, f := range dgen.Faults {
					if f.Name == "unsorted-object-for-leaf-twice" {
						f.Do(dgen.NewFCtx(r, sc.mg, doc))
					}
				}
			}
			if j > 0 {
				n := 1 + r.Intn(4)
				for k := 0; k < n; k++ {
					dgen.Faults[r.Intn(len(dgen.Faults))].Do(dgen.NewFCtx(r, sc.mg, doc))
				}
			}
			c := core.NewCase("pair", "schema", sc.src, "doc", rn.RenderDoc(doc), "subset-seed", fmt.Sprint(r.Uint64()%1000000))
			x.Do(c, func() { c18Check(x, c) })
		}
	}
}

func errKey(e *gqlerror.Error) string {
	var b strings.Builder
	fmt.Fprintf(&b, "[%s] %s", e.Rule, e.Message)
	for _, l := range e.Locations {
		fmt.Fprintf(&b, " @%d:%d", l.Line, l.Column)
	}
	return b.String()
}

func multiset(errs gqlerror.List) map[string]int {
	mp := map[string]int{}
	for _, e := range errs {
		mp[errKey(e)]++
	}
	return mp
}

func multisetDiff(a, b map[string]int) string {
	var l []string
	for k, v := range a {
		if b[k] != v {
			l = append(l, fmt.Sprintf("%dx vs %dx %s", v, b[k], k))
		}
	}
	for k, v := range b {
		if _, ok := a[k]; !ok {
			l = append(l, fmt.Sprintf("0x vs %dx %s", v, k))
		}
	}
	sort.Strings(l)
	if len(l) > 4 {
		l = l[:4]
	}
	return strings.Join(l, "\n")
}

func stripSuggestion(msg string) string {
	if i := strings.Index(msg, " Did you mean"); i >= 0 && strings.HasSuffix(msg, "?") {
		return msg[:i]
	}
	return msg
}

func c18Check(x *core.Ctx, c *core.Case) {
	schema, _, first := loadPair(x, c)
	if schema == nil {
		return
	}
	dsrc := c.Get("doc")
	fresh := func() *ast.QueryDocument {
		d, err := parser.ParseQuery(&ast.Source{Name: "doc.graphql", Input: dsrc})
		if err != nil {
			return first
		}
		return d
	}
	def := validator.Validate(schema, fresh())
	if len(def) > 0 {
		x.Count("pairs_with_errors")
		x.Nontrivial()
	}
	// (1) default == explicit list of all standard rules, as ordered lists
	all := validator.Validate(schema, fresh(), c18Standard...)
	if serializeErrs(def) != serializeErrs(all) {
		kind := errListDiffKind(serializeErrs(def), serializeErrs(all))
		x.Violate("default≠explicit("+kind+")", serializeErrs(all), serializeErrs(def))
	} else {
		x.Count("default_equals_explicit")
	}
	// (2,3) singletons
	alone := map[string]gqlerror.List{}
	everything := append([]validator.Rule{}, c18Standard...)
	for _, v := range c18Variants {
		everything = append(everything, v)
	}
	for _, rule := range everything {
		errs := validator.Validate(schema, fresh(), rule)
		alone[rule.Name] = errs
		x.Count("singletons_checked")
		for _, e := range errs {
			if e.Rule != rule.Name {
				x.Violate("rule-tag("+rule.Name+")", fmt.Sprintf("error tagged %q: %s", e.Rule, e.Message), "tagged "+rule.Name)
				break
			}
			x.Distinct("rule-template", rule.Name+": "+firstWords(templateOf(e.Message), 5))
		}
	}
	// the full standard set must be the union of its members
	union := map[string]int{}
	for _, rule := range c18Standard {
		for k, v := range multiset(alone[rule.Name]) {
			union[k] += v
		}
	}
	if d := multisetDiff(multiset(all), union); d != "" {
		x.Violate("subset≠union(full:"+c18Culprit(d)+")", d, "the multiset union of the rules run alone")
	}
	// the empty set: an explicit list without rules reports nothing (it is not "no list given")
	if empty := validator.Validate(schema, fresh(), []validator.Rule{}...); len(empty) > 0 {
		x.Violate("subset≠union(empty-list)", serializeErrs(empty), "no errors: the union of no rules")
	} else {
		x.Count("empty_rule_lists_checked")
	}
	// random subsets in random order
	var seed uint64
	fmt.Sscan(c.Get("subset-seed"), &seed)
	r := core.NewRand(seed, 18)
	nsub := 12
	if !x.Quick() {
		nsub = 40
	}
	for k := 0; k < nsub; k++ {
		p := r.Perm(len(everything))
		n := 2 + r.Intn(6)
		var sub []validator.Rule
		want := map[string]int{}
		for _, i := range p[:n] {
			sub = append(sub, everything[i])
			for key, v := range multiset(alone[everything[i].Name]) {
				want[key] += v
			}
		}
		got := multiset(validator.Validate(schema, fresh(), sub...))
		x.Count("subsets_checked")
		if d := multisetDiff(got, want); d != "" {
			var names []string
			for _, s := range sub {
				names = append(names, s.Name)
			}
			x.Violate("subset≠union("+c18Culprit(d)+")", "rules "+strings.Join(names, ",")+"\n"+d, "the multiset union of the rules run alone")
			break
		}
	}
	// (4) variants without suggestions
	for std, variant := range c18Variants {
		a, b := alone[std], alone[variant.Name]
		x.Count("variant_pairs_checked")
		if len(a) != len(b) {
			x.Violate("no-suggestion-variant("+std+"):count", fmt.Sprintf("%d errors: %s", len(b), errSummary(b)), fmt.Sprintf("%d errors: %s", len(a), errSummary(a)))
			continue
		}
		for i := range a {
			ka := stripSuggestion(a[i].Message) + locStr(a[i])
			kb := b[i].Message + locStr(b[i])
			if ka != kb {
				x.Violate("no-suggestion-variant("+std+"):message", kb, ka)
				break
			}
			if strings.Contains(a[i].Message, "Did you mean") {
				x.Count("variant_suggestions_stripped")
			}
		}
	}
	// (5) the registry: removing a rule, adding it back (it goes to the end) and replacing one keep "default = explicit list
	// of what is registered, in registration order"; the registry is restored to its original order afterwards
	if core.HashString(dsrc)%6 == 0 {
		c18Registry(x, schema, fresh, int(seed%uint64(len(c18Standard))))
	}
	if x.WantSample() && len(def) > 1 && len(dsrc) < 400 {
		x.Sample(map[string]interface{}{"document": dsrc, "default_errors": errSummary(def), "rules_run_alone": len(everything), "subsets": nsub, "verdict": "default = explicit; every subset = union of its members; tags and suggestion-free variants consistent"})
	}
}

func locStr(e *gqlerror.Error) string {
	s := ""
	for _, l := range e.Locations {
		s += fmt.Sprintf(" @%d:%d", l.Line, l.Column)
	}
	return s
}

// c18Culprit extracts the rule name of the first differing error.
func c18Culprit(diff string) string {
	i := strings.Index(diff, "[")
	j := strings.Index(diff, "]")
	if i >= 0 && j > i {
		return diff[i+1 : j]
	}
	return "?"
}

func c18Registry(x *core.Ctx, schema *ast.Schema, fresh func() *ast.QueryDocument, k int) {
	restore := func() {
		for _, r := range c18Standard {
			validator.RemoveRule(r.Name)
		}
		for _, r := range c18Standard {
			validator.AddRule(r.Name, r.RuleFunc)
		}
	}
	defer restore()
	x.Count("registry_sequences")
	victim := c18Standard[k]
	var rest []validator.Rule
	for i, r := range c18Standard {
		if i != k {
			rest = append(rest, r)
		}
	}
	cmp := func(step string, explicit []validator.Rule) bool {
		got := serializeErrs(validator.Validate(schema, fresh()))
		want := serializeErrs(validator.Validate(schema, fresh(), explicit...))
		if got != want {
			x.Violate("registry:"+step+"("+errListDiffKind(want, got)+")", got, want)
			return false
		}
		return true
	}
	validator.RemoveRule(victim.Name)
	if !cmp("after-RemoveRule", rest) {
		return
	}
	validator.RemoveRule("NoSuchRule") // removing an unknown name changes nothing
	if !cmp("after-RemoveRule-unknown", rest) {
		return
	}
	validator.AddRule(victim.Name, victim.RuleFunc)
	if !cmp("after-AddRule", append(append([]validator.Rule{}, rest...), victim)) {
		return
	}
	// replacing keeps the position; replacing an unknown name appends
	other := rest[(k*7+3)%len(rest)]
	validator.ReplaceRule(other.Name, other.RuleFunc)
	if !cmp("after-ReplaceRule", append(append([]validator.Rule{}, rest...), victim)) {
		return
	}
	validator.RemoveRule(victim.Name)
	validator.ReplaceRule(victim.Name, victim.RuleFunc)
	if !cmp("after-ReplaceRule-unknown", append(append([]validator.Rule{}, rest...), victim)) {
		return
	}
	// the same name registered twice in a row is two entries; removing the name removes both
	validator.AddRule(victim.Name, victim.RuleFunc)
	if !cmp("after-AddRule-twice", append(append([]validator.Rule{}, rest...), victim, victim)) {
		return
	}
	validator.RemoveRule(victim.Name)
	if !cmp("after-RemoveRule-of-a-name-registered-twice", rest) {
		return
	}
	restore()
	if !cmp("after-restore", c18Standard) {
		return
	}
	// the functions handed over so far were the rules' own, so a registry that keeps an old function, or puts a new one into
	// a neighbour's place, looked right; now with functions that report something of their own. A registered rule is
	// replaced AFTER the default set has been used (a cached copy of the set must not survive the replacement) ...
	marker := func(tag string) validator.RuleFunc {
		return func(o *validator.Events, addError validator.AddErrFunc) {
			o.OnOperation(func(w *validator.Walker, op *ast.OperationDefinition) {
				addError(validator.Message("%s", tag), validator.At(op.Position))
			})
		}
	}
	validator.ReplaceRule(other.Name, marker("marker-one"))
	var withMarker []validator.Rule
	for _, r := range c18Standard {
		if r.Name == other.Name {
			r = validator.Rule{Name: r.Name, RuleFunc: marker("marker-one")}
		}
		withMarker = append(withMarker, r)
	}
	if !cmp("after-ReplaceRule-by-another-function", withMarker) {
		return
	}
	for _, e := range validator.Validate(schema, fresh()) {
		if e.Message == "marker-one" && e.Rule != other.Name {
			x.Violate("registry:replaced-function-reports-under-another-name", e.Rule, other.Name)
			return
		}
	}
	restore()
	// ... and after a rule that is not the last one was removed, a name that is still registered further on is added again:
	// two entries of that name, the new one at the end, every other rule where and what it was
	if k+2 < len(c18Standard) {
		later := c18Standard[k+1+(k*5+1)%(len(c18Standard)-k-1)]
		validator.RemoveRule(victim.Name)
		validator.AddRule(later.Name, marker("marker-two"))
		explicit := append(append([]validator.Rule{}, rest...), validator.Rule{Name: later.Name, RuleFunc: marker("marker-two")})
		if !cmp("after-RemoveRule-then-AddRule-of-a-registered-name", explicit) {
			return
		}
		for _, e := range validator.Validate(schema, fresh()) {
			if e.Message == "marker-two" && e.Rule != later.Name {
				x.Violate("registry:added-function-reports-under-another-name", e.Rule, later.Name)
				return
			}
		}
		x.Count("registry_marker_sequences")
		restore()
		cmp("after-second-restore", c18Standard)
	}
}
