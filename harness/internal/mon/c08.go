package mon

import (
	"fmt"
	"sort"
	"strings"

	gqlparser "github.com/vektah/gqlparser/v2"
	"github.com/vektah/gqlparser/v2/ast"
	"github.com/vektah/gqlparser/v2/gqlerror"
	"github.com/vektah/gqlparser/v2/parser"
	"github.com/vektah/gqlparser/v2/validator"

	"verif/harness/internal/core"
	"verif/harness/internal/dgen"
	"verif/harness/internal/gen"
	"verif/harness/internal/model"
	"verif/harness/internal/ref"
	"verif/harness/internal/rval"
	"verif/harness/internal/tsys"
)

// C08 — validation accepts exactly the documents the GraphQL validation rules allow.
func init() {
	core.Register(&core.Monitor{
		ID: "C08",
		Rule: "for generated valid schemas: (a) documents generated valid by construction by a schema-directed generator (named and anonymous operations of all kinds, variables with defaults used in arguments, directives, list and input-object literals and through shared fragments, nested fragments on objects/interfaces/unions, " +
			"mergeable overlapping response names, exclusive-parent overlaps of equal shape, introspection within the depth limit, @oneOf objects, custom-scalar literals, list coercion) must be accepted; (b) the same with ONE fault from a 45-entry catalogue (at least one per validation rule) must be rejected; " +
			"(c) with 2-3 faults, and (d) type-blind random documents, are judged by the reference validator alone. The oracle is a reference validator written from the specification's algorithms over independent data structures; only emptiness of the error list is compared " +
			"(three-way: generator, reference, library; generator/reference disagreements are discarded and counted). distinct = (fault class, reference finding code) pairs and reference codes seen; non-trivial = judged documents",
		Assumptions: []string{
			"custom scalars accept any literal; the reference abstains on float overflow, integers beyond int64 at ID/Float, variables inside custom-scalar literals, @skip/@include at a subscription root, fragment variable definitions",
			"rules are those gqlparser registers (27); ExecutableDefinitions is enforced by the parser",
		},
		Shards:          func(tier string) int { return 16 },
		Run:             c08Run,
		Check:           c08Check,
		DistinctClasses: []string{"fault-code", "ref-code"},
		MinEvaluations:  func(tier string) int64 { return 5000 },
		RequiredCounts:  []string{"revalidated_against_second_schema", "second_schema_rejects", "valid_accepted", "fault_rejected", "multi_fault_judged", "blind_judged", "collision_valid", "collision_conflicting"},
	})
}

type c08Schema struct {
	src   string
	items []*model.Item
	mg    *tsys.Merged
}

func c08MakeSchema(r *core.Rand, i int) *c08Schema {
	items := tsys.Schema(r, &tsys.GenOpts{Extensions: i%3 == 0, Small: i%4 == 0})
	if i%6 == 4 {
		// the schema brings its own definition of one of the directives executable documents use (@skip, @include, @defer)
		// with another signature: an optional argument more, a default on the required one, a location more - the user's
		// definition is the one documents are judged by
		b := func(nonNull bool) *model.Type { return &model.Type{Name: "Boolean", NonNull: nonNull} }
		tr := &model.Value{Kind: model.VBool, Raw: "true"}
		var it *model.Item
		switch r.Intn(3) {
		case 0:
			it = &model.Item{Kind: "directive", Name: "skip", Locations: []string{"FIELD", "FRAGMENT_SPREAD", "INLINE_FRAGMENT", "QUERY", "FRAGMENT_DEFINITION"},
				Args: []*model.ArgDef{{Name: "if", Type: b(true)}, {Name: "unless", Type: b(false)}}}
		case 1:
			it = &model.Item{Kind: "directive", Name: "include", Locations: []string{"FIELD", "FRAGMENT_SPREAD", "INLINE_FRAGMENT", "VARIABLE_DEFINITION"},
				Args: []*model.ArgDef{{Name: "if", Type: b(true), Default: tr}, {Name: "why", Type: &model.Type{Name: "String"}}}}
		default:
			it = &model.Item{Kind: "directive", Name: "defer", Locations: []string{"FRAGMENT_SPREAD", "INLINE_FRAGMENT", "FIELD"},
				Args: []*model.ArgDef{{Name: "if", Type: b(false)}, {Name: "label", Type: &model.Type{Name: "String"}}, {Name: "priority", Type: &model.Type{Name: "Int"}}}}
		}
		at := r.Intn(len(items) + 1)
		items = append(append(append([]*model.Item{}, items[:at]...), it), items[at:]...)
	}
	return &c08Schema{src: (&model.Renderer{}).RenderSDoc(&model.SDoc{Items: items}), items: items, mg: tsys.Merge(items)}
}

// c08PetsSchema is a small fixed schema in which several types share field names and field types, so
// that collision documents often compare the same fragments in exclusive and non-exclusive contexts.
const c08PetsSchema = `interface Pet { name: String nick: String friend: Person mate: Pet }
type Dog implements Pet { name: String nick: String friend: Person mate: Pet barks: Boolean }
type Cat implements Pet { name: String nick: String! friend: Person mate: Pet lives: Int }
type Person { name: String nick: String pet: Pet pets: [Pet] best: Person }
union Any = Dog | Cat | Person
type Query { pet: Pet owner: Person any: Any }`

func c08PetsCases(x *core.Ctx, r *core.Rand, n int) {
	sd, err := parser.ParseSchema(&ast.Source{Name: "pets.graphql", Input: c08PetsSchema})
	if err != nil {
		x.HarnessBug("pets schema: " + err.Error())
		return
	}
	mg := tsys.Merge(model.FromSchemaAST(sd).Items)
	rn := &model.Renderer{}
	for j := 0; j < n; j++ {
		d := dgen.CollisionDoc(r, mg)
		if j%2 == 0 {
			d = dgen.PetsScenarioDoc(r, mg)
		}
		cc := core.NewCase("pair", "schema", c08PetsSchema, "doc", rn.RenderDoc(d), "expect", "collide")
		x.Do(cc, func() { c08Check(x, cc) })
	}
}

func c08Run(x *core.Ctx) {
	ns := 300
	if !x.Quick() {
		ns = 9000
	}
	r := x.Rand(uint64(x.Shard))
	rn := &model.Renderer{}
	c08PetsCases(x, r, ns*16)
	for i := 0; i < ns; i++ {
		sc := c08MakeSchema(r, i)
		for j := 0; j < 8; j++ {
			g := dgen.New(r, sc.mg, &dgen.Opts{MaxDepth: 1 + r.Intn(3), MaxOps: 1 + r.Intn(3), Introspect: j%3 == 0, DeepValues: j%4 == 1, NoVariables: j%7 == 6})
			doc := g.Doc()
			if len(doc.Defs) == 0 {
				continue
			}
			c := core.NewCase("pair", "schema", sc.src, "doc", rn.RenderDoc(doc), "expect", "valid")
			if j%4 == 2 {
				// a second schema: the same definitions without the default values of field arguments (what was an optional
				// argument becomes a required one, a nullable variable no longer fits a non-null position)
				c.Set("schema2", c08WithoutArgDefaults(rn, sc.items))
			}
			x.Do(c, func() { c08Check(x, c) })
			// one fault, two different classes per document
			for k := 0; k < 2; k++ {
				f := dgen.Faults[(i*16+j*2+k+r.Intn(len(dgen.Faults)))%len(dgen.Faults)]
				fd := dgen.CloneDoc(doc)
				if !f.Do(dgen.NewFCtx(r, sc.mg, fd)) {
					x.Count("fault_not_applicable")
					continue
				}
				fc := core.NewCase("pair", "schema", sc.src, "doc", rn.RenderDoc(fd), "expect", "fault:"+f.Rule, "fault", f.Name)
				x.Do(fc, func() { c08Check(x, fc) })
			}
			if j%2 == 0 {
				// several faults at once
				fd := dgen.CloneDoc(doc)
				n := 0
				for k := 0; k < 2+r.Intn(2); k++ {
					if dgen.Faults[r.Intn(len(dgen.Faults))].Do(dgen.NewFCtx(r, sc.mg, fd)) {
						n++
					}
				}
				if n > 0 {
					mc := core.NewCase("pair", "schema", sc.src, "doc", rn.RenderDoc(fd), "expect", "multi")
					x.Do(mc, func() { c08Check(x, mc) })
				}
			}
		}
		// collision documents (two aliases, fragments in exclusive and non-exclusive contexts): the reference decides
		for j := 0; j < 10; j++ {
			d := dgen.CollisionDoc(r, sc.mg)
			if len(d.Defs) == 0 {
				continue
			}
			cc := core.NewCase("pair", "schema", sc.src, "doc", rn.RenderDoc(d), "expect", "collide")
			x.Do(cc, func() { c08Check(x, cc) })
		}
		// type-blind documents
		for j := 0; j < 3; j++ {
			d := gen.QueryDoc(r, &gen.QOpts{MaxDepth: 2, VarDirs: true, MaxDefs: 3})
			bc := core.NewCase("pair", "schema", sc.src, "doc", rn.RenderDoc(d), "expect", "blind")
			x.Do(bc, func() { c08Check(x, bc) })
		}
	}
}

// loadPair loads the schema text and parses the document text; nil results mean the case is unusable.
func loadPair(x *core.Ctx, c *core.Case) (*ast.Schema, *tsys.Merged, *ast.QueryDocument) {
	ssrc := c.Get("schema")
	sd, perr := parser.ParseSchema(&ast.Source{Name: "schema.graphql", Input: ssrc})
	if perr != nil {
		if grammarAccepts(ref.TypeSystemGrammar, ssrc) {
			x.Violate("schema-parse-fails("+firstWords(templateOf(perr.Error()), 4)+")", perr.Error(), "parses: derivable from the type-system grammar")
		} else {
			x.HarnessBug("schema text does not parse: " + perr.Error())
		}
		return nil, nil, nil
	}
	schema, err := gqlparser.LoadSchema(&ast.Source{Name: "schema.graphql", Input: ssrc})
	if err != nil {
		x.Count("skipped:schema-does-not-load")
		return nil, nil, nil
	}
	mg := tsys.Merge(model.FromSchemaAST(sd).Items)
	if core.HashString(ssrc)%5 == 1 {
		// the custom scalars (and enums, one time in two) come from a source of their own that is flagged BuiltIn, the way
		// frameworks ship the definitions they add themselves (federation's _Any and FieldSet): where a definition was
		// written does not change what a document may say about it
		var own, shipped []*model.Item
		for _, it := range model.FromSchemaAST(sd).Items {
			if !it.Extend && (it.Kind == "scalar" || (it.Kind == "enum" && core.HashString(ssrc)%2 == 0)) {
				shipped = append(shipped, it)
			} else {
				own = append(own, it)
			}
		}
		if len(shipped) > 0 && len(own) > 0 {
			rn := &model.Renderer{}
			s2, err2 := gqlparser.LoadSchema(&ast.Source{Name: "shipped.graphql", Input: rn.RenderSDoc(&model.SDoc{Items: shipped}), BuiltIn: true},
				&ast.Source{Name: "schema.graphql", Input: rn.RenderSDoc(&model.SDoc{Items: own})})
			if err2 == nil {
				schema = s2
				x.Count("schemas_with_scalars_from_a_builtin_flagged_source")
			} else {
				x.Count("skipped:split-schema-does-not-load:" + firstWords(templateOf(err2.Error()), 6))
			}
		}
	}
	doc, derr := parser.ParseQuery(&ast.Source{Name: "doc.graphql", Input: c.Get("doc")})
	if derr != nil {
		if c.Get("expect") != "blind" {
			if grammarAccepts(ref.ExecutableGrammar, c.Get("doc")) {
				x.Violate("document-parse-fails("+firstWords(templateOf(derr.Error()), 4)+")", derr.Error()+"\n"+c.Get("doc"), "parses: derivable from the executable grammar")
			} else {
				x.HarnessBug("generated document does not parse: " + derr.Error() + "\n" + c.Get("doc"))
			}
		}
		return nil, nil, nil
	}
	return schema, mg, doc
}

func errSummary(errs gqlerror.List) string {
	var l []string
	for i, e := range errs {
		if i >= 4 {
			l = append(l, fmt.Sprintf("... %d more", len(errs)-4))
			break
		}
		l = append(l, "["+e.Rule+"] "+e.Message)
	}
	return strings.Join(l, "\n")
}

func c08Check(x *core.Ctx, c *core.Case) {
	schema, mg, doc := loadPair(x, c)
	if schema == nil {
		return
	}
	expect := c.Get("expect")
	ref := rval.Validate(mg, model.FromAST(doc))
	errs := validator.Validate(schema, doc)
	c08EntryPoints(x, schema, c.Get("doc"), errs)
	if s2src := c.Get("schema2"); s2src != "" {
		// the document object that was just validated against this schema is validated against another one: the verdict
		// and the errors are those of a fresh parse against that schema (nothing the first validation left on the tree counts)
		if s2, err2 := gqlparser.LoadSchema(&ast.Source{Name: "schema2.graphql", Input: s2src}); err2 == nil {
			if fresh, perr := parser.ParseQuery(&ast.Source{Name: "doc.graphql", Input: c.Get("doc")}); perr == nil {
				reused := serializeErrs(validator.Validate(s2, doc))
				want := serializeErrs(validator.Validate(s2, fresh))
				x.Count("revalidated_against_second_schema")
				if want != "" {
					x.Count("second_schema_rejects")
				}
				if reused != want {
					x.Violate("second-schema:differs-from-fresh-parse("+errListDiffKind(want, reused)+")", reused+"\n--- doc\n"+c.Get("doc"), want)
				}
				// and back: the first schema's verdict is unchanged by the excursion
				if back := serializeErrs(validator.Validate(schema, doc)); back != serializeErrs(errs) {
					x.Violate("second-schema:first-verdict-changed("+errListDiffKind(serializeErrs(errs), back)+")", back, serializeErrs(errs))
				}
			}
		} else {
			x.Count("skipped:second-schema-does-not-load")
		}
	}
	codes := ref.Codes()
	for _, a := range ref.Abstain {
		x.Count("abstain:" + a)
	}
	if len(ref.Abstain) > 0 {
		x.Count("abstained_documents")
		return
	}
	for _, cd := range codes {
		x.Distinct("ref-code", cd)
	}
	x.Nontrivial()
	implSig := func() string {
		if len(errs) == 0 {
			return ""
		}
		return errs[0].Rule + ":" + firstWords(templateOf(errs[0].Message), 4)
	}
	switch {
	case expect == "valid":
		if len(codes) > 0 {
			x.Count("discarded:generator-reference-disagree(" + codes[0] + ")")
			if x.Res.Counts["harness_bug"] == 0 {
				x.HarnessBug("valid-by-construction document fails the reference validator: " + strings.Join(codes, ",") + " " + ref.Findings()[0].Detail + "\n--- schema\n" + c.Get("schema") + "\n--- doc\n" + c.Get("doc"))
			}
			return
		}
		if len(errs) > 0 {
			x.Violate("impl-rejects("+implSig()+")/ref-valid", errSummary(errs)+"\n--- doc\n"+c.Get("doc"), "accepted: valid by construction and by the reference validator")
			return
		}
		x.Count("valid_accepted")
		if x.WantSample() && len(c.Get("doc")) < 600 && len(c.Get("schema")) < 1500 {
			x.Sample(map[string]interface{}{"schema": c.Get("schema"), "document": c.Get("doc"), "verdict": "valid by construction, by the reference validator and by the library"})
		}
	case strings.HasPrefix(expect, "fault:"):
		rule := strings.TrimPrefix(expect, "fault:")
		if !ref.Has(rule) {
			// the injector is heuristic (e.g. loosening a variable type is only a fault at a non-null use): a miss is discarded
			x.Count("discarded:injector-reference-disagree(" + c.Get("fault") + ")")
			return
		}
		code := rule
		for _, f := range ref.Findings() {
			if f.Rule == rule {
				code = f.Code()
				break
			}
		}
		x.Distinct("fault-code", c.Get("fault")+" -> "+code)
		if len(errs) == 0 {
			x.Violate("impl-accepts/ref-rule("+code+")", "no errors\n--- doc\n"+c.Get("doc"), "rejected: "+code)
			return
		}
		x.Count("fault_rejected")
		x.Count("fault_rejected:" + c.Get("fault"))
	default: // multi, blind: the reference alone
		key := "multi_fault_judged"
		if expect == "blind" {
			key = "blind_judged"
		}
		if expect == "collide" {
			key = "collision_judged"
			if len(codes) == 0 {
				x.Count("collision_valid")
			} else if ref.Has("OverlappingFieldsCanBeMerged") {
				x.Count("collision_conflicting")
			}
		}
		switch {
		case len(codes) > 0 && len(errs) == 0:
			x.Violate("impl-accepts/ref-rule("+codes[0]+")", "no errors\n--- doc\n"+c.Get("doc"), "rejected: "+strings.Join(codes, ","))
		case len(codes) == 0 && len(errs) > 0:
			x.Violate("impl-rejects("+implSig()+")/ref-valid", errSummary(errs)+"\n--- doc\n"+c.Get("doc"), "accepted: the reference validator finds no violation")
		default:
			x.Count(key)
		}
	}
	_ = sort.Strings
}

// c08EntryPoints: LoadQuery and MustLoadQuery are parse + validate under another name; they must give the verdict and the
// errors of Validate on a fresh parse (rule, message, locations; LoadQuery's source has no name, so no file is compared).
func c08EntryPoints(x *core.Ctx, schema *ast.Schema, dsrc string, errs gqlerror.List) {
	if core.HashString(dsrc)%4 != 0 {
		return
	}
	key := func(l gqlerror.List) string {
		var b strings.Builder
		for _, e := range l {
			b.WriteString(errKey(e))
			b.WriteByte('\n')
		}
		return b.String()
	}
	qd, lerrs := gqlparser.LoadQuery(schema, dsrc)
	x.Count("load_query_calls")
	switch {
	case (qd != nil) != (len(lerrs) == 0):
		x.Violate("LoadQuery:result-shape", fmt.Sprintf("document=%v errors=%d", qd != nil, len(lerrs)), "a document or errors")
	case key(lerrs) != key(errs):
		x.Violate("LoadQuery:differs-from-Validate("+errListDiffKind(key(errs), key(lerrs))+")", key(lerrs), key(errs))
	}
	var panicked interface{}
	var md *ast.QueryDocument
	func() {
		defer func() { panicked = recover() }()
		md = gqlparser.MustLoadQuery(schema, dsrc)
	}()
	if (panicked != nil) != (len(errs) > 0) || (panicked == nil && md == nil) {
		x.Violate("MustLoadQuery:verdict", fmt.Sprintf("panicked=%v document=%v", panicked != nil, md != nil), fmt.Sprintf("panic iff Validate reports errors (%d)", len(errs)))
	}
}

// c08WithoutArgDefaults renders the items with the default values of all field arguments removed.
func c08WithoutArgDefaults(rn *model.Renderer, items []*model.Item) string {
	cp := tsys.CloneItems(items)
	for _, it := range cp {
		if it.Kind != "type" && it.Kind != "interface" {
			continue
		}
		for _, f := range it.Fields {
			for _, a := range f.Args {
				a.Default = nil
			}
		}
	}
	return rn.RenderSDoc(&model.SDoc{Items: cp})
}
