package mon

import (
	"encoding/json"
	"fmt"

	"github.com/vektah/gqlparser/v2/ast"
	"github.com/vektah/gqlparser/v2/parser"

	"verif/harness/internal/core"
	"verif/harness/internal/gen"
	"verif/harness/internal/model"
)

// C19 — JSON encode/decode round trip of parsed executable documents.
func init() {
	core.Register(&core.Monitor{
		ID: "C19",
		Rule: "documents rendered from random syntax trees (all three selection kinds, every nesting order, hostile strings, directives, fragment variables) are parsed, " +
			"json.Marshal'ed, json.Unmarshal'ed and compared with the parsed original through an AST→model adapter; a case is non-trivial when it contains a fragment spread or an inline fragment; " +
			"distinct = distinct (kind-at-depth) shape signatures of the selection trees",
		Assumptions: []string{
			"model equality ignores positions, comments and validation annotations (the property lists operations, fragments, selections, names, arguments, values, directives, type conditions)",
			"documents are parsed but not validated (the property's domain)",
		},
		Shards:          func(tier string) int { return 16 },
		Run:             c19Run,
		Check:           c19Check,
		DistinctClasses: []string{"shape"},
		MinEvaluations:  func(tier string) int64 { return 1000 },
		RequiredCounts:  []string{"roundtrips", "with_spread", "with_inline"},
	})
}

func c19Run(x *core.Ctx) {
	n := 1250 // ×16 = 20k
	if !x.Quick() {
		n = 31250 // ×16 = 500k
	}
	r := x.Rand(uint64(x.Shard))
	rn := &model.Renderer{}
	for i := 0; i < n; i++ {
		var d *model.Doc
		if i%5 == 0 {
			d = gen.DeepSelections(r, 1+r.Intn(5))
		} else {
			d = gen.QueryDoc(r, &gen.QOpts{MaxDepth: 1 + r.Intn(4), Hostile: true, FragVars: true, VarDirs: true, KeywordNames: i%3 == 0, NoBlock: true})
		}
		c := core.NewCase("doc", "doc", rn.RenderDoc(d))
		x.Do(c, func() { c19Check(x, c) })
	}
}

func shapeOf(d *model.Doc) (sig string, spreads, inlines int) {
	b := []byte{}
	for _, def := range d.Defs {
		model.WalkSels(def.Sel, func(s *model.Sel, depth int) {
			if depth < 6 {
				b = append(b, byte('0'+depth), "FSI"[s.Kind])
			}
			switch s.Kind {
			case model.SSpread:
				spreads++
			case model.SInline:
				inlines++
			}
		})
		b = append(b, '/')
	}
	if len(b) > 60 {
		b = b[:60]
	}
	return string(b), spreads, inlines
}

func c19Check(x *core.Ctx, c *core.Case) {
	src := c.Get("doc")
	doc, err := parser.ParseQuery(&ast.Source{Name: "c19.graphql", Input: src})
	if err != nil {
		x.Count("skipped_unparsable")
		return
	}
	want := model.FromAST(doc)
	enc, merr := json.Marshal(doc)
	if merr != nil {
		x.Violate("encode-error", merr.Error(), "document encodes")
		return
	}
	var back ast.QueryDocument
	if uerr := json.Unmarshal(enc, &back); uerr != nil {
		x.Violate("decode-error", uerr.Error(), "encoded document decodes")
		return
	}
	got := model.FromAST(&back)
	x.Count("roundtrips")
	shape, sp, in := shapeOf(want)
	x.Distinct("shape", shape)
	if sp > 0 {
		x.Count("with_spread")
	}
	if in > 0 {
		x.Count("with_inline")
	}
	if sp+in > 0 {
		x.Nontrivial()
	}
	if code, detail := model.DiffDocs(want, got); code != "" {
		x.Violate("roundtrip:"+code, detail+"\ndecoded:\n"+got.Canon(), "original:\n"+want.Canon())
		return
	}
	if x.WantSample() && sp+in > 0 {
		x.Sample(map[string]interface{}{"document": src, "json_bytes": len(enc), "selections_shape": shape, "verdict": "decoded document equals original"})
	}
	_ = fmt.Sprint
}
