package mon

import (
	"encoding/json"
	"fmt"
	"strings"

	gqlparser "github.com/vektah/gqlparser/v2"
	"github.com/vektah/gqlparser/v2/ast"
	"github.com/vektah/gqlparser/v2/parser"
	"github.com/vektah/gqlparser/v2/validator"

	"verif/harness/internal/core"
	"verif/harness/internal/dgen"
	"verif/harness/internal/gen"
	"verif/harness/internal/model"
)

// C19 — JSON encode/decode round trip of parsed executable documents.
func init() {
	core.Register(&core.Monitor{
		ID: "C19",
		Rule: "documents rendered from random syntax trees (all three selection kinds, every nesting order, hostile strings, directives, fragment variables) are parsed, " +
			"json.Marshal'ed, json.Unmarshal'ed and compared with the parsed original through an AST→model adapter and then node by node through everything encoding/json carries (exported fields, as deep as the tree and - for validated documents - the linked schema definitions go; positions and comment groups excepted), once into a fresh value and once into a value that already holds another (fixed, feature-rich) document; documents carry comments with hostile contents (DEL, private-use and emoji characters, U+2028) on their nodes, and one in 97 is a chain 60-200 selections deep; a case is non-trivial when it contains a fragment spread or an inline fragment; " +
			"distinct = distinct (kind-at-depth) shape signatures of the selection trees",
		Assumptions: []string{
			"model equality ignores positions, comments and validation annotations (the property lists operations, fragments, selections, names, arguments, values, directives, type conditions)",
			"most documents are parsed but not validated; one in eight is a schema-valid document encoded AFTER validation (the annotations validation leaves on the tree are part of what json.Marshal sees), half of those also once BEFORE it",
			"comment groups are not compared: the decoders of operations, fragments and fields do not read them, and the property does not list comments among what survives",
		},
		Shards:          func(tier string) int { return 16 },
		Run:             c19Run,
		Check:           c19Check,
		DistinctClasses: []string{"shape"},
		MinEvaluations:  func(tier string) int64 { return 1000 },
		RequiredCounts:  []string{"roundtrips", "with_spread", "with_inline", "decoded_into_used_value", "deep_chain_documents", "validated_documents_encoded"},
	})
}

func c19Run(x *core.Ctx) {
	n := 1250 // ×16 = 20k
	if !x.Quick() {
		n = 31250 // ×16 = 500k
	}
	r := x.Rand(uint64(x.Shard))
	for i := 0; i < n; i++ {
		// comments (with hostile contents) ride on the tree's Comment fields and are encoded with it
		rn := &model.Renderer{R: r.Fork(uint64(i)), Trivia: []int{0, 0, 1, 2}[i%4], WideComments: true}
		var d *model.Doc
		if i%97 == 96 {
			// a chain far deeper than any sensible guard constant: fields and inline fragments alternating
			depth := 60 + r.Intn(140)
			leaf := &model.Sel{Kind: model.SField, Name: "leaf"}
			cur := leaf
			for k := depth; k > 0; k-- {
				if k%7 == 3 {
					cur = &model.Sel{Kind: model.SInline, TypeCond: "T", Sel: []*model.Sel{cur}}
				} else {
					cur = &model.Sel{Kind: model.SField, Name: fmt.Sprintf("n%d", k), Sel: []*model.Sel{cur, {Kind: model.SSpread, Name: "F"}}}
				}
			}
			d = &model.Doc{Defs: []*model.Def{{Op: "query", Name: "Deep", Sel: []*model.Sel{cur}}, {IsFragment: true, Name: "F", TypeCond: "T", Sel: []*model.Sel{{Kind: model.SField, Name: "x"}}}}}
			x.Count("deep_chain_documents")
		} else if i%5 == 0 {
			d = gen.DeepSelections(r, 1+r.Intn(5))
		} else {
			d = gen.QueryDoc(r, &gen.QOpts{MaxDepth: 1 + r.Intn(4), Hostile: true, FragVars: true, VarDirs: true, KeywordNames: i%3 == 0, NoBlock: i%2 == 0})
		}
		c := core.NewCase("doc", "doc", rn.RenderDoc(d))
		x.Do(c, func() { c19Check(x, c) })
		if i%8 == 7 {
			// a document that went through validation before it is encoded (servers persist validated documents): the
			// links validation leaves on the tree must neither break the encoding nor leak into what is decoded
			sc := c08MakeSchema(r, i)
			g := dgen.New(r, sc.mg, &dgen.Opts{MaxDepth: 1 + r.Intn(3), MaxOps: 1 + r.Intn(2), Introspect: i%3 == 0, DeepValues: i%2 == 0})
			if vd := g.Doc(); len(vd.Defs) > 0 {
				vc := core.NewCase("doc", "doc", (&model.Renderer{}).RenderDoc(vd), "schema", sc.src)
				x.Do(vc, func() { c19Check(x, vc) })
			}
		}
	}
}

func shapeOf(d *model.Doc) (sig string, spreads, inlines int) {
	b := []byte{}
	for _, def := range d.Defs {
		model.WalkSels(def.Sel, func(s *model.Sel, depth int) {
			if depth < 6 {
				b = append(b, byte('0'+depth), "FSI"[s.Kind])
			}
			switch s.Kind {
			case model.SSpread:
				spreads++
			case model.SInline:
				inlines++
			}
		})
		b = append(b, '/')
	}
	if len(b) > 60 {
		b = b[:60]
	}
	return string(b), spreads, inlines
}

// c19DefDigest names a type definition by what it says: kind, name, the names and types of its fields, its interfaces,
// members and enum values (not by where it lives).
func c19DefDigest(d *ast.Definition) string {
	if d == nil {
		return "<nil>"
	}
	var b strings.Builder
	fmt.Fprintf(&b, "%s %s", d.Kind, d.Name)
	for _, f := range d.Fields {
		t := "<nil>"
		if f.Type != nil {
			t = f.Type.String()
		}
		fmt.Fprintf(&b, " %s:%s/%d", f.Name, t, len(f.Arguments))
	}
	fmt.Fprintf(&b, " impl=%v members=%v", d.Interfaces, d.Types)
	for _, ev := range d.EnumValues {
		b.WriteString(" " + ev.Name)
	}
	return b.String()
}

func c19Check(x *core.Ctx, c *core.Case) {
	src := c.Get("doc")
	doc, err := parser.ParseQuery(&ast.Source{Name: "c19.graphql", Input: src})
	if err != nil {
		x.Count("skipped_unparsable")
		return
	}
	want := model.FromAST(doc)
	if ssrc := c.Get("schema"); ssrc != "" {
		schema, lerr := gqlparser.LoadSchema(&ast.Source{Name: "schema.graphql", Input: ssrc})
		if lerr != nil {
			x.Count("skipped:schema-does-not-load")
			return
		}
		if core.HashString(src)%2 == 0 {
			// the tree is encoded once BEFORE validation too (a gateway logs the request, then validates it, then ships the
			// validated tree): the second encoding is of the tree as it is then
			if _, e0 := json.Marshal(doc); e0 == nil {
				x.Count("documents_encoded_before_and_after_validation")
			}
		}
		if errs := validator.Validate(schema, doc); len(errs) > 0 {
			x.Count("skipped:document-rejected")
			return
		}
		x.Count("validated_documents_encoded")
	}
	enc, merr := json.Marshal(doc)
	if merr != nil {
		reason := firstWords(templateOf(merr.Error()), 8)
		if strings.Contains(merr.Error(), "encountered a cycle") && c.Get("schema") != "" && c19DirectiveCycle(c.Get("schema")) {
			// the links validation left on the tree lead into a schema whose directive definitions apply each other on
			// their arguments: the pointer graph that json.Marshal walks is cyclic
			reason = "validated:schema-directive-definitions-apply-each-other"
		}
		x.Violate("encode-error("+reason+")", merr.Error(), "document encodes")
		return
	}
	var back ast.QueryDocument
	if uerr := json.Unmarshal(enc, &back); uerr != nil {
		x.Violate("decode-error", uerr.Error(), "encoded document decodes")
		return
	}
	got := model.FromAST(&back)
	x.Count("roundtrips")
	// what validation linked and the encoding carried along still belongs to the node it hangs on: a decoded field's
	// definition is a definition of THAT field
	if c.Get("schema") != "" {
		var check func(a, b ast.SelectionSet) string
		check = func(a, b ast.SelectionSet) string {
			for i := range a {
				if i >= len(b) {
					return ""
				}
				switch s := a[i].(type) {
				case *ast.Field:
					d, ok := b[i].(*ast.Field)
					if !ok {
						return ""
					}
					switch {
					case (s.ObjectDefinition == nil) != (d.ObjectDefinition == nil):
						return fmt.Sprintf("field %s (alias %q): parent definition present before encoding: %v, after decoding: %v", s.Name, s.Alias, s.ObjectDefinition != nil, d.ObjectDefinition != nil)
					case s.ObjectDefinition != nil && c19DefDigest(s.ObjectDefinition) != c19DefDigest(d.ObjectDefinition):
						return fmt.Sprintf("field %s (alias %q) decoded with the parent definition %s, before encoding %s", s.Name, s.Alias, c19DefDigest(d.ObjectDefinition), c19DefDigest(s.ObjectDefinition))
					case (s.Definition == nil) != (d.Definition == nil):
						return fmt.Sprintf("field %s (alias %q): definition present before encoding: %v, after decoding: %v", s.Name, s.Alias, s.Definition != nil, d.Definition != nil)
					case s.Definition != nil && (d.Definition.Name != s.Definition.Name || d.Definition.Type.String() != s.Definition.Type.String()):
						return fmt.Sprintf("field %s (alias %q) decoded with the definition %s: %s", s.Name, s.Alias, d.Definition.Name, d.Definition.Type.String())
					}
					if w := check(s.SelectionSet, d.SelectionSet); w != "" {
						return w
					}
				case *ast.InlineFragment:
					if d, ok := b[i].(*ast.InlineFragment); ok {
						if (s.ObjectDefinition == nil) != (d.ObjectDefinition == nil) || (s.ObjectDefinition != nil && c19DefDigest(s.ObjectDefinition) != c19DefDigest(d.ObjectDefinition)) {
							return fmt.Sprintf("inline fragment on %q decoded with another parent definition", s.TypeCondition)
						}
						if w := check(s.SelectionSet, d.SelectionSet); w != "" {
							return w
						}
					}
				case *ast.FragmentSpread:
					if d, ok := b[i].(*ast.FragmentSpread); ok {
						switch {
						case (s.Definition == nil) != (d.Definition == nil):
							return fmt.Sprintf("spread ...%s: fragment definition present before encoding: %v, after decoding: %v", s.Name, s.Definition != nil, d.Definition != nil)
						case s.Definition != nil && (s.Definition.Name != d.Definition.Name || s.Definition.TypeCondition != d.Definition.TypeCondition || len(s.Definition.SelectionSet) != len(d.Definition.SelectionSet) ||
							(s.Definition.Definition == nil) != (d.Definition.Definition == nil)):
							return fmt.Sprintf("spread ...%s decoded with a different fragment definition (%s on %s, %d selections, linked: %v)", s.Name, d.Definition.Name, d.Definition.TypeCondition, len(d.Definition.SelectionSet), d.Definition.Definition != nil)
						}
					}
				}
			}
			return ""
		}
		for i, op := range doc.Operations {
			if i < len(back.Operations) {
				if w := check(op.SelectionSet, back.Operations[i].SelectionSet); w != "" {
					x.Violate("roundtrip:field-definition-link", w, "the definition the field had before encoding")
					return
				}
			}
		}
		for i, fr := range doc.Fragments {
			if i < len(back.Fragments) {
				if w := check(fr.SelectionSet, back.Fragments[i].SelectionSet); w != "" {
					x.Violate("roundtrip:field-definition-link", w, "the definition the field had before encoding")
					return
				}
			}
		}
	}
	// everything the encoding carries, compared node by node with the tree that was encoded (for a validated tree that
	// includes the schema definitions validation linked it to, as deep as they go)
	x.Count("deep_comparisons")
	shape, sp, in := shapeOf(want)
	x.Distinct("shape", shape)
	if sp > 0 {
		x.Count("with_spread")
	}
	if in > 0 {
		x.Count("with_inline")
	}
	if sp+in > 0 {
		x.Nontrivial()
	}
	if code, detail := model.DiffDocs(want, got); code != "" {
		x.Violate("roundtrip:"+code, detail+"\ndecoded:\n"+got.Canon(), "original:\n"+want.Canon())
		return
	}
	if w, d := jsonDeepDiff(doc, &back); w != "" {
		// the signature names the kind of place (the last three steps of the path), not how deep it was found
		steps := strings.Split(strings.ReplaceAll(w, "[]", ""), ".")
		if len(steps) > 3 {
			steps = steps[len(steps)-3:]
		}
		x.Violate("roundtrip:deep("+strings.Join(steps, ".")+")", w+": "+d, "the same value on both sides")
		return
	}
	// decoding into a value that already holds another document (a server reusing its request object) gives this document,
	// not a mixture: the primer has variables, directives, arguments and all three selection kinds to leave behind
	reused := &ast.QueryDocument{}
	if perr := json.Unmarshal(c19Primer(), reused); perr != nil {
		x.HarnessBug("primer does not decode: " + perr.Error())
		return
	}
	if uerr := json.Unmarshal(enc, reused); uerr != nil {
		x.Violate("decode-error(reused-value)", uerr.Error(), "encoded document decodes")
		return
	}
	x.Count("decoded_into_used_value")
	if code, detail := model.DiffDocs(want, model.FromAST(reused)); code != "" {
		x.Violate("roundtrip(reused-value):"+code, detail+"\ndecoded:\n"+model.FromAST(reused).Canon(), "original:\n"+want.Canon())
		return
	}
	if x.WantSample() && sp+in > 0 {
		x.Sample(map[string]interface{}{"document": src, "json_bytes": len(enc), "selections_shape": shape, "verdict": "decoded document equals original"})
	}
	_ = fmt.Sprint
}

var c19PrimerJSON []byte

// c19Primer: the encoding of a fixed document rich in everything a decoder could leave behind.
func c19Primer() []byte {
	if c19PrimerJSON == nil {
		d, err := parser.ParseQuery(&ast.Source{Name: "primer.graphql", Input: `query P($a: Int = 1 @d(x: 2), $b: [String!] = ["s"]) @x(y: [1, {k: $a}]) { a: f(z: {k: [1, null]}, w: $b) @i(if: true) @j { g ...F @k ... on T @l { h } } u } mutation M @m { v } fragment F on T @q(r: 1) { i ...G } fragment G on T { j }`})
		if err != nil {
			panic("c19 primer: " + err.Error())
		}
		c19PrimerJSON, _ = json.Marshal(d)
	}
	return c19PrimerJSON
}

// c19DirectiveCycle: do the directive definitions of the schema text apply each other, directly or through others, on their
// arguments (@a's argument carries @b and @b's argument carries @a)?
func c19DirectiveCycle(ssrc string) bool {
	sd, err := parser.ParseSchema(&ast.Source{Name: "schema.graphql", Input: ssrc})
	if err != nil {
		return false
	}
	edges := map[string][]string{}
	for _, d := range sd.Directives {
		for _, a := range d.Arguments {
			for _, use := range a.Directives {
				edges[d.Name] = append(edges[d.Name], use.Name)
			}
		}
	}
	state := map[string]int{}
	var visit func(n string) bool
	visit = func(n string) bool {
		switch state[n] {
		case 1:
			return true
		case 2:
			return false
		}
		state[n] = 1
		for _, m := range edges[n] {
			if visit(m) {
				return true
			}
		}
		state[n] = 2
		return false
	}
	for n := range edges {
		if visit(n) {
			return true
		}
	}
	return false
}
