package mon

import (
	"verif/harness/internal/core"
	"verif/harness/internal/model"
)

// placeholders until the typed generators exist
func c04Typed(x *core.Ctx, r *core.Rand, rn *model.Renderer, i int) {}
func c04CheckTyped(x *core.Ctx, c *core.Case)                     {}
