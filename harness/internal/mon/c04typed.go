package mon

import (
	"fmt"
	"strconv"
	"strings"

	gqlparser "github.com/vektah/gqlparser/v2"
	"github.com/vektah/gqlparser/v2/ast"
	"github.com/vektah/gqlparser/v2/gqlerror"
	"github.com/vektah/gqlparser/v2/validator"

	"github.com/vektah/gqlparser/v2/parser"

	"verif/harness/internal/core"
	"verif/harness/internal/dgen"
	"verif/harness/internal/model"
	"verif/harness/internal/tsys"
)

// c04Typed: multi-source schema loads. Valid schemas: every position reachable from the loaded
// *ast.Schema; faulted schemas: the location of the load error must be a token start of the file it names.
func c04Typed(x *core.Ctx, r *core.Rand, rn *model.Renderer, i int) {
	// the caller passes every fourth index (i%4 == 3): the variants are chosen on i/4, not on i (choosing on i%8 left the
	// faulted loads unreachable; seeded change C04-H showed that no load error had ever been checked)
	i = i / 4
	if i%8 == 3 {
		// a faulted document, rendered with hostile trivia, validated against a schema from another named source
		items := tsys.Schema(r, &tsys.GenOpts{Descs: true, Small: true})
		mg := tsys.Merge(items)
		g := dgen.New(r, mg, &dgen.Opts{MaxDepth: 2, MaxOps: 2, Introspect: true})
		doc := g.Doc()
		if len(doc.Defs) > 0 {
			for k := 0; k < 1+r.Intn(3); k++ {
				dgen.Faults[r.Intn(len(dgen.Faults))].Do(dgen.NewFCtx(r, mg, doc))
			}
			// the same document once more as two texts: the operations (a named file) and the fragments (an in-memory snippet
			// without a name, pushed down by more lines than the operations file has)
			var ops, frags []*model.Def
			for _, d := range doc.Defs {
				if d.IsFragment {
					frags = append(frags, d)
				} else {
					ops = append(ops, d)
				}
			}
			opsText, fragText := "", ""
			if len(ops) > 0 && len(frags) > 0 {
				opsText = rn.RenderDoc(&model.Doc{Defs: ops})
				fragText = strings.Repeat("\n", 1+strings.Count(opsText, "\n")+strings.Count(opsText, "\r")) + rn.RenderDoc(&model.Doc{Defs: frags})
			}
			c := core.NewCase("validate", "schema", rn.RenderSDoc(&model.SDoc{Items: items}), "doc", rn.RenderDoc(doc), "ops", opsText, "frags", fragText)
			x.Do(c, func() { c04CheckTyped(x, c) })
			return
		}
	}
	items := tsys.Schema(r, &tsys.GenOpts{Descs: true, Hostile: i%8 == 3, Extensions: true, ExtOnly: i%2 == 0, Small: i%3 == 0})
	if i%8 != 7 {
		all := append(append([]tsys.Fault{}, tsys.Faults...), tsys.ExtraFaults...)
		f := all[r.Intn(len(all))]
		if i%8 == 1 {
			// faults about TWO definitions (duplicates): the two may sit in different files, and an error that points at both
			// has to be right about both
			var pairs []tsys.Fault
			for _, pf := range all {
				if strings.HasPrefix(pf.Code, "dup-") || strings.HasPrefix(pf.Code, "multiple-") {
					pairs = append(pairs, pf)
				}
			}
			f = pairs[r.Intn(len(pairs))]
		}
		if out, _, ok := f.Inject(r, tsys.CloneItems(items)); ok {
			items = out
		}
	}
	// shuffle whole items and cut into 1-4 sources, each rendered with its own hostile trivia
	p := r.Perm(len(items))
	k := 1 + r.Intn(4)
	if i%8 == 1 && k == 1 {
		k = 2
	}
	if k > len(items) {
		k = len(items)
	}
	groups := make([][]*model.Item, k)
	for j, q := range p {
		g := j * k / len(items)
		groups[g] = append(groups[g], items[q])
	}
	kv := []string{"n", strconv.Itoa(k)}
	for j, g := range groups {
		kv = append(kv, fmt.Sprintf("src%d", j), rn.RenderSDoc(&model.SDoc{Items: g}))
	}
	c := core.NewCase("load", kv...)
	x.Do(c, func() { c04CheckTyped(x, c) })
}

func c04CheckTyped(x *core.Ctx, c *core.Case) {
	if c.Kind == "validate" {
		ssrc := &ast.Source{Name: c20Name(c.Get("schema")) + ".schema", Input: c.Get("schema")}
		dsrc := &ast.Source{Name: c20Name(c.Get("doc")) + ".request", Input: c.Get("doc")}
		pc := newPosChecker(x, validator.Prelude, ssrc, dsrc)
		if !pc.sources[ssrc].lexOK || !pc.sources[dsrc].lexOK {
			x.Count("skipped:reference-cannot-lex")
			return
		}
		schema, err := gqlparser.LoadSchema(ssrc)
		if err != nil {
			return
		}
		doc, perr := parser.ParseQuery(dsrc)
		if perr != nil {
			return
		}
		errs := validator.Validate(schema, doc)
		x.Count("validated_documents")
		for _, e := range errs {
			if len(e.Locations) == 0 {
				continue
			}
			x.Count("validation_error_locations")
			pc.checkErrorLocation("validate:"+e.Rule, e, dsrc)
		}
		// the validated tree now also points into the schema's sources: every position must still be truthful
		pc.walkPositions(doc, false)
		if c.Get("ops") == "" {
			return
		}
		// an executable document assembled from two sources: every error names the source its location is in
		osrc := &ast.Source{Name: c20Name(c.Get("ops")) + ".operations", Input: c.Get("ops")}
		fsrc := &ast.Source{Name: "", Input: c.Get("frags")}
		if len(c.Get("ops"))%3 == 0 {
			fsrc.Name = "fragments of " + osrc.Name
		}
		pc2 := newPosChecker(x, validator.Prelude, ssrc, osrc, fsrc)
		od, oerr := parser.ParseQuery(osrc)
		fd, ferr := parser.ParseQuery(fsrc)
		if oerr != nil || ferr != nil || !pc2.sources[osrc].lexOK || !pc2.sources[fsrc].lexOK {
			return
		}
		if len(c.Get("frags"))%2 == 0 {
			od.Fragments = append(od.Fragments, fd.Fragments...)
		} else {
			od.Fragments = append(append(ast.FragmentDefinitionList{}, fd.Fragments...), od.Fragments...)
		}
		errs2 := validator.Validate(schema, od)
		x.Count("validated_two_source_documents")
		for _, e := range errs2 {
			if len(e.Locations) == 0 {
				continue
			}
			x.Count("two_source_validation_error_locations")
			if f, _ := e.Extensions["file"].(string); f == fsrc.Name {
				x.Count("two_source_errors_in_the_fragments_source")
			}
			pc2.checkErrorLocation("validate-two-sources:"+e.Rule, e, nil)
		}
		pc2.walkPositions(od, false)
		return
	}
	if c.Kind != "load" {
		return
	}
	n, _ := strconv.Atoi(c.Get("n"))
	var srcs []*ast.Source
	for j := 0; j < n; j++ {
		// some user sources are flagged built-in (plugins do that): positions and file names must not change
		// names a path cleaner or URL parser would change: a position names the file exactly as the source does
		srcs = append(srcs, &ast.Source{Name: fmt.Sprintf("%s.part%d", c20Name(c.Get("src0")), j), Input: c.Get(fmt.Sprintf("src%d", j)), BuiltIn: (len(c.Get("src0"))+j)%3 == 0})
	}
	pc := newPosChecker(x, append([]*ast.Source{validator.Prelude}, srcs...)...)
	for _, s := range srcs {
		if !pc.sources[s].lexOK {
			x.Count("skipped:reference-cannot-lex")
			x.Count("skipped:reference-cannot-lex(" + pc.sources[s].lexWhy + ")")
			return
		}
	}
	schema, err := gqlparser.LoadSchema(srcs...)
	if err != nil {
		x.Count("load_errors")
		if ge, ok := err.(*gqlerror.Error); ok {
			if len(ge.Locations) == 0 {
				x.Violate("error(load):no-location", ge.Message, "a location")
				return
			}
			pc.checkErrorLocation("load", ge, nil)
		}
		return
	}
	x.Count("loaded_schemas")
	if n > 1 {
		x.Count("loaded_multi_source")
	}
	pc.walkPositions(schema, false)
}
