package dgen

import (
	"strings"

	"verif/harness/internal/core"
	m "verif/harness/internal/model"
	"verif/harness/internal/tsys"
)

// Fault edits a (private copy of a) valid document so that the named rule is violated.
type Fault struct {
	Name string // fault class
	Rule string // the rule the reference validator must report
	Do   func(c *FCtx) bool
}

// FCtx gives injectors access to the document and the type system.
type FCtx struct {
	R   *core.Rand
	Mg  *tsys.Merged
	Doc *m.Doc
	g   *G
}

func NewFCtx(r *core.Rand, mg *tsys.Merged, doc *m.Doc) *FCtx {
	return &FCtx{R: r, Mg: mg, Doc: doc, g: New(r, mg, &Opts{NoVariables: true, NoDirectives: true})}
}

// ---------------------------------------------------------------- deep copy

func cloneValue(v *m.Value) *m.Value {
	if v == nil {
		return nil
	}
	c := *v
	c.Items = nil
	for _, it := range v.Items {
		c.Items = append(c.Items, cloneValue(it))
	}
	c.Fields = nil
	for _, f := range v.Fields {
		c.Fields = append(c.Fields, m.ObjField{Name: f.Name, Value: cloneValue(f.Value)})
	}
	return &c
}

func cloneArgs(as []m.Arg) []m.Arg {
	var out []m.Arg
	for _, a := range as {
		out = append(out, m.Arg{Name: a.Name, Value: cloneValue(a.Value)})
	}
	return out
}

func cloneDirs(ds []m.Dir) []m.Dir {
	var out []m.Dir
	for _, d := range ds {
		out = append(out, m.Dir{Name: d.Name, Args: cloneArgs(d.Args)})
	}
	return out
}

func cloneSels(ss []*m.Sel) []*m.Sel {
	var out []*m.Sel
	for _, s := range ss {
		c := *s
		c.Args = cloneArgs(s.Args)
		c.Dirs = cloneDirs(s.Dirs)
		c.Sel = cloneSels(s.Sel)
		out = append(out, &c)
	}
	return out
}

func CloneDoc(d *m.Doc) *m.Doc {
	out := &m.Doc{}
	for _, def := range d.Defs {
		c := *def
		c.Vars = nil
		for _, v := range def.Vars {
			c.Vars = append(c.Vars, m.VarDef{Name: v.Name, Type: cloneType(v.Type), Default: cloneValue(v.Default), Dirs: cloneDirs(v.Dirs)})
		}
		c.Dirs = cloneDirs(def.Dirs)
		c.Sel = cloneSels(def.Sel)
		out.Defs = append(out.Defs, &c)
	}
	return out
}

// ---------------------------------------------------------------- navigation

type selSite struct {
	parent *tsys.Def // type the selection is made on (nil: unknown)
	list   *[]*m.Sel
	idx    int
	def    *m.Def
}

func (c *FCtx) fieldDef(parent *tsys.Def, name string) *m.FieldDef {
	if parent == nil {
		return nil
	}
	if name == "__typename" {
		return &m.FieldDef{Name: name, Type: &m.Type{Name: "String", NonNull: true}}
	}
	if parent.Name == c.Mg.Roots["query"] {
		switch name {
		case "__schema":
			return &m.FieldDef{Name: name, Type: &m.Type{Name: "__Schema", NonNull: true}}
		case "__type":
			return &m.FieldDef{Name: name, Type: &m.Type{Name: "__Type"}, Args: []*m.ArgDef{{Name: "name", Type: &m.Type{Name: "String", NonNull: true}}}}
		}
	}
	return parent.Field(name)
}

func (c *FCtx) parentOf(d *m.Def) *tsys.Def {
	if d.IsFragment {
		return c.Mg.Types[d.TypeCond]
	}
	return c.Mg.Types[c.Mg.Roots[d.Op]]
}

// sites lists every selection with its parent type.
func (c *FCtx) sites() []selSite {
	var out []selSite
	var walk func(def *m.Def, parent *tsys.Def, list *[]*m.Sel)
	walk = func(def *m.Def, parent *tsys.Def, list *[]*m.Sel) {
		for i, s := range *list {
			out = append(out, selSite{parent, list, i, def})
			switch s.Kind {
			case m.SField:
				var next *tsys.Def
				if fd := c.fieldDef(parent, s.Name); fd != nil {
					next = c.Mg.Types[fd.Type.Base()]
				}
				walk(def, next, &s.Sel)
			case m.SInline:
				next := parent
				if s.TypeCond != "" {
					next = c.Mg.Types[s.TypeCond]
				}
				walk(def, next, &s.Sel)
			}
		}
	}
	for _, d := range c.Doc.Defs {
		walk(d, c.parentOf(d), &d.Sel)
	}
	return out
}

func (c *FCtx) pick(sites []selSite, ok func(selSite) bool) (selSite, bool) {
	var cs []selSite
	for _, s := range sites {
		if ok(s) {
			cs = append(cs, s)
		}
	}
	if len(cs) == 0 {
		return selSite{}, false
	}
	return cs[c.R.Intn(len(cs))], true
}

func (s selSite) sel() *m.Sel { return (*s.list)[s.idx] }

func (c *FCtx) fieldSites(withDef bool) []selSite {
	var out []selSite
	for _, s := range c.sites() {
		if s.sel().Kind == m.SField && s.sel().Name[0] != '_' {
			if !withDef || c.fieldDef(s.parent, s.sel().Name) != nil {
				out = append(out, s)
			}
		}
	}
	return out
}

func (c *FCtx) ops() []*m.Def {
	var out []*m.Def
	for _, d := range c.Doc.Defs {
		if !d.IsFragment {
			out = append(out, d)
		}
	}
	return out
}

func (c *FCtx) frags() []*m.Def {
	var out []*m.Def
	for _, d := range c.Doc.Defs {
		if d.IsFragment {
			out = append(out, d)
		}
	}
	return out
}

// typedValue is a literal position with its expected type.
type typedValue struct {
	set   func(v *m.Value)
	val   *m.Value
	typ   *m.Type
	konst bool // a constant position (variable default value)
}

// typedValues lists literal positions (arguments of fields and directives, nested list items and
// input object fields) whose expected type is known.
func (c *FCtx) typedValues() []typedValue {
	var out []typedValue
	konst := false
	var walk func(v *m.Value, t *m.Type, set func(*m.Value))
	walk = func(v *m.Value, t *m.Type, set func(*m.Value)) {
		if v == nil || t == nil {
			return
		}
		out = append(out, typedValue{set, v, t, konst})
		switch v.Kind {
		case m.VList:
			if t.Elem != nil {
				for i := range v.Items {
					i := i
					walk(v.Items[i], t.Elem, func(n *m.Value) { v.Items[i] = n })
				}
			}
		case m.VObject:
			bt := t
			for bt.Elem != nil {
				bt = bt.Elem
			}
			td := c.Mg.Types[bt.Name]
			if td != nil && td.Kind == "input" {
				for i := range v.Fields {
					i := i
					if fd := td.Field(v.Fields[i].Name); fd != nil {
						walk(v.Fields[i].Value, fd.Type, func(n *m.Value) { v.Fields[i].Value = n })
					}
				}
			}
		}
	}
	args := func(as []m.Arg, defs []*m.ArgDef) {
		for i := range as {
			i := i
			for _, d := range defs {
				if d.Name == as[i].Name {
					walk(as[i].Value, d.Type, func(n *m.Value) { as[i].Value = n })
				}
			}
		}
	}
	dirs := func(ds []m.Dir) {
		for _, d := range ds {
			if def := c.Mg.Directives[d.Name]; def != nil {
				args(d.Args, def.Args)
			}
		}
	}
	for _, s := range c.sites() {
		sl := s.sel()
		dirs(sl.Dirs)
		if sl.Kind == m.SField {
			if fd := c.fieldDef(s.parent, sl.Name); fd != nil {
				args(sl.Args, fd.Args)
			}
		}
	}
	for _, d := range c.Doc.Defs {
		dirs(d.Dirs)
		for i := range d.Vars {
			i := i
			d := d
			if d.Vars[i].Default != nil {
				konst = true
				walk(d.Vars[i].Default, d.Vars[i].Type, func(n *m.Value) { d.Vars[i].Default = n })
				konst = false
			}
		}
	}
	return out
}

func (c *FCtx) pickValue(ok func(tv typedValue, td *tsys.Def) bool) (typedValue, bool) {
	var cs []typedValue
	for _, tv := range c.typedValues() {
		if tv.val.Kind == m.VVar {
			continue
		}
		if ok(tv, c.Mg.Types[tv.typ.Base()]) {
			cs = append(cs, tv)
		}
	}
	if len(cs) == 0 {
		return typedValue{}, false
	}
	return cs[c.R.Intn(len(cs))], true
}

func isBuiltinScalar(td *tsys.Def, names ...string) bool {
	if td == nil || td.Kind != "scalar" {
		return false
	}
	for _, n := range names {
		if td.Name == n {
			return true
		}
	}
	return false
}

func namedLeaf(tv typedValue) bool { return tv.typ.Elem == nil }

// ---------------------------------------------------------------- catalogue

func val(k m.ValueKind, raw string) *m.Value { return &m.Value{Kind: k, Raw: raw} }

// Faults is the catalogue, at least one entry per validation rule.
var Faults = []Fault{
	{"unknown-field", "FieldsOnCorrectType", func(c *FCtx) bool {
		s, ok := c.pick(c.fieldSites(true), func(s selSite) bool { return s.parent != nil && s.parent.Kind != "union" })
		if !ok {
			return false
		}
		s.sel().Name = c.R.Pick("nope", s.sel().Name+"x", "nmae")
		if c.fieldDef(s.parent, s.sel().Name) != nil {
			s.sel().Name = "noSuchField"
		}
		s.sel().Args = nil
		s.sel().Sel = nil
		return true
	}},
	{"field-on-union", "FieldsOnCorrectType", func(c *FCtx) bool {
		s, ok := c.pick(c.sites(), func(s selSite) bool { return s.parent != nil && s.parent.Kind == "union" })
		if !ok {
			return false
		}
		*s.list = append(*s.list, &m.Sel{Kind: m.SField, Name: "id"})
		return true
	}},
	{"selection-on-leaf", "ScalarLeafs", func(c *FCtx) bool {
		s, ok := c.pick(c.fieldSites(true), func(s selSite) bool {
			td := c.Mg.Types[c.fieldDef(s.parent, s.sel().Name).Type.Base()]
			return td != nil && td.IsLeaf()
		})
		if !ok {
			return false
		}
		s.sel().Sel = []*m.Sel{{Kind: m.SField, Name: c.R.Pick("x", "__typename")}}
		if c.R.Chance(1, 3) {
			// ... through an inline fragment without a type condition (with or without a directive)
			s.sel().Sel = []*m.Sel{{Kind: m.SInline, Sel: s.sel().Sel}}
			if c.R.Bool() {
				s.sel().Sel[0].Dirs = []m.Dir{{Name: "include", Args: []m.Arg{{Name: "if", Value: val(m.VBool, "true")}}}}
			}
		}
		return true
	}},
	{"no-selection-on-composite", "ScalarLeafs", func(c *FCtx) bool {
		s, ok := c.pick(c.fieldSites(true), func(s selSite) bool { return len(s.sel().Sel) > 0 })
		if !ok {
			return false
		}
		s.sel().Sel = nil
		return true
	}},
	{"unknown-argument", "KnownArgumentNames", func(c *FCtx) bool {
		s, ok := c.pick(c.fieldSites(true), func(s selSite) bool { return true })
		if !ok {
			return false
		}
		bogus := c.R.Pick("nope", "frist", "idd")
		for _, a := range c.fieldDef(s.parent, s.sel().Name).Args {
			if a.Name == bogus {
				bogus = "noSuchArgument"
			}
		}
		s.sel().Args = append(s.sel().Args, m.Arg{Name: bogus, Value: val(m.VInt, "1")})
		if c.R.Chance(1, 4) {
			// the same unknown name a second (and third) time on the same field: each occurrence is an unknown argument
			for k := 0; k < 1+c.R.Intn(2); k++ {
				at := c.R.Intn(len(s.sel().Args) + 1)
				s.sel().Args = append(s.sel().Args[:at], append([]m.Arg{{Name: bogus, Value: val(m.VInt, "2")}}, s.sel().Args[at:]...)...)
			}
		}
		return true
	}},
	{"unknown-directive-argument", "KnownArgumentNames", func(c *FCtx) bool {
		s, ok := c.pick(c.fieldSites(false), func(s selSite) bool { return true })
		if !ok {
			return false
		}
		s.sel().Dirs = append(s.sel().Dirs, m.Dir{Name: "skip", Args: []m.Arg{{Name: "if", Value: val(m.VBool, "true")}, {Name: "unless", Value: val(m.VBool, "true")}}})
		return true
	}},
	{"duplicate-argument", "UniqueArgumentNames", func(c *FCtx) bool {
		s, ok := c.pick(c.fieldSites(true), func(s selSite) bool { return len(s.sel().Args) > 0 })
		if !ok {
			return false
		}
		args := s.sel().Args
		a := args[c.R.Intn(len(args))]
		s.sel().Args = append(s.sel().Args, m.Arg{Name: a.Name, Value: cloneValue(a.Value)})
		if len(args) >= 2 && c.R.Chance(1, 2) {
			// a second, different name repeated as well (several errors from one argument list)
			for _, b := range args {
				if b.Name != a.Name {
					at := c.R.Intn(len(s.sel().Args) + 1)
					dup := m.Arg{Name: b.Name, Value: cloneValue(b.Value)}
					s.sel().Args = append(s.sel().Args[:at], append([]m.Arg{dup}, s.sel().Args[at:]...)...)
					break
				}
			}
		}
		return true
	}},
	{"missing-required-argument", "ProvidedRequiredArguments", func(c *FCtx) bool {
		s, ok := c.pick(c.fieldSites(true), func(s selSite) bool {
			for _, a := range c.fieldDef(s.parent, s.sel().Name).Args {
				if a.Type.NonNull && a.Default == nil {
					return true
				}
			}
			return false
		})
		if !ok {
			return false
		}
		for _, a := range c.fieldDef(s.parent, s.sel().Name).Args {
			if a.Type.NonNull && a.Default == nil {
				var keep []m.Arg
				for _, x := range s.sel().Args {
					if x.Name != a.Name {
						keep = append(keep, x)
					}
				}
				s.sel().Args = keep
				return true
			}
		}
		return false
	}},
	{"missing-required-directive-argument", "ProvidedRequiredArguments", func(c *FCtx) bool {
		s, ok := c.pick(c.fieldSites(false), func(s selSite) bool { return true })
		if !ok {
			return false
		}
		// a directive of the schema allowed on fields, with all of its required arguments but one (which one is random:
		// with several required arguments an earlier one is supplied and a later one missing, or the other way round)
		var cands []*m.Item
		for _, n := range c.Mg.DirectiveNames() {
			d := c.Mg.Directives[n]
			onField, req := false, 0
			for _, l := range d.Locations {
				if l == "FIELD" {
					onField = true
				}
			}
			for _, a := range d.Args {
				if a.Type.NonNull && a.Default == nil {
					req++
				}
			}
			if onField && req > 0 && n != "skip" && n != "include" {
				cands = append(cands, d)
			}
		}
		if len(cands) == 0 || c.R.Chance(1, 3) {
			s.sel().Dirs = append(s.sel().Dirs, m.Dir{Name: c.R.Pick("skip", "include")})
			return true
		}
		d := cands[c.R.Intn(len(cands))]
		for _, x := range s.sel().Dirs {
			if x.Name == d.Name && !d.Repeatable {
				return false
			}
		}
		var req []*m.ArgDef
		for _, a := range d.Args {
			if a.Type.NonNull && a.Default == nil {
				req = append(req, a)
			}
		}
		miss := req[c.R.Intn(len(req))]
		use := m.Dir{Name: d.Name}
		for _, a := range d.Args {
			if a == miss {
				continue
			}
			if (a.Type.NonNull && a.Default == nil) || c.R.Bool() {
				use.Args = append(use.Args, m.Arg{Name: a.Name, Value: tsys.GenValue(c.R, c.g.Lookup, a.Type, 1, false)})
			}
		}
		s.sel().Dirs = append(s.sel().Dirs, use)
		return true
	}},
	{"wrong-kind-literal", "ValuesOfCorrectType", func(c *FCtx) bool {
		tv, ok := c.pickValue(func(tv typedValue, td *tsys.Def) bool {
			return td != nil && (td.BuiltIn || td.Kind == "enum" || td.Kind == "input") && tv.val.Kind != m.VNull
		})
		if !ok {
			return false
		}
		td := c.Mg.Types[tv.typ.Base()]
		var bad []*m.Value
		switch {
		case isBuiltinScalar(td, "Int"):
			bad = []*m.Value{val(m.VString, "1"), val(m.VFloat, "1.5"), val(m.VBool, "true"), val(m.VEnum, "ONE"), {Kind: m.VObject}}
		case isBuiltinScalar(td, "Float"):
			bad = []*m.Value{val(m.VString, "1.0"), val(m.VBool, "false"), val(m.VEnum, "PI"), {Kind: m.VObject}}
		case isBuiltinScalar(td, "String"):
			bad = []*m.Value{val(m.VInt, "1"), val(m.VFloat, "1.5"), val(m.VBool, "true"), val(m.VEnum, "str"), {Kind: m.VObject}}
		case isBuiltinScalar(td, "Boolean"):
			bad = []*m.Value{val(m.VInt, "1"), val(m.VString, "true"), val(m.VEnum, "TRUE"), {Kind: m.VObject}}
		case isBuiltinScalar(td, "ID"):
			bad = []*m.Value{val(m.VFloat, "1.5"), val(m.VBool, "true"), val(m.VEnum, "abc"), {Kind: m.VObject}}
		case td.Kind == "enum":
			v0 := "X"
			if len(td.Values) > 0 {
				v0 = td.Values[0].Name
			}
			bad = []*m.Value{val(m.VString, v0), val(m.VInt, "1"), val(m.VBool, "true"), {Kind: m.VObject}}
		case td.Kind == "input":
			bad = []*m.Value{val(m.VString, "x"), val(m.VInt, "1"), val(m.VEnum, "A"), val(m.VBool, "true")}
		}
		if len(bad) == 0 {
			return false
		}
		if !namedLeaf(tv) && tv.val.Kind == m.VList {
			// put the bad value inside the list
			tv.val.Items = append(tv.val.Items, bad[c.R.Intn(len(bad))])
			if tv.typ.Elem.Elem != nil {
				return false
			}
			return true
		}
		if !namedLeaf(tv) {
			return false
		}
		tv.set(bad[c.R.Intn(len(bad))])
		return true
	}},
	{"unsorted-object-for-leaf-twice", "ValuesOfCorrectType", func(c *FCtx) bool {
		// an object literal whose keys are not in name order where a built-in scalar or an enum is expected, on a field
		// that is selected twice under the same response name (identical, so the two merge): the rule that reports the
		// literal prints it, the rule that compares the two fields reads it
		builtin := map[string]bool{"Int": true, "Float": true, "String": true, "Boolean": true, "ID": true}
		leafArg := func(s selSite) *m.ArgDef {
			fd := c.fieldDef(s.parent, s.sel().Name)
			if fd == nil {
				return nil
			}
			for _, a := range fd.Args {
				if td := c.Mg.Types[a.Type.Base()]; a.Type.Elem == nil && (builtin[a.Type.Base()] || (td != nil && td.Kind == "enum")) {
					return a
				}
			}
			return nil
		}
		s, ok := c.pick(c.fieldSites(true), func(s selSite) bool { return leafArg(s) != nil })
		if !ok {
			return false
		}
		a := leafArg(s)
		one := func(raw string) *m.Value { return &m.Value{Kind: m.VInt, Raw: raw} }
		lit := &m.Value{Kind: m.VObject, Fields: []m.ObjField{{Name: "zeta", Value: one("1")}, {Name: "mid", Value: &m.Value{Kind: m.VObject, Fields: []m.ObjField{{Name: "b", Value: one("1")}, {Name: "a", Value: one("2")}}}}, {Name: "alpha", Value: &m.Value{Kind: m.VList, Items: []*m.Value{one("2")}}}}}
		var keep []m.Arg
		for _, x := range s.sel().Args {
			if x.Name != a.Name {
				keep = append(keep, x)
			}
		}
		s.sel().Args = append(keep, m.Arg{Name: a.Name, Value: lit})
		dup := cloneSels([]*m.Sel{s.sel()})[0]
		at := s.idx + c.R.Intn(len(*s.list)-s.idx) + 1
		*s.list = append((*s.list)[:at], append([]*m.Sel{dup}, (*s.list)[at:]...)...)
		return true
	}},
	{"list-for-non-list", "ValuesOfCorrectType", func(c *FCtx) bool {
		tv, ok := c.pickValue(func(tv typedValue, td *tsys.Def) bool {
			return td != nil && (td.BuiltIn || td.Kind == "enum" || td.Kind == "input") && namedLeaf(tv) && tv.val.Kind != m.VNull
		})
		if !ok {
			return false
		}
		tv.set(&m.Value{Kind: m.VList, Items: []*m.Value{cloneValue(tv.val)}})
		return true
	}},
	{"int-out-of-range", "ValuesOfCorrectType", func(c *FCtx) bool {
		tv, ok := c.pickValue(func(tv typedValue, td *tsys.Def) bool { return isBuiltinScalar(td, "Int") && namedLeaf(tv) })
		if !ok {
			return false
		}
		tv.set(val(m.VInt, c.R.Pick("2147483648", "-2147483649", "3000000000", "99999999999", "99999999999999999999", "-829384293849283498239482938")))
		return true
	}},
	{"float-out-of-range", "ValuesOfCorrectType", func(c *FCtx) bool {
		// the reference abstains on float overflow (C08 does not judge it); other monitors still see the library's errors
		tv, ok := c.pickValue(func(tv typedValue, td *tsys.Def) bool { return isBuiltinScalar(td, "Float", "Int") && namedLeaf(tv) })
		if !ok {
			return false
		}
		tv.set(val(m.VFloat, c.R.Pick("1e999", "-1.5E+400")))
		return true
	}},
	{"int-beyond-int64-for-id-or-float", "ValuesOfCorrectType", func(c *FCtx) bool {
		// the reference abstains (the specification does not bound ID/Float literals); the library rejects what it cannot convert
		tv, ok := c.pickValue(func(tv typedValue, td *tsys.Def) bool { return isBuiltinScalar(td, "ID", "Float") && namedLeaf(tv) })
		if !ok {
			return false
		}
		tv.set(val(m.VInt, c.R.Pick("99999999999999999999", "-18446744073709551616")))
		return true
	}},
	{"unknown-enum-value", "ValuesOfCorrectType", func(c *FCtx) bool {
		tv, ok := c.pickValue(func(tv typedValue, td *tsys.Def) bool { return td != nil && td.Kind == "enum" && namedLeaf(tv) })
		if !ok {
			return false
		}
		tv.set(val(m.VEnum, c.R.Pick("NOPE", "RDE", "red")))
		return true
	}},
	{"null-for-non-null", "ValuesOfCorrectType", func(c *FCtx) bool {
		tv, ok := c.pickValue(func(tv typedValue, td *tsys.Def) bool { return tv.typ.NonNull })
		if !ok {
			return false
		}
		tv.set(val(m.VNull, "null"))
		return true
	}},
	{"unknown-input-field", "ValuesOfCorrectType", func(c *FCtx) bool {
		tv, ok := c.pickValue(func(tv typedValue, td *tsys.Def) bool {
			return td != nil && td.Kind == "input" && tv.val.Kind == m.VObject
		})
		if !ok {
			return false
		}
		tv.val.Fields = append(tv.val.Fields, m.ObjField{Name: c.R.Pick("nope", "idd"), Value: val(m.VInt, "1")})
		return true
	}},
	{"oneof-unknown-field", "ValuesOfCorrectType", func(c *FCtx) bool {
		// the single member of a @oneOf literal is not a field of the type (valued null, a literal or a variable-free list)
		tv, ok := c.pickValue(func(tv typedValue, td *tsys.Def) bool {
			return td != nil && td.Kind == "input" && td.HasDir("oneOf") && tv.val.Kind == m.VObject
		})
		if !ok {
			return false
		}
		v := []*m.Value{val(m.VNull, "null"), val(m.VInt, "1"), {Kind: m.VList}, val(m.VString, "x")}[c.R.Intn(4)]
		tv.val.Fields = []m.ObjField{{Name: c.R.Pick("nope", "byTitle", "aa"), Value: v}}
		return true
	}},
	{"missing-required-input-field", "ValuesOfCorrectType", func(c *FCtx) bool {
		tv, ok := c.pickValue(func(tv typedValue, td *tsys.Def) bool {
			if td == nil || td.Kind != "input" || tv.val.Kind != m.VObject || td.HasDir("oneOf") {
				return false
			}
			for _, f := range td.Fields {
				if f.Type.NonNull && f.Default == nil {
					return true
				}
			}
			return false
		})
		if !ok {
			return false
		}
		td := c.Mg.Types[tv.typ.Base()]
		var req []string
		for _, f := range td.Fields {
			if f.Type.NonNull && f.Default == nil {
				req = append(req, f.Name)
			}
		}
		// one of the required fields, or (half of the time) all of them: several errors for one literal
		drop := map[string]bool{req[c.R.Intn(len(req))]: true}
		if len(req) > 1 && c.R.Chance(1, 2) {
			for _, n := range req {
				drop[n] = true
			}
		}
		var keep []m.ObjField
		for _, x := range tv.val.Fields {
			if !drop[x.Name] {
				keep = append(keep, x)
			}
		}
		tv.val.Fields = keep
		return true
	}},
	{"duplicate-input-field", "UniqueInputFieldNames", func(c *FCtx) bool {
		tv, ok := c.pickValue(func(tv typedValue, td *tsys.Def) bool { return tv.val.Kind == m.VObject && len(tv.val.Fields) > 0 })
		if !ok {
			return false
		}
		f := tv.val.Fields[c.R.Intn(len(tv.val.Fields))]
		tv.val.Fields = append(tv.val.Fields, m.ObjField{Name: f.Name, Value: cloneValue(f.Value)})
		return true
	}},
	{"oneof-two-fields", "ValuesOfCorrectType", func(c *FCtx) bool {
		tv, ok := c.pickValue(func(tv typedValue, td *tsys.Def) bool {
			return td != nil && td.Kind == "input" && td.HasDir("oneOf") && tv.val.Kind == m.VObject && len(td.Fields) >= 2 && len(tv.val.Fields) == 1
		})
		if !ok {
			return false
		}
		td := c.Mg.Types[tv.typ.Base()]
		for _, f := range td.Fields {
			if f.Name != tv.val.Fields[0].Name {
				nn := cloneType(f.Type)
				nn.NonNull = true
				tv.val.Fields = append(tv.val.Fields, m.ObjField{Name: f.Name, Value: tsys.GenValue(c.R, c.g.Lookup, nn, 1, false)})
				return true
			}
		}
		return false
	}},
	{"oneof-nullable-variable", "ValuesOfCorrectType", func(c *FCtx) bool {
		// the single field of a @oneOf literal takes a NULLABLE variable; half of the time the variable has a non-null default,
		// which makes a nullable variable acceptable at an ordinary non-null position but not here
		ops := c.ops()
		if len(ops) != 1 {
			return false
		}
		tv, ok := c.pickValue(func(tv typedValue, td *tsys.Def) bool {
			return !tv.konst && td != nil && td.Kind == "input" && td.HasDir("oneOf") && tv.val.Kind == m.VObject && len(tv.val.Fields) == 1 && td.Field(tv.val.Fields[0].Name) != nil
		})
		if !ok {
			return false
		}
		td := c.Mg.Types[tv.typ.Base()]
		fd := td.Field(tv.val.Fields[0].Name)
		vt := cloneType(fd.Type)
		vt.NonNull = false
		vd := m.VarDef{Name: "oneOfVar", Type: vt}
		if c.R.Bool() {
			nn := cloneType(fd.Type)
			nn.NonNull = true
			vd.Default = tsys.GenValue(c.R, c.g.Lookup, nn, 1, false)
		}
		ops[0].Vars = append(ops[0].Vars, vd)
		ops[0].Shorthand = false
		tv.val.Fields[0].Value = val(m.VVar, "oneOfVar")
		return true
	}},
	{"oneof-null-field", "ValuesOfCorrectType", func(c *FCtx) bool {
		tv, ok := c.pickValue(func(tv typedValue, td *tsys.Def) bool {
			return td != nil && td.Kind == "input" && td.HasDir("oneOf") && tv.val.Kind == m.VObject && len(tv.val.Fields) == 1
		})
		if !ok {
			return false
		}
		tv.val.Fields[0].Value = val(m.VNull, "null")
		return true
	}},
	{"unknown-directive", "KnownDirectives", func(c *FCtx) bool {
		s, ok := c.pick(c.sites(), func(s selSite) bool { return true })
		if !ok {
			return false
		}
		s.sel().Dirs = append(s.sel().Dirs, m.Dir{Name: c.R.Pick("nope", "skipp", "inclde")})
		return true
	}},
	{"misplaced-directive", "KnownDirectives", func(c *FCtx) bool {
		// @skip on an operation or fragment definition; @specifiedBy / @deprecated on a field
		if c.R.Bool() {
			d := c.Doc.Defs[c.R.Intn(len(c.Doc.Defs))]
			d.Shorthand = false
			d.Dirs = append(d.Dirs, m.Dir{Name: "skip", Args: []m.Arg{{Name: "if", Value: val(m.VBool, "true")}}})
			return true
		}
		s, ok := c.pick(c.sites(), func(s selSite) bool { return true })
		if !ok {
			return false
		}
		s.sel().Dirs = append(s.sel().Dirs, m.Dir{Name: "deprecated"})
		return true
	}},
	{"misplaced-directive-with-other-faults", "KnownDirectives", func(c *FCtx) bool {
		// a directive the schema defines, used where its definition does not allow it AND (a) without one of its required
		// arguments or (b) twice although it is not repeatable or (c) twice and repeatable: the rules that judge the other
		// aspects must not depend on what the location rule did with the node
		s, ok := c.pick(c.sites(), func(s selSite) bool { return s.sel().Kind == m.SField })
		if !ok {
			return false
		}
		var cands []*m.Item
		for _, n := range c.Mg.DirectiveNames() {
			d := c.Mg.Directives[n]
			allowed := false
			for _, l := range d.Locations {
				if l == "FIELD" {
					allowed = true
				}
			}
			if !allowed {
				cands = append(cands, d)
			}
		}
		if len(cands) == 0 {
			return false
		}
		d := cands[c.R.Intn(len(cands))]
		use := m.Dir{Name: d.Name}
		if c.R.Bool() {
			// all required arguments present
			for _, a := range d.Args {
				if a.Type.NonNull && a.Default == nil {
					use.Args = append(use.Args, m.Arg{Name: a.Name, Value: tsys.GenValue(c.R, c.g.Lookup, a.Type, 1, false)})
				}
			}
		}
		s.sel().Dirs = append(s.sel().Dirs, use)
		if c.R.Bool() {
			s.sel().Dirs = append(s.sel().Dirs, m.Dir{Name: d.Name, Args: cloneArgs(use.Args)})
		}
		return true
	}},
	{"repeated-directive", "UniqueDirectivesPerLocation", func(c *FCtx) bool {
		s, ok := c.pick(c.sites(), func(s selSite) bool { return true })
		if !ok {
			return false
		}
		n := c.R.Pick("skip", "include")
		d := m.Dir{Name: n, Args: []m.Arg{{Name: "if", Value: val(m.VBool, "true")}}}
		var keep []m.Dir
		for _, x := range s.sel().Dirs {
			if x.Name != n {
				keep = append(keep, x)
			}
		}
		s.sel().Dirs = append(keep, d, m.Dir{Name: n, Args: cloneArgs(d.Args)})
		return true
	}},
	{"undefined-variable", "NoUndefinedVariables", func(c *FCtx) bool {
		tv, ok := c.pickValue(func(tv typedValue, td *tsys.Def) bool {
			return !tv.konst && td != nil && !(td.Kind == "scalar" && !td.BuiltIn)
		})
		if !ok {
			return false
		}
		tv.set(val(m.VVar, "undefinedVar"))
		return true
	}},
	{"undefined-variable-in-later-operation", "NoUndefinedVariables", func(c *FCtx) bool {
		// an operation without variable definitions is added after the others; it reaches, through literal-only fields, a
		// fragment that an earlier operation spreads and that uses that operation's variables
		uses := c.fragsUsingVariables()
		for _, oi := range c.R.Perm(len(c.Doc.Defs)) {
			op := c.Doc.Defs[oi]
			if op.IsFragment || len(op.Vars) == 0 {
				continue
			}
			var chain []*m.Sel
			var find func(ss []*m.Sel, anc []*m.Sel) bool
			find = func(ss []*m.Sel, anc []*m.Sel) bool {
				for _, pi := range c.R.Perm(len(ss)) {
					s := ss[pi]
					switch s.Kind {
					case m.SSpread:
						if uses[s.Name] {
							chain = append(append([]*m.Sel{}, anc...), s)
							return true
						}
					default:
						if argsHaveVar(s.Args) {
							continue
						}
						if find(s.Sel, append(anc, s)) {
							return true
						}
					}
				}
				return false
			}
			if !find(op.Sel, nil) {
				continue
			}
			var cur *m.Sel
			for i := len(chain) - 1; i >= 0; i-- {
				s := chain[i]
				cp := &m.Sel{Kind: s.Kind, Alias: s.Alias, Name: s.Name, TypeCond: s.TypeCond, Args: cloneArgs(s.Args)}
				if cur != nil {
					cp.Sel = []*m.Sel{cur}
				}
				cur = cp
			}
			c.nameAll()
			c.Doc.Defs = append(c.Doc.Defs, &m.Def{Op: op.Op, Name: "LaterWithoutVariables", Sel: []*m.Sel{cur}})
			return true
		}
		return false
	}},
	{"unused-variable", "NoUnusedVariables", func(c *FCtx) bool {
		ops := c.ops()
		if len(ops) == 0 {
			return false
		}
		d := ops[c.R.Intn(len(ops))]
		d.Shorthand = false
		d.Vars = append(d.Vars, m.VarDef{Name: "neverUsed", Type: &m.Type{Name: c.R.Pick("Int", "String", "Boolean")}})
		return true
	}},
	{"bad-directive-on-variable-definition", "KnownDirectives", func(c *FCtx) bool {
		// a directive nobody defines, or one that is not for this place, on a variable definition - by preference on one that
		// also has a default value (after seeded change C08-wave10-B: the directives of a definition were only walked when it
		// had no default)
		var with, all []*m.VarDef
		for _, d := range c.ops() {
			for i := range d.Vars {
				all = append(all, &d.Vars[i])
				if d.Vars[i].Default != nil {
					with = append(with, &d.Vars[i])
				}
			}
		}
		if len(with) > 0 && c.R.Chance(3, 4) {
			all = with
		}
		if len(all) == 0 {
			return false
		}
		v := all[c.R.Intn(len(all))]
		if c.R.Bool() {
			v.Dirs = append(v.Dirs, m.Dir{Name: c.R.Pick("nope", "onVariable", "skipp")})
		} else {
			v.Dirs = append(v.Dirs, m.Dir{Name: "skip", Args: []m.Arg{{Name: "if", Value: val(m.VBool, "true")}}})
		}
		return true
	}},
	{"duplicate-variable", "UniqueVariableNames", func(c *FCtx) bool {
		for _, d := range c.ops() {
			if len(d.Vars) > 0 {
				v := d.Vars[c.R.Intn(len(d.Vars))]
				d.Vars = append(d.Vars, m.VarDef{Name: v.Name, Type: cloneType(v.Type), Default: cloneValue(v.Default)})
				return true
			}
		}
		return false
	}},
	{"variable-of-output-type", "VariablesAreInputTypes", func(c *FCtx) bool {
		for _, d := range c.ops() {
			if len(d.Vars) > 0 {
				var outs []string
				for _, n := range c.Mg.TypeNames {
					if t := c.Mg.Types[n]; t.IsComposite() && n[0] != '_' {
						outs = append(outs, n)
					}
				}
				if len(outs) == 0 {
					return false
				}
				v := &d.Vars[c.R.Intn(len(d.Vars))]
				b := v.Type
				for b.Elem != nil {
					b = b.Elem
				}
				b.Name = outs[c.R.Intn(len(outs))]
				v.Default = nil
				return true
			}
		}
		return false
	}},
	{"variable-of-unknown-type", "KnownTypeNames", func(c *FCtx) bool {
		for _, d := range c.ops() {
			if len(d.Vars) > 0 {
				v := &d.Vars[c.R.Intn(len(d.Vars))]
				b := v.Type
				for b.Elem != nil {
					b = b.Elem
				}
				b.Name = "Missing"
				v.Default = nil
				return true
			}
		}
		return false
	}},
	{"variable-wrong-position", "VariablesInAllowedPosition", func(c *FCtx) bool {
		// change the declared type of a variable that is used directly somewhere
		for _, d := range c.ops() {
			if len(d.Vars) == 0 {
				continue
			}
			v := &d.Vars[c.R.Intn(len(d.Vars))]
			switch k := c.R.Intn(3); {
			case k == 0 && v.Type.NonNull:
				v.Type.NonNull = false
				v.Default = nil
			case k == 1:
				if v.Type.Elem != nil {
					v.Type = cloneType(v.Type.Elem)
				} else {
					v.Type = &m.Type{Elem: cloneType(v.Type), NonNull: v.Type.NonNull}
				}
				v.Default = nil
			default:
				b := v.Type
				for b.Elem != nil {
					b = b.Elem
				}
				if b.Name == "Boolean" {
					b.Name = "Int"
				} else {
					b.Name = "Boolean"
				}
				v.Default = nil
			}
			return true
		}
		return false
	}},
	{"variable-inner-nullability", "VariablesInAllowedPosition", func(c *FCtx) bool {
		// loosen the non-null marker of a list level below the top of a variable's declared type
		for _, d := range c.ops() {
			for i := range d.Vars {
				v := &d.Vars[i]
				var levels []*m.Type
				for t := v.Type.Elem; t != nil; t = t.Elem {
					if t.NonNull {
						levels = append(levels, t)
					}
				}
				if len(levels) == 0 {
					continue
				}
				levels[c.R.Intn(len(levels))].NonNull = false
				v.Default = nil
				return true
			}
		}
		return false
	}},
	{"unknown-fragment", "KnownFragmentNames", func(c *FCtx) bool {
		s, ok := c.pick(c.sites(), func(s selSite) bool { return s.parent != nil && s.parent.IsComposite() })
		if !ok {
			return false
		}
		*s.list = append(*s.list, &m.Sel{Kind: m.SSpread, Name: "NoSuchFragment"})
		return true
	}},
	{"unused-fragment", "NoUnusedFragments", func(c *FCtx) bool {
		root := c.Mg.Roots["query"]
		if root == "" {
			return false
		}
		c.Doc.Defs = append(c.Doc.Defs, &m.Def{IsFragment: true, Name: "Unused", TypeCond: root, Sel: []*m.Sel{{Kind: m.SField, Name: "__typename"}}})
		return true
	}},
	{"duplicate-fragment", "UniqueFragmentNames", func(c *FCtx) bool {
		fs := c.frags()
		if len(fs) == 0 {
			return false
		}
		f := fs[c.R.Intn(len(fs))]
		cp := *f
		cp.Sel = cloneSels(f.Sel)
		c.Doc.Defs = append(c.Doc.Defs, &cp)
		return true
	}},
	{"fragment-cycle", "NoFragmentCycles", func(c *FCtx) bool {
		fs := c.frags()
		if len(fs) == 0 {
			return false
		}
		a := fs[c.R.Intn(len(fs))]
		b := fs[c.R.Intn(len(fs))]
		// a spreads b (possibly itself) and b spreads a, at the top of their selection sets when the types allow
		if a.TypeCond != b.TypeCond && a != b {
			b = a
		}
		a.Sel = append(a.Sel, &m.Sel{Kind: m.SSpread, Name: b.Name})
		if a != b {
			b.Sel = append(b.Sel, &m.Sel{Kind: m.SSpread, Name: a.Name})
		}
		return true
	}},
	{"fragment-on-unknown-type", "KnownTypeNames", func(c *FCtx) bool {
		if fs := c.frags(); len(fs) > 0 && c.R.Bool() {
			fs[c.R.Intn(len(fs))].TypeCond = "Missing"
			return true
		}
		s, ok := c.pick(c.sites(), func(s selSite) bool { return s.sel().Kind == m.SInline })
		if !ok {
			return false
		}
		s.sel().TypeCond = "Missing"
		return true
	}},
	{"fragment-on-leaf", "FragmentsOnCompositeTypes", func(c *FCtx) bool {
		leaf := c.R.Pick("Int", "String", "Boolean")
		if c.R.Bool() {
			// any type of the schema that is not composite: custom scalars, enums and INPUT OBJECTS (which have fields, so
			// the selections are rewritten to name some of them: nothing else about the fragment is wrong)
			var names []string
			for _, n := range c.Mg.TypeNames {
				if d := c.Mg.Types[n]; d != nil && (d.Kind == "scalar" || d.Kind == "enum" || d.Kind == "input") {
					names = append(names, n)
				}
			}
			if len(names) > 0 {
				leaf = names[c.R.Intn(len(names))]
			}
		}
		inside := func() []*m.Sel {
			out := []*m.Sel{{Kind: m.SField, Name: "__typename"}}
			if d := c.Mg.Types[leaf]; d != nil && d.Kind == "input" && c.R.Bool() {
				out = nil
				for _, f := range d.Fields {
					if td := c.Mg.Types[f.Type.Base()]; td != nil && (td.Kind == "scalar" || td.Kind == "enum") && (len(out) == 0 || c.R.Bool()) {
						out = append(out, &m.Sel{Kind: m.SField, Name: f.Name})
					}
				}
				if len(out) == 0 {
					out = []*m.Sel{{Kind: m.SField, Name: "__typename"}}
				}
			}
			return out
		}
		if d := c.Mg.Types[leaf]; d != nil && d.Kind == "input" {
			s, ok := c.pick(c.sites(), func(s selSite) bool { return s.sel().Kind == m.SInline })
			if !ok {
				return false
			}
			s.sel().TypeCond = leaf
			s.sel().Sel = inside()
			s.sel().Dirs = nil
			return true
		}
		if fs := c.frags(); len(fs) > 0 && c.R.Bool() {
			fs[c.R.Intn(len(fs))].TypeCond = leaf
			return true
		}
		s, ok := c.pick(c.sites(), func(s selSite) bool { return s.sel().Kind == m.SInline })
		if !ok {
			return false
		}
		s.sel().TypeCond = leaf
		return true
	}},
	{"impossible-spread", "PossibleFragmentSpreads", func(c *FCtx) bool {
		// any composite parent (object, interface, union) and any composite condition whose possible objects do not meet the
		// parent's: that includes interfaces nothing implements (their set is empty, so they fit nowhere)
		s, ok := c.pick(c.sites(), func(s selSite) bool { return s.parent != nil && s.parent.IsComposite() })
		if !ok {
			return false
		}
		mine := map[string]bool{}
		for _, n := range c.Mg.PossibleObjects(s.parent.Name) {
			mine[n] = true
		}
		var other []string
		for _, n := range c.Mg.TypeNames {
			t := c.Mg.Types[n]
			if !t.IsComposite() || n == s.parent.Name || n[0] == '_' {
				continue
			}
			meets := false
			for _, o := range c.Mg.PossibleObjects(n) {
				if mine[o] {
					meets = true
				}
			}
			if !meets {
				other = append(other, n)
			}
		}
		if len(other) == 0 {
			return false
		}
		tc := other[c.R.Intn(len(other))]
		body := []*m.Sel{{Kind: m.SField, Name: "__typename"}}
		if c.R.Chance(1, 3) {
			c.Doc.Defs = append(c.Doc.Defs, &m.Def{IsFragment: true, Name: "Impossible", TypeCond: tc, Sel: body})
			*s.list = append(*s.list, &m.Sel{Kind: m.SSpread, Name: "Impossible"})
			return true
		}
		*s.list = append(*s.list, &m.Sel{Kind: m.SInline, TypeCond: tc, Sel: body})
		return true
	}},
	{"impossible-second-spread", "PossibleFragmentSpreads", func(c *FCtx) bool {
		// a fragment the document already spreads somewhere is spread AGAIN where its type can never apply (the first
		// spread being fine says nothing about the second)
		spread := map[string]bool{}
		for _, st := range c.sites() {
			if st.sel().Kind == m.SSpread {
				spread[st.sel().Name] = true
			}
		}
		for _, fi := range c.R.Perm(len(c.frags())) {
			fr := c.frags()[fi]
			if !spread[fr.Name] {
				continue
			}
			ft := c.Mg.Types[fr.TypeCond]
			if ft == nil {
				continue
			}
			mine := map[string]bool{}
			for _, n := range c.Mg.PossibleTypes(fr.TypeCond) {
				mine[n] = true
			}
			mine[fr.TypeCond] = true
			s, ok := c.pick(c.sites(), func(s selSite) bool {
				if s.parent == nil || !s.parent.IsComposite() || s.def == fr || s.parent.Name == fr.TypeCond {
					return false
				}
				for _, n := range append(c.Mg.PossibleTypes(s.parent.Name), s.parent.Name) {
					if mine[n] {
						return false
					}
				}
				return true
			})
			if !ok {
				continue
			}
			*s.list = append(*s.list, &m.Sel{Kind: m.SSpread, Name: fr.Name})
			return true
		}
		return false
	}},
	{"duplicate-operation-name", "UniqueOperationNames", func(c *FCtx) bool {
		ops := c.ops()
		if len(ops) == 0 || ops[0].Name == "" {
			return false
		}
		root := c.Mg.Roots["query"]
		if root == "" {
			return false
		}
		c.Doc.Defs = append(c.Doc.Defs, &m.Def{Op: "query", Name: ops[0].Name, Sel: []*m.Sel{{Kind: m.SField, Name: "__typename"}}})
		return true
	}},
	{"anonymous-not-alone", "LoneAnonymousOperation", func(c *FCtx) bool {
		if c.Mg.Roots["query"] == "" {
			return false
		}
		c.Doc.Defs = append(c.Doc.Defs, &m.Def{Op: "query", Shorthand: c.R.Bool(), Sel: []*m.Sel{{Kind: m.SField, Name: "__typename"}}})
		if len(c.ops()) < 2 {
			c.Doc.Defs = append(c.Doc.Defs, &m.Def{Op: "query", Name: "Other", Sel: []*m.Sel{{Kind: m.SField, Name: "__typename"}}})
		}
		return true
	}},
	{"subscription-two-root-fields", "SingleFieldSubscriptions", func(c *FCtx) bool {
		rootName := c.Mg.Roots["subscription"]
		root := c.Mg.Types[rootName]
		if root == nil {
			return false
		}
		var f *m.FieldDef
		for _, x := range root.Fields {
			td := c.Mg.Types[x.Type.Base()]
			if td != nil && td.IsLeaf() && !c.g.hasRequiredArgs(x) {
				f = x
			}
		}
		if f == nil {
			return false
		}
		d := &m.Def{Op: "subscription", Name: "TwoFields"}
		switch c.R.Intn(5) {
		case 0: // two aliases of one field
			d.Sel = []*m.Sel{{Kind: m.SField, Alias: "x", Name: f.Name}, {Kind: m.SField, Alias: "y", Name: f.Name}}
		case 1: // second one through an inline fragment
			d.Sel = []*m.Sel{{Kind: m.SField, Name: f.Name}, {Kind: m.SInline, Sel: []*m.Sel{{Kind: m.SField, Alias: "other", Name: f.Name}}}}
		case 2: // through a fragment
			c.Doc.Defs = append(c.Doc.Defs, &m.Def{IsFragment: true, Name: "SubFrag", TypeCond: rootName, Sel: []*m.Sel{{Kind: m.SField, Alias: "viaFragment", Name: f.Name}}})
			d.Sel = []*m.Sel{{Kind: m.SField, Name: f.Name}, {Kind: m.SSpread, Name: "SubFrag"}}
		case 3: // the same fragment spread twice (that alone is one root field), then another field
			c.Doc.Defs = append(c.Doc.Defs, &m.Def{IsFragment: true, Name: "SubFrag", TypeCond: rootName, Sel: []*m.Sel{{Kind: m.SField, Name: f.Name}}})
			d.Sel = []*m.Sel{{Kind: m.SSpread, Name: "SubFrag"}, {Kind: m.SSpread, Name: "SubFrag"}, {Kind: m.SField, Alias: "afterRepeatedSpread", Name: f.Name}}
		default: // a fragment reached twice, once through another fragment, then another field
			c.Doc.Defs = append(c.Doc.Defs,
				&m.Def{IsFragment: true, Name: "SubFrag", TypeCond: rootName, Sel: []*m.Sel{{Kind: m.SField, Name: f.Name}}},
				&m.Def{IsFragment: true, Name: "SubOuter", TypeCond: rootName, Sel: []*m.Sel{{Kind: m.SSpread, Name: "SubFrag"}}})
			d.Sel = []*m.Sel{{Kind: m.SSpread, Name: "SubOuter"}, {Kind: m.SSpread, Name: "SubFrag"}, {Kind: m.SInline, Sel: []*m.Sel{{Kind: m.SField, Alias: "afterRepeatedSpread", Name: f.Name}}}}
		}
		c.nameAll()
		c.Doc.Defs = append(c.Doc.Defs, d)
		return true
	}},
	{"subscription-introspection-root", "SingleFieldSubscriptions", func(c *FCtx) bool {
		if c.Mg.Roots["subscription"] == "" {
			return false
		}
		c.nameAll()
		c.Doc.Defs = append(c.Doc.Defs, &m.Def{Op: "subscription", Name: "Intro", Sel: []*m.Sel{{Kind: m.SField, Name: "__typename"}}})
		return true
	}},
	{"operation-without-root", "KnownRootType", func(c *FCtx) bool {
		for _, op := range []string{"mutation", "subscription"} {
			if c.Mg.Roots[op] == "" {
				c.nameAll()
				c.Doc.Defs = append(c.Doc.Defs, &m.Def{Op: op, Name: "NoRoot", Sel: []*m.Sel{{Kind: m.SField, Name: "__typename"}}})
				return true
			}
		}
		return false
	}},
	{"overlap-different-fields", "OverlappingFieldsCanBeMerged", func(c *FCtx) bool {
		s, ok := c.pick(c.fieldSites(true), func(s selSite) bool {
			return s.parent != nil && (s.parent.Kind == "type" || s.parent.Kind == "interface") && len(s.parent.Fields) >= 2
		})
		if !ok {
			return false
		}
		cur := s.sel()
		for _, f := range s.parent.Fields {
			if f.Name == cur.Name || c.g.hasRequiredArgs(f) {
				continue
			}
			rn := cur.Alias
			if rn == "" {
				rn = cur.Name
			}
			ns := &m.Sel{Kind: m.SField, Alias: rn, Name: f.Name}
			if td := c.Mg.Types[f.Type.Base()]; td != nil && td.IsComposite() {
				ns.Sel = []*m.Sel{{Kind: m.SField, Name: "__typename"}}
			}
			*s.list = append(*s.list, ns)
			return true
		}
		return false
	}},
	{"overlap-different-arguments", "OverlappingFieldsCanBeMerged", func(c *FCtx) bool {
		s, ok := c.pick(c.fieldSites(true), func(s selSite) bool { return s.parent != nil && len(c.fieldDef(s.parent, s.sel().Name).Args) > 0 })
		if !ok {
			return false
		}
		cur := s.sel()
		fd := c.fieldDef(s.parent, cur.Name)
		dup := &m.Sel{Kind: m.SField, Alias: cur.Alias, Name: cur.Name, Args: cloneArgs(cur.Args), Sel: cloneSels(cur.Sel)}
		// change one argument: a scalar, a list item or an object field, or drop/add one
		ad := fd.Args[c.R.Intn(len(fd.Args))]
		var nv *m.Value
		for i := 0; i < 8; i++ {
			nv = tsys.GenValue(c.R, c.g.Lookup, ad.Type, 2, true)
			same := false
			for _, a := range dup.Args {
				if a.Name == ad.Name && a.Value.CanonString() == nv.CanonString() {
					same = true
				}
			}
			if !same {
				break
			}
			nv = nil
		}
		if nv == nil {
			return false
		}
		found := false
		for i := range dup.Args {
			if dup.Args[i].Name == ad.Name {
				if dup.Args[i].Value.Kind == m.VVar {
					return false
				}
				dup.Args[i].Value = nv
				found = true
			}
		}
		if !found {
			dup.Args = append(dup.Args, m.Arg{Name: ad.Name, Value: nv})
		}
		*s.list = append(*s.list, dup)
		return true
	}},
	{"overlap-conflicting-shapes", "OverlappingFieldsCanBeMerged", func(c *FCtx) bool {
		// two different object types under an abstract parent select one response name with different shapes
		s, ok := c.pick(c.sites(), func(s selSite) bool {
			return s.parent != nil && (s.parent.Kind == "interface" || s.parent.Kind == "union") && len(c.Mg.PossibleObjects(s.parent.Name)) >= 2
		})
		if !ok {
			return false
		}
		objs := c.Mg.PossibleObjects(s.parent.Name)
		p := c.R.Perm(len(objs))
		a, b := c.Mg.Types[objs[p[0]]], c.Mg.Types[objs[p[1]]]
		for _, fa := range a.Fields {
			if c.g.hasRequiredArgs(fa) {
				continue
			}
			for _, fb := range b.Fields {
				if c.g.hasRequiredArgs(fb) || fa.Type.String() == fb.Type.String() {
					continue
				}
				ta, tb := c.Mg.Types[fa.Type.Base()], c.Mg.Types[fb.Type.Base()]
				if ta == nil || tb == nil {
					continue
				}
				// shapes must really differ: different leaf, leaf vs composite, or different wrappers
				if ta.IsComposite() && tb.IsComposite() && wrappers(fa.Type) == wrappers(fb.Type) {
					continue
				}
				mk := func(f *m.FieldDef, t *tsys.Def) *m.Sel {
					s := &m.Sel{Kind: m.SField, Alias: "conflict", Name: f.Name}
					if t.IsComposite() {
						s.Sel = []*m.Sel{{Kind: m.SField, Name: "__typename"}}
					}
					return s
				}
				*s.list = append(*s.list,
					&m.Sel{Kind: m.SInline, TypeCond: a.Name, Sel: []*m.Sel{mk(fa, ta)}},
					&m.Sel{Kind: m.SInline, TypeCond: b.Name, Sel: []*m.Sel{mk(fb, tb)}})
				return true
			}
		}
		return false
	}},
	{"introspection-too-deep", "MaxIntrospectionDepth", func(c *FCtx) bool {
		root := c.Mg.Roots["query"]
		if root == "" {
			return false
		}
		f := func(n string, sub ...*m.Sel) *m.Sel { return &m.Sel{Kind: m.SField, Name: n, Sel: sub} }
		deep := f("fields", f("type", f("fields", f("type", f("fields", f("name"))))))
		c.nameAll()
		switch c.R.Intn(7) {
		case 5, 6:
			// one fragment with a single counted list field, spread at depth 0 (harmless) and at depth 2 (one too many), in
			// either order: a memo of "this fragment was fine" must remember the depth it was fine at
			sp := func() *m.Sel { return &m.Sel{Kind: m.SSpread, Name: "OneLevel"} }
			lists := []string{"fields", "interfaces", "possibleTypes", "inputFields"}
			l1, l2, l3 := lists[c.R.Intn(4)], lists[c.R.Intn(2)+1], lists[c.R.Intn(4)]
			var inner *m.Sel
			if l3 == "fields" || l3 == "inputFields" {
				inner = f(l3, f("name"))
			} else {
				inner = f(l3, f("kind"))
			}
			var deepPart *m.Sel
			if l1 == "fields" || l1 == "inputFields" {
				deepPart = f(l1, f("type", f(l2, sp())))
			} else {
				deepPart = f(l1, f(l2, sp()))
			}
			body := []*m.Sel{sp(), deepPart}
			if c.R.Bool() {
				body = []*m.Sel{deepPart, sp()}
			}
			c.Doc.Defs = append(c.Doc.Defs,
				&m.Def{IsFragment: true, Name: "OneLevel", TypeCond: "__Type", Sel: []*m.Sel{f("name"), inner}},
				&m.Def{Op: "query", Name: "Deep", Sel: []*m.Sel{f("__schema", f("types", body...))}})
		case 3, 4:
			// a random chain of three counted list fields with decoy siblings (fields, inline fragments, uncounted links)
			// before and after every link
			body := deepIntrospection(c.R, 3)
			var top *m.Sel
			switch c.R.Intn(4) {
			case 0:
				top = f("__schema", f("types", body...))
			case 1:
				top = f("__schema", f("queryType", body...))
			case 2:
				top = f("__schema", f("directives", f("name"), f("args", f("type", body...))))
			default:
				top = f("__type", body...)
				top.Args = []m.Arg{{Name: "name", Value: val(m.VString, "Query")}}
			}
			c.Doc.Defs = append(c.Doc.Defs, &m.Def{Op: "query", Name: "Deep", Sel: []*m.Sel{top}})
		case 0:
			c.Doc.Defs = append(c.Doc.Defs, &m.Def{Op: "query", Name: "Deep", Sel: []*m.Sel{f("__schema", f("types", deep))}})
		case 1:
			d := &m.Def{Op: "query", Name: "Deep", Sel: []*m.Sel{f("__type", f("interfaces", f("possibleTypes", f("inputFields", f("name")))))}}
			d.Sel[0].Args = []m.Arg{{Name: "name", Value: val(m.VString, "Query")}}
			c.Doc.Defs = append(c.Doc.Defs, d)
		default:
			// through fragments
			c.Doc.Defs = append(c.Doc.Defs,
				&m.Def{IsFragment: true, Name: "TypeDeep", TypeCond: "__Type", Sel: []*m.Sel{f("fields", f("type", &m.Sel{Kind: m.SSpread, Name: "TypeDeep2"}))}},
				&m.Def{IsFragment: true, Name: "TypeDeep2", TypeCond: "__Type", Sel: []*m.Sel{f("interfaces", f("possibleTypes", f("name")))}},
				&m.Def{Op: "query", Name: "Deep", Sel: []*m.Sel{f("__schema", f("types", &m.Sel{Kind: m.SSpread, Name: "TypeDeep"}))}})
		}
		return true
	}},
}

func valueHasVar(v *m.Value) bool {
	if v == nil {
		return false
	}
	if v.Kind == m.VVar {
		return true
	}
	for _, it := range v.Items {
		if valueHasVar(it) {
			return true
		}
	}
	for _, f := range v.Fields {
		if valueHasVar(f.Value) {
			return true
		}
	}
	return false
}

func argsHaveVar(as []m.Arg) bool {
	for _, a := range as {
		if valueHasVar(a.Value) {
			return true
		}
	}
	return false
}

// fragsUsingVariables: the fragments whose own selections (spreads followed) use a variable.
func (c *FCtx) fragsUsingVariables() map[string]bool {
	byName := map[string]*m.Def{}
	for _, d := range c.frags() {
		byName[d.Name] = d
	}
	memo := map[string]bool{}
	var selsUse func(ss []*m.Sel, seen map[string]bool) bool
	selsUse = func(ss []*m.Sel, seen map[string]bool) bool {
		for _, s := range ss {
			if argsHaveVar(s.Args) {
				return true
			}
			for _, d := range s.Dirs {
				if argsHaveVar(d.Args) {
					return true
				}
			}
			if s.Kind == m.SSpread {
				if fd := byName[s.Name]; fd != nil && !seen[s.Name] {
					seen[s.Name] = true
					if selsUse(fd.Sel, seen) {
						return true
					}
				}
				continue
			}
			if selsUse(s.Sel, seen) {
				return true
			}
		}
		return false
	}
	for n, d := range byName {
		memo[n] = selsUse(d.Sel, map[string]bool{n: true})
	}
	return memo
}

// deepIntrospection returns a selection on __Type that contains a chain of `need` counted list fields (fields, interfaces,
// possibleTypes, inputFields), each link surrounded by decoys that do not count and possibly wrapped in inline fragments.
func deepIntrospection(r *core.Rand, need int) []*m.Sel {
	f := func(n string, sub ...*m.Sel) *m.Sel { return &m.Sel{Kind: m.SField, Name: n, Sel: sub} }
	inl := func(tc string, sub ...*m.Sel) *m.Sel { return &m.Sel{Kind: m.SInline, TypeCond: tc, Sel: sub} }
	decoy := func() *m.Sel {
		switch r.Intn(6) {
		case 0:
			return f("name")
		case 1:
			return f("kind")
		case 2:
			return inl("__Type", f("name"))
		case 3:
			return inl("", f("kind"))
		case 4:
			return f("ofType", f("name"))
		}
		return inl("__Type", f("ofType", inl("", f("description"))))
	}
	var chain *m.Sel
	if need == 0 {
		chain = f("name")
	} else {
		rest := deepIntrospection(r, need-1)
		switch r.Intn(5) {
		case 0:
			chain = f("fields", f("name"), f("type", rest...))
		case 1:
			chain = f("interfaces", rest...)
		case 2:
			chain = f("possibleTypes", rest...)
		case 3:
			chain = f("inputFields", inl("__InputValue", f("type", rest...)), f("name"))
		default:
			chain = f("fields", inl("", f("args", f("type", rest...))))
		}
		if r.Chance(1, 4) {
			chain = f("ofType", chain)
		}
	}
	for r.Chance(1, 3) {
		chain = inl(r.Pick("__Type", ""), chain)
	}
	var out []*m.Sel
	for r.Chance(1, 2) {
		out = append(out, decoy())
	}
	out = append(out, chain)
	for r.Chance(1, 2) {
		out = append(out, decoy())
	}
	return out
}

func wrappers(t *m.Type) string {
	s := ""
	for t != nil {
		if t.Elem != nil {
			s += "["
		}
		if t.NonNull {
			s += "!"
		}
		t = t.Elem
	}
	return s
}

// nameAll gives every anonymous operation a name (so that adding an operation does not break LoneAnonymousOperation).
func (c *FCtx) nameAll() {
	for i, d := range c.ops() {
		if d.Name == "" {
			d.Name = "Anon" + string(rune('A'+i))
			d.Shorthand = false
		}
	}
}

// mutateName returns a near miss of a name: one character replaced, dropped or doubled.
func mutateName(r *core.Rand, n string) string {
	if len(n) < 2 {
		return n + "x"
	}
	i := 1 + r.Intn(len(n)-1)
	switch r.Intn(4) {
	case 3:
		// the right letters in the wrong case (equally far from every name that differs from it by case only)
		b := []byte(n)
		flip := func(k int) {
			switch {
			case b[k] >= 'a' && b[k] <= 'z':
				b[k] -= 32
			case b[k] >= 'A' && b[k] <= 'Z':
				b[k] += 32
			}
		}
		switch r.Intn(3) {
		case 0:
			flip(r.Intn(len(b)))
		case 1:
			flip(0)
			flip(len(b) - 1)
		default:
			for k := range b {
				if r.Bool() {
					flip(k)
				}
			}
		}
		if string(b) != n {
			return string(b)
		}
		return n + "x"
	case 0:
		return n[:i] + string("xtz"[r.Intn(3)]) + n[i+1:]
	case 1:
		return n[:i] + n[i+1:]
	}
	return n[:i] + n[i-1:i] + n[i:]
}

func init() {
	// near-miss variants: typos that are equally close to several schema names, which is what makes
	// "did you mean" lists order-sensitive
	Faults = append(Faults,
		Fault{"near-miss-type", "KnownTypeNames", func(c *FCtx) bool {
			var names []string
			for _, n := range c.Mg.TypeNames {
				if t := c.Mg.Types[n]; t.IsComposite() && n[0] != '_' {
					names = append(names, n)
				}
			}
			if len(names) == 0 {
				return false
			}
			typo := mutateName(c.R, names[c.R.Intn(len(names))])
			if c.R.Bool() {
				// a small fixed pool, so that the same unknown name meets many schemas with different close names
				typo = c.R.Pick("Dox", "Dg", "Usr", "Pst", "Cot", "Comnent", "Doo", "Poss")
			}
			// names of the schema that differ by case only: a third spelling of them is equally close to each
			byLower := map[string][]string{}
			for _, n := range names {
				byLower[strings.ToLower(n)] = append(byLower[strings.ToLower(n)], n)
			}
			var twins []string
			for _, n := range names {
				if len(byLower[strings.ToLower(n)]) > 1 {
					twins = append(twins, n)
				}
			}
			if len(twins) > 0 && c.R.Bool() {
				base := []byte(twins[c.R.Intn(len(twins))])
				for try := 0; try < 8; try++ {
					b := append([]byte{}, base...)
					for k := range b {
						if c.R.Bool() {
							if b[k] >= 'a' && b[k] <= 'z' {
								b[k] -= 32
							} else if b[k] >= 'A' && b[k] <= 'Z' {
								b[k] += 32
							}
						}
					}
					if c.Mg.Types[string(b)] == nil {
						typo = string(b)
						break
					}
				}
			}
			if c.Mg.Types[typo] != nil {
				return false
			}
			if fs := c.frags(); len(fs) > 0 && c.R.Bool() {
				fs[c.R.Intn(len(fs))].TypeCond = typo
				return true
			}
			s, ok := c.pick(c.sites(), func(s selSite) bool { return s.parent != nil && s.parent.IsComposite() })
			if !ok {
				return false
			}
			*s.list = append(*s.list, &m.Sel{Kind: m.SInline, TypeCond: typo, Sel: []*m.Sel{{Kind: m.SField, Name: "__typename"}}})
			return true
		}},
		Fault{"near-miss-field", "FieldsOnCorrectType", func(c *FCtx) bool {
			s, ok := c.pick(c.fieldSites(true), func(s selSite) bool { return s.parent != nil && s.parent.Kind != "union" })
			if !ok {
				return false
			}
			typo := mutateName(c.R, s.sel().Name)
			if c.fieldDef(s.parent, typo) != nil {
				return false
			}
			s.sel().Name = typo
			s.sel().Args = nil
			s.sel().Sel = nil
			return true
		}},
		Fault{"near-miss-field-of-possible-type", "FieldsOnCorrectType", func(c *FCtx) bool {
			// a field that the abstract parent does not define but several of its possible types (and their interfaces) do:
			// the message suggests inline fragments on those types, ordered by how many possible types each covers
			s, ok := c.pick(c.sites(), func(s selSite) bool {
				return s.parent != nil && (s.parent.Kind == "union" || s.parent.Kind == "interface")
			})
			if !ok {
				return false
			}
			count := map[string]int{}
			for _, on := range c.Mg.PossibleObjects(s.parent.Name) {
				for _, f := range c.Mg.Types[on].Fields {
					if s.parent.Field(f.Name) == nil {
						count[f.Name]++
					}
				}
			}
			var names []string
			for n, k := range count {
				if k >= 2 {
					names = append(names, n)
				}
			}
			if len(names) == 0 {
				for n := range count {
					names = append(names, n)
				}
			}
			if len(names) == 0 {
				return false
			}
			sortStrings(names)
			*s.list = append(*s.list, &m.Sel{Kind: m.SField, Alias: "fromPossibleType", Name: names[c.R.Intn(len(names))]})
			return true
		}},
		Fault{"near-miss-argument", "KnownArgumentNames", func(c *FCtx) bool {
			s, ok := c.pick(c.fieldSites(true), func(s selSite) bool { return len(c.fieldDef(s.parent, s.sel().Name).Args) > 0 })
			if !ok {
				return false
			}
			fd := c.fieldDef(s.parent, s.sel().Name)
			typo := mutateName(c.R, fd.Args[c.R.Intn(len(fd.Args))].Name)
			for _, a := range fd.Args {
				if a.Name == typo {
					return false
				}
			}
			s.sel().Args = append(s.sel().Args, m.Arg{Name: typo, Value: val(m.VNull, "null")})
			return true
		}},
		Fault{"near-miss-enum-value", "ValuesOfCorrectType", func(c *FCtx) bool {
			tv, ok := c.pickValue(func(tv typedValue, td *tsys.Def) bool {
				return td != nil && td.Kind == "enum" && namedLeaf(tv) && len(td.Values) > 0
			})
			if !ok {
				return false
			}
			td := c.Mg.Types[tv.typ.Base()]
			typo := mutateName(c.R, td.Values[c.R.Intn(len(td.Values))].Name)
			for _, v := range td.Values {
				if v.Name == typo {
					return false
				}
			}
			if typo == "true" || typo == "false" || typo == "null" {
				return false
			}
			if c.R.Bool() {
				tv.set(val(m.VString, typo))
			} else {
				tv.set(val(m.VEnum, typo))
			}
			return true
		}},
		Fault{"near-miss-input-field", "ValuesOfCorrectType", func(c *FCtx) bool {
			tv, ok := c.pickValue(func(tv typedValue, td *tsys.Def) bool {
				return td != nil && td.Kind == "input" && tv.val.Kind == m.VObject && len(td.Fields) > 0
			})
			if !ok {
				return false
			}
			td := c.Mg.Types[tv.typ.Base()]
			typo := mutateName(c.R, td.Fields[c.R.Intn(len(td.Fields))].Name)
			if td.Field(typo) != nil {
				return false
			}
			tv.val.Fields = append(tv.val.Fields, m.ObjField{Name: typo, Value: val(m.VNull, "null")})
			return true
		}},
		Fault{"near-miss-variable-type", "KnownTypeNames", func(c *FCtx) bool {
			for _, d := range c.ops() {
				if len(d.Vars) > 0 {
					v := &d.Vars[c.R.Intn(len(d.Vars))]
					b := v.Type
					for b.Elem != nil {
						b = b.Elem
					}
					typo := mutateName(c.R, b.Name)
					if c.Mg.Types[typo] != nil {
						return false
					}
					b.Name = typo
					v.Default = nil
					return true
				}
			}
			return false
		}},
	)
}

func sortStrings(l []string) {
	for i := 1; i < len(l); i++ {
		for j := i; j > 0 && l[j] < l[j-1]; j-- {
			l[j], l[j-1] = l[j-1], l[j]
		}
	}
}
