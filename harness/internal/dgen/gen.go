// Package dgen generates executable documents that are valid by construction against a merged
// type system, and injects single faults into them.
package dgen

import (
	"fmt"
	"sort"
	"strings"

	"verif/harness/internal/core"
	m "verif/harness/internal/model"
	"verif/harness/internal/tsys"
)

type Opts struct {
	MaxDepth     int
	MaxOps       int
	NoVariables  bool
	NoDirectives bool
	Introspect   bool
	DeepValues   bool // nest lists and input objects deeper
}

type fragInfo struct {
	def   *m.Def
	needs map[string]bool // names of pool variables used (transitively)
}

type poolVar struct {
	name        string
	typ         *m.Type
	def         *m.Value
	defOptional bool // the default may be dropped or changed without invalidating a use
}

// scope tracks response names of one merged selection level.
type scope struct {
	used map[string]*m.Sel
	subs map[*m.Sel]*scope
}

func newScope() *scope { return &scope{used: map[string]*m.Sel{}, subs: map[*m.Sel]*scope{}} }

type G struct {
	r     *core.Rand
	mg    *tsys.Merged
	o     *Opts
	items map[string]*m.Item

	frags    []*fragInfo
	pool     map[string]*poolVar // variables shared through fragments
	nVar     int
	nFrag    int
	nAlias   int
	curNeeds map[string]bool // needs of the definition being generated
	curLocal map[string]*poolVar
	inFrag   bool

	strictVars    bool
	noSkipInclude bool
}

// ItemOf presents a merged type as a model item (for value generation).
func ItemOf(d *tsys.Def) *m.Item {
	if d == nil {
		return nil
	}
	return &m.Item{Kind: d.Kind, Name: d.Name, Fields: d.Fields, Values: d.Values, Members: d.Members, Dirs: d.Dirs, Interfaces: d.Interfaces}
}

func New(r *core.Rand, mg *tsys.Merged, o *Opts) *G {
	if o.MaxDepth == 0 {
		o.MaxDepth = 3
	}
	if o.MaxOps == 0 {
		o.MaxOps = 2
	}
	return &G{r: r, mg: mg, o: o, items: map[string]*m.Item{}, pool: map[string]*poolVar{}}
}

func (g *G) Lookup(name string) *m.Item {
	switch name {
	case "Int", "Float", "String", "Boolean", "ID":
		return nil
	}
	if it, ok := g.items[name]; ok {
		return it
	}
	it := ItemOf(g.mg.Types[name])
	g.items[name] = it
	return it
}

// Doc generates a valid document.
func (g *G) Doc() *m.Doc {
	doc := &m.Doc{}
	var kinds []string
	for _, op := range []string{"query", "mutation", "subscription"} {
		if n := g.mg.Roots[op]; n != "" && g.mg.Types[n] != nil && g.mg.Types[n].Kind == "type" {
			kinds = append(kinds, op)
		}
	}
	if len(kinds) == 0 {
		return doc
	}
	nops := 1 + g.r.Intn(g.o.MaxOps)
	var ops []*m.Def
	for i := 0; i < nops; i++ {
		op := kinds[g.r.Intn(len(kinds))]
		if i == 0 && g.r.Chance(2, 3) {
			op = kinds[0]
		}
		d := &m.Def{Op: op}
		if nops > 1 || g.r.Chance(2, 3) {
			d.Name = fmt.Sprintf("Op%d", i)
		}
		g.curNeeds = map[string]bool{}
		g.curLocal = map[string]*poolVar{}
		g.inFrag = false
		root := g.mg.Types[g.mg.Roots[op]]
		sc := newScope()
		if op == "subscription" {
			d.Sel = g.subscriptionRoot(root, sc)
		} else {
			d.Sel = g.selection(root, g.o.MaxDepth, sc, true)
		}
		if !g.o.NoDirectives {
			d.Dirs = g.directives(strings.ToUpper(op))
		}
		// declare variables: locals plus the needs of every reachable fragment
		var names []string
		for n := range g.curNeeds {
			names = append(names, n)
		}
		sort.Strings(names)
		for _, n := range names {
			pv := g.pool[n]
			def := pv.def
			if pv.defOptional && nops > 1 && g.r.Chance(1, 2) {
				// operations sharing a fragment declare its variables independently: one may give a default the other lacks
				def = nil
				if g.r.Bool() {
					def = tsys.GenValue(g.r, g.Lookup, pv.typ, 2, true)
				}
			}
			d.Vars = append(d.Vars, m.VarDef{Name: pv.name, Type: pv.typ, Default: def})
		}
		names = names[:0]
		for n := range g.curLocal {
			names = append(names, n)
		}
		sort.Strings(names)
		for _, n := range names {
			pv := g.curLocal[n]
			vd := m.VarDef{Name: pv.name, Type: pv.typ, Default: pv.def}
			if !g.o.NoDirectives && g.r.Chance(1, 6) {
				vd.Dirs = g.constDirectives("VARIABLE_DEFINITION")
			}
			d.Vars = append(d.Vars, vd)
		}
		if d.Name == "" && len(d.Vars) == 0 && len(d.Dirs) == 0 && op == "query" && g.r.Bool() {
			d.Shorthand = true
		}
		ops = append(ops, d)
	}
	// interleave operations and fragments
	doc.Defs = append(doc.Defs, ops...)
	for _, f := range g.frags {
		pos := g.r.Intn(len(doc.Defs) + 1)
		doc.Defs = append(doc.Defs[:pos], append([]*m.Def{f.def}, doc.Defs[pos:]...)...)
	}
	return doc
}

// ---------------------------------------------------------------- selections

func (g *G) alias(prefix string) string {
	g.nAlias++
	return fmt.Sprintf("%s%d", prefix, g.nAlias)
}

// leafLike reports whether the named type of t is a scalar or enum.
func (g *G) typeDef(t *m.Type) *tsys.Def { return g.mg.Types[t.Base()] }

func (g *G) outFields(parent *tsys.Def) []*m.FieldDef {
	var fs []*m.FieldDef
	if parent.Kind == "type" || parent.Kind == "interface" {
		fs = append(fs, parent.Fields...)
	}
	return fs
}

// addField appends a field selection to out, keeping the scope mergeable.
func (g *G) addField(parent *tsys.Def, fd *m.FieldDef, depth int, sc *scope, out *[]*m.Sel) {
	s := &m.Sel{Kind: m.SField, Name: fd.Name}
	rn := fd.Name
	if g.inFrag || g.r.Chance(1, 4) {
		// inside fragments every response name is unique to the fragment (prefix), so that spreading it
		// anywhere cannot collide with unrelated fields
		s.Alias = g.alias("a")
		rn = s.Alias
	}
	if !g.inFrag && g.r.Chance(1, 6) {
		// an alias that is the NAME of another field of the same parent (response names and field names live in
		// different spaces: `{ name: id }` selects id)
		if sib := g.outFields(parent); len(sib) > 1 {
			o := sib[g.r.Intn(len(sib))]
			if _, taken := sc.used[o.Name]; o.Name != fd.Name && !taken {
				s.Alias = o.Name
				rn = s.Alias
			}
		}
	}
	if prev, clash := sc.used[rn]; clash {
		// deliberate mergeable overlap: the same field with the same arguments; sub-selections share a scope
		if prev.Name != fd.Name {
			s.Alias = g.alias("a")
			rn = s.Alias
		} else {
			dup := &m.Sel{Kind: m.SField, Name: prev.Name, Alias: prev.Alias, Args: prev.Args}
			td := g.typeDef(fd.Type)
			if td != nil && td.IsComposite() {
				dup.Sel = g.selection(td, depth-1, sc.subs[prev], true)
			}
			*out = append(*out, dup)
			return
		}
	}
	s.Args = g.arguments(fd.Args)
	if !g.o.NoDirectives {
		s.Dirs = g.directives("FIELD")
	}
	sub := newScope()
	sc.used[rn] = s
	sc.subs[s] = sub
	td := g.typeDef(fd.Type)
	if td != nil && td.IsComposite() {
		s.Sel = g.selection(td, depth-1, sub, true)
	}
	*out = append(*out, s)
}

// selection generates a non-empty selection set on a composite type.
func (g *G) selection(parent *tsys.Def, depth int, sc *scope, required bool) []*m.Sel {
	r := g.r
	var out []*m.Sel
	typename := func() {
		s := &m.Sel{Kind: m.SField, Name: "__typename"}
		if prev, ok := sc.used["__typename"]; ok && prev.Name != "__typename" {
			s.Alias = g.alias("t")
		} else if g.inFrag && r.Bool() {
			s.Alias = g.alias("t")
		}
		rn := s.Alias
		if rn == "" {
			rn = "__typename"
		}
		if _, ok := sc.used[rn]; !ok {
			sc.used[rn] = s
			sc.subs[s] = newScope()
		}
		out = append(out, s)
	}
	fields := g.outFields(parent)
	// at the depth limit only leaf fields are selectable
	var leafs, comps []*m.FieldDef
	for _, f := range fields {
		if td := g.typeDef(f.Type); td != nil && td.IsLeaf() {
			leafs = append(leafs, f)
		} else if td != nil {
			comps = append(comps, f)
		}
	}
	n := 1 + r.Intn(4)
	for i := 0; i < n; i++ {
		k := r.Intn(10)
		switch {
		case k < 5 && len(leafs) > 0:
			g.addField(parent, leafs[r.Intn(len(leafs))], depth, sc, &out)
		case k < 7 && len(comps) > 0 && depth > 0:
			g.addField(parent, comps[r.Intn(len(comps))], depth, sc, &out)
		case k == 7:
			typename()
		case k == 8 && depth > 0:
			g.inlineFragment(parent, depth, sc, &out)
		case k == 9 && depth > 0:
			g.spread(parent, depth, sc, &out)
		}
	}
	if g.o.Introspect && parent == g.mg.Types[g.mg.Roots["query"]] && r.Chance(1, 3) && !g.inFrag {
		out = append(out, g.introspection(sc)...)
	}
	if len(out) == 0 {
		if len(leafs) > 0 && r.Chance(2, 3) {
			g.addField(parent, leafs[r.Intn(len(leafs))], depth, sc, &out)
		} else {
			typename()
		}
	}
	// exclusive-parent overlap: two object types, two different leaf fields of the same type, one response name
	if depth > 0 && parent.IsComposite() && parent.Kind != "type" && r.Chance(1, 4) {
		g.exclusiveOverlap(parent, sc, &out)
	}
	return out
}

func (g *G) exclusiveOverlap(parent *tsys.Def, sc *scope, out *[]*m.Sel) {
	objs := g.mg.PossibleObjects(parent.Name)
	if len(objs) < 2 {
		return
	}
	p := g.r.Perm(len(objs))
	a, b := g.mg.Types[objs[p[0]]], g.mg.Types[objs[p[1]]]
	for _, fa := range a.Fields {
		ta := g.typeDef(fa.Type)
		if ta == nil || !ta.IsLeaf() || g.hasRequiredArgs(fa) {
			continue
		}
		for _, fb := range b.Fields {
			if fb.Type.String() != fa.Type.String() || g.hasRequiredArgs(fb) {
				continue
			}
			rn := g.alias("x")
			*out = append(*out,
				&m.Sel{Kind: m.SInline, TypeCond: a.Name, Sel: []*m.Sel{{Kind: m.SField, Alias: rn, Name: fa.Name}}},
				&m.Sel{Kind: m.SInline, TypeCond: b.Name, Sel: []*m.Sel{{Kind: m.SField, Alias: rn, Name: fb.Name}}})
			return
		}
	}
}

func (g *G) hasRequiredArgs(f *m.FieldDef) bool {
	for _, a := range f.Args {
		if a.Type.NonNull && a.Default == nil {
			return true
		}
	}
	return false
}

// overlapping returns type names whose possible objects intersect those of parent.
func (g *G) overlappingTypes(parent *tsys.Def) []string {
	po := map[string]bool{}
	for _, o := range g.mg.PossibleObjects(parent.Name) {
		po[o] = true
	}
	var out []string
	for _, n := range g.mg.TypeNames {
		t := g.mg.Types[n]
		if !t.IsComposite() || strings.HasPrefix(n, "__") {
			continue
		}
		for _, o := range g.mg.PossibleObjects(n) {
			if po[o] {
				out = append(out, n)
				break
			}
		}
	}
	return out
}

func (g *G) inlineFragment(parent *tsys.Def, depth int, sc *scope, out *[]*m.Sel) {
	s := &m.Sel{Kind: m.SInline}
	next := parent
	if g.r.Chance(3, 4) {
		cands := g.overlappingTypes(parent)
		if len(cands) > 0 {
			s.TypeCond = cands[g.r.Intn(len(cands))]
			next = g.mg.Types[s.TypeCond]
		}
	}
	if !g.o.NoDirectives {
		s.Dirs = g.directives("INLINE_FRAGMENT")
	}
	// fields inside join the enclosing scope: when the type changes, keep their names private
	if next != parent {
		save := g.inFrag
		g.inFrag = true
		s.Sel = g.selection(next, depth-1, sc, true)
		g.inFrag = save
	} else {
		s.Sel = g.selection(next, depth-1, sc, true)
	}
	*out = append(*out, s)
}

func (g *G) spread(parent *tsys.Def, depth int, sc *scope, out *[]*m.Sel) {
	cands := g.overlappingTypes(parent)
	if len(cands) == 0 {
		return
	}
	ok := map[string]bool{}
	for _, c := range cands {
		ok[c] = true
	}
	var fi *fragInfo
	var reusable []*fragInfo
	for _, f := range g.frags {
		if ok[f.def.TypeCond] {
			reusable = append(reusable, f)
		}
	}
	if len(reusable) > 0 && g.r.Chance(1, 2) {
		fi = reusable[g.r.Intn(len(reusable))]
	} else {
		fi = g.newFragment(g.mg.Types[cands[g.r.Intn(len(cands))]], depth-1)
	}
	s := &m.Sel{Kind: m.SSpread, Name: fi.def.Name}
	if !g.o.NoDirectives {
		s.Dirs = g.directives("FRAGMENT_SPREAD")
	}
	for n := range fi.needs {
		g.curNeeds[n] = true
	}
	*out = append(*out, s)
}

func (g *G) newFragment(on *tsys.Def, depth int) *fragInfo {
	g.nFrag++
	fi := &fragInfo{def: &m.Def{IsFragment: true, Name: fmt.Sprintf("F%d", g.nFrag), TypeCond: on.Name}, needs: map[string]bool{}}
	saveNeeds, saveLocal, saveIn := g.curNeeds, g.curLocal, g.inFrag
	g.curNeeds, g.curLocal, g.inFrag = fi.needs, nil, true
	fi.def.Sel = g.selection(on, depth, newScope(), true)
	if !g.o.NoDirectives {
		fi.def.Dirs = g.directives("FRAGMENT_DEFINITION")
	}
	g.curNeeds, g.curLocal, g.inFrag = saveNeeds, saveLocal, saveIn
	g.frags = append(g.frags, fi)
	return fi
}

func (g *G) subscriptionRoot(root *tsys.Def, sc *scope) []*m.Sel {
	var cands []*m.FieldDef
	cands = append(cands, root.Fields...)
	if len(cands) == 0 {
		return []*m.Sel{{Kind: m.SField, Name: "__typename"}}
	}
	var out []*m.Sel
	// no @skip/@include at the subscription root (the specification is silent on them here)
	g.noSkipInclude = true
	g.addField(root, cands[g.r.Intn(len(cands))], g.o.MaxDepth, sc, &out)
	g.noSkipInclude = false
	switch g.r.Intn(4) {
	case 0:
		return []*m.Sel{{Kind: m.SInline, Sel: out}}
	case 1:
		return []*m.Sel{{Kind: m.SInline, TypeCond: root.Name, Sel: out}}
	}
	return out
}

func (g *G) introspection(sc *scope) []*m.Sel {
	f := func(n string, sub ...*m.Sel) *m.Sel { return &m.Sel{Kind: m.SField, Name: n, Sel: sub} }
	name := f("name")
	var out []*m.Sel
	if _, used := sc.used["__schema"]; !used && g.r.Bool() {
		s := f("__schema", f("queryType", name), f("types", f("kind"), f("name"), f("fields", f("name"), f("type", f("name"), f("ofType", f("name"), f("interfaces", f("name")))))), f("directives", f("name"), f("locations")))
		sc.used["__schema"] = s
		sc.subs[s] = newScope()
		out = append(out, s)
	}
	if _, used := sc.used["__type"]; !used && g.r.Bool() {
		tn := "Query"
		if len(g.mg.TypeNames) > 0 {
			tn = g.mg.TypeNames[g.r.Intn(len(g.mg.TypeNames))]
		}
		s := f("__type", f("name"), f("kind"), f("possibleTypes", f("name"), f("fields", f("name"))), f("enumValues", f("name")))
		if g.r.Bool() {
			// the same through fragments on __Type (spread twice: once directly, once nested)
			g.nFrag++
			inner := &fragInfo{def: &m.Def{IsFragment: true, Name: fmt.Sprintf("F%d", g.nFrag), TypeCond: "__Type", Sel: []*m.Sel{f("name"), f("fields", f("name"))}}, needs: map[string]bool{}}
			g.nFrag++
			outer := &fragInfo{def: &m.Def{IsFragment: true, Name: fmt.Sprintf("F%d", g.nFrag), TypeCond: "__Type", Sel: []*m.Sel{f("kind"), f("possibleTypes", &m.Sel{Kind: m.SSpread, Name: inner.def.Name}), {Kind: m.SSpread, Name: inner.def.Name}}}, needs: map[string]bool{}}
			g.frags = append(g.frags, inner, outer)
			s = f("__type", &m.Sel{Kind: m.SSpread, Name: outer.def.Name}, f("name"))
		}
		s.Args = []m.Arg{{Name: "name", Value: &m.Value{Kind: m.VString, Raw: tn}}}
		sc.used["__type"] = s
		sc.subs[s] = newScope()
		out = append(out, s)
	}
	return out
}

// ---------------------------------------------------------------- arguments, values, variables

func (g *G) arguments(defs []*m.ArgDef) []m.Arg {
	var out []m.Arg
	for _, ad := range defs {
		required := ad.Type.NonNull && ad.Default == nil
		if !required && !g.r.Chance(1, 2) {
			continue
		}
		out = append(out, m.Arg{Name: ad.Name, Value: g.value(ad.Type, ad.Default != nil, 2)})
	}
	// argument order is free
	if len(out) > 1 && g.r.Bool() {
		out[0], out[len(out)-1] = out[len(out)-1], out[0]
	}
	return out
}

func cloneType(t *m.Type) *m.Type {
	if t == nil {
		return nil
	}
	c := *t
	c.Elem = cloneType(t.Elem)
	return &c
}

// value generates a literal, a variable, or a literal containing variables, valid at a position of type t.
func (g *G) value(t *m.Type, locDefault bool, depth int) *m.Value {
	r := g.r
	td := g.mg.Types[t.Base()]
	customScalar := td != nil && td.Kind == "scalar" && !td.BuiltIn
	if !g.o.NoVariables && r.Chance(1, 4) && !customScalar {
		return g.variable(t, locDefault)
	}
	if !g.o.NoVariables && customScalar && t.Elem == nil && r.Chance(1, 3) {
		// any literal is fine for a custom scalar, including ones that hold variables of any type
		inner := g.variable(&m.Type{Name: r.Pick("Int", "String", "Boolean")}, false)
		switch r.Intn(3) {
		case 0:
			return &m.Value{Kind: m.VObject, Fields: []m.ObjField{{Name: "k", Value: inner}, {Name: "c", Value: &m.Value{Kind: m.VInt, Raw: "1"}}}}
		case 1:
			return &m.Value{Kind: m.VList, Items: []*m.Value{{Kind: m.VString, Raw: "a"}, inner}}
		}
		return &m.Value{Kind: m.VObject, Fields: []m.ObjField{{Name: "deep", Value: &m.Value{Kind: m.VList, Items: []*m.Value{{Kind: m.VObject, Fields: []m.ObjField{{Name: "v", Value: inner}}}}}}}}
	}
	if g.o.NoVariables || !r.Chance(1, 3) {
		d := 2
		if g.o.DeepValues {
			d = 3
		}
		return tsys.GenValue(r, g.Lookup, t, d, true)
	}
	// structured literal with variables inside
	if t.Elem != nil && depth > 0 {
		v := &m.Value{Kind: m.VList}
		n := 1 + r.Intn(2)
		for i := 0; i < n; i++ {
			v.Items = append(v.Items, g.value(t.Elem, false, depth-1))
		}
		return v
	}
	if td != nil && td.Kind == "input" && depth > 0 {
		v := &m.Value{Kind: m.VObject}
		if td.HasDir("oneOf") {
			f := td.Fields[r.Intn(len(td.Fields))]
			nn := cloneType(f.Type)
			nn.NonNull = true
			save := g.strictVars
			g.strictVars = true // a variable used for a @oneOf member must itself be non-null
			v.Fields = append(v.Fields, m.ObjField{Name: f.Name, Value: g.value(nn, false, depth-1)})
			g.strictVars = save
			return v
		}
		for _, f := range td.Fields {
			required := f.Type.NonNull && f.Default == nil
			if required || r.Bool() {
				v.Fields = append(v.Fields, m.ObjField{Name: f.Name, Value: g.value(f.Type, f.Default != nil, depth-1)})
			}
		}
		return v
	}
	return tsys.GenValue(r, g.Lookup, t, 2, true)
}

// variable returns a use of a (new or existing) variable that is allowed at a position of type t.
func (g *G) variable(t *m.Type, locDefault bool) *m.Value {
	r := g.r
	vars := g.curLocal
	if g.inFrag || vars == nil {
		vars = nil
	}
	// reuse a variable of the identical type
	if g.strictVars {
		// no reuse: an existing variable of the same type may be nullable-with-default
	} else if g.inFrag || g.curLocal == nil {
		for _, n := range sortedVarNames(g.pool) {
			if pv := g.pool[n]; pv.typ.String() == t.String() && r.Chance(1, 2) {
				g.curNeeds[n] = true
				return &m.Value{Kind: m.VVar, Raw: n}
			}
		}
	} else {
		for _, n := range sortedVarNames(g.curLocal) {
			if pv := g.curLocal[n]; pv.typ.String() == t.String() && r.Chance(1, 2) {
				return &m.Value{Kind: m.VVar, Raw: n}
			}
		}
	}
	g.nVar++
	pv := &poolVar{typ: cloneType(t)}
	k0 := r.Intn(5)
	if g.strictVars {
		k0 = 4
	}
	switch k := k0; {
	case k == 0 && !t.NonNull:
		pv.typ.NonNull = true // stricter than needed
	case k == 1 && t.NonNull:
		// nullable variable for a non-null position: needs a non-null variable default
		pv.typ.NonNull = false
		nn := cloneType(t)
		pv.def = tsys.GenValue(r, g.Lookup, nn, 2, false)
		if pv.def.Kind == m.VNull {
			pv.typ.NonNull = true
			pv.def = nil
		}
	case k == 2 && t.NonNull && locDefault:
		pv.typ.NonNull = false // allowed because the location has a default
	case k == 3:
		if !pv.typ.NonNull {
			pv.def = tsys.GenValue(r, g.Lookup, pv.typ, 2, true)
			pv.defOptional = true // no use depends on it
		}
	}
	if g.inFrag || g.curLocal == nil {
		pv.name = fmt.Sprintf("fv%d", g.nVar)
		g.pool[pv.name] = pv
		g.curNeeds[pv.name] = true
	} else {
		pv.name = fmt.Sprintf("v%d", g.nVar)
		g.curLocal[pv.name] = pv
	}
	_ = vars
	return &m.Value{Kind: m.VVar, Raw: pv.name}
}

// ---------------------------------------------------------------- directives

func (g *G) dirCandidates(loc string) []*m.Item {
	var out []*m.Item
	var names []string
	for n := range g.mg.Directives {
		names = append(names, n)
	}
	sort.Strings(names)
	for _, n := range names {
		d := g.mg.Directives[n]
		for _, l := range d.Locations {
			if l == loc {
				out = append(out, d)
				break
			}
		}
	}
	return out
}

func (g *G) directivesWith(loc string, constOnly bool) []m.Dir {
	var out []m.Dir
	cands := g.dirCandidates(loc)
	if len(cands) == 0 {
		return nil
	}
	seen := map[string]bool{}
	for g.r.Chance(1, 5) && len(out) < 3 {
		def := cands[g.r.Intn(len(cands))]
		if seen[def.Name] && !def.Repeatable {
			continue
		}
		if g.noSkipInclude && (def.Name == "skip" || def.Name == "include") {
			continue
		}
		seen[def.Name] = true
		d := m.Dir{Name: def.Name}
		for _, a := range def.Args {
			required := a.Type.NonNull && a.Default == nil
			if required || g.r.Bool() {
				var v *m.Value
				if constOnly {
					v = tsys.GenValue(g.r, g.Lookup, a.Type, 2, true)
				} else {
					v = g.value(a.Type, a.Default != nil, 1)
				}
				d.Args = append(d.Args, m.Arg{Name: a.Name, Value: v})
			}
		}
		out = append(out, d)
	}
	return out
}

func (g *G) directives(loc string) []m.Dir      { return g.directivesWith(loc, false) }
func (g *G) constDirectives(loc string) []m.Dir { return g.directivesWith(loc, true) }

// ---------------------------------------------------------------- collision documents

// CollisionDoc generates a document (valid or not — the reference validator decides) that maximises
// response-name collisions: two aliases, fragments spread several times in exclusive and
// non-exclusive contexts, the same fields reached through different parents. It targets the
// field-merging rule and its caches.
func CollisionDoc(r *core.Rand, mg *tsys.Merged) *m.Doc { return collisionDoc(r, mg, false) }

// CyclicCollisionDoc is CollisionDoc with spreads allowed to go to ANY fragment, itself included (1-3 fragments): the
// documents are invalid (fragment cycles) and full of overlapping response names inside the cycles, which is where a
// rule that follows spreads must neither loop nor depend on what was visited first.
func CyclicCollisionDoc(r *core.Rand, mg *tsys.Merged) *m.Doc { return collisionDoc(r, mg, true) }

func collisionDoc(r *core.Rand, mg *tsys.Merged, cyclic bool) *m.Doc {
	g := New(r, mg, &Opts{NoVariables: true, NoDirectives: true})
	rootName := mg.Roots["query"]
	root := mg.Types[rootName]
	if root == nil {
		return &m.Doc{}
	}
	var comps []string
	for _, n := range mg.TypeNames {
		if t := mg.Types[n]; t.IsComposite() && !strings.HasPrefix(n, "__") {
			comps = append(comps, n)
		}
	}
	nf := 2 + r.Intn(3)
	if cyclic {
		nf = 1 + r.Intn(3)
	}
	frs := make([]*m.Def, nf)
	for i := range frs {
		frs[i] = &m.Def{IsFragment: true, Name: fmt.Sprintf("C%d", i), TypeCond: comps[r.Intn(len(comps))]}
	}
	var sel func(t *tsys.Def, depth, minFrag int) []*m.Sel
	sel = func(t *tsys.Def, depth, minFrag int) []*m.Sel {
		var out []*m.Sel
		n := 1 + r.Intn(3)
		for i := 0; i < n; i++ {
			switch k := r.Intn(6); {
			case k < 3 && (t.Kind == "type" || t.Kind == "interface") && len(t.Fields) > 0:
				f := t.Fields[r.Intn(len(t.Fields))]
				s := &m.Sel{Kind: m.SField, Name: f.Name}
				if r.Chance(3, 4) {
					s.Alias = r.Pick("x", "y")
				}
				for _, a := range f.Args {
					if (a.Type.NonNull && a.Default == nil) || r.Chance(1, 3) {
						s.Args = append(s.Args, m.Arg{Name: a.Name, Value: tsys.GenValue(r, g.Lookup, a.Type, 1, true)})
					}
				}
				if td := mg.Types[f.Type.Base()]; td != nil && td.IsComposite() {
					if depth > 0 {
						s.Sel = sel(td, depth-1, minFrag)
					} else {
						s.Sel = []*m.Sel{{Kind: m.SField, Name: "__typename", Alias: r.Pick("", "x")}}
					}
				}
				out = append(out, s)
			case k < 4 && depth > 0:
				cands := g.overlappingTypes(t)
				if len(cands) > 0 {
					tc := cands[r.Intn(len(cands))]
					out = append(out, &m.Sel{Kind: m.SInline, TypeCond: tc, Sel: sel(mg.Types[tc], depth-1, minFrag)})
				}
			case k < 6:
				// spread a later fragment whose type can apply here (no cycles: only higher indices)
				ok := map[string]bool{}
				for _, c := range g.overlappingTypes(t) {
					ok[c] = true
				}
				from := minFrag
				if cyclic {
					from = 0
				}
				for j := from; j < nf; j++ {
					if ok[frs[j].TypeCond] && r.Chance(1, 2) {
						out = append(out, &m.Sel{Kind: m.SSpread, Name: frs[j].Name})
						break
					}
				}
			}
		}
		if len(out) == 0 {
			out = append(out, &m.Sel{Kind: m.SField, Name: "__typename", Alias: r.Pick("", "x", "y")})
		}
		return out
	}
	for i, f := range frs {
		f.Sel = sel(mg.Types[f.TypeCond], 2, i+1)
	}
	op := &m.Def{Op: "query", Name: "Collide", Sel: sel(root, 3, 0)}
	doc := &m.Doc{Defs: []*m.Def{op}}
	// keep only fragments reachable from the operation
	used := map[string]bool{}
	var reach func(ss []*m.Sel)
	reach = func(ss []*m.Sel) {
		for _, s := range ss {
			if s.Kind == m.SSpread {
				if !used[s.Name] {
					used[s.Name] = true
					for _, f := range frs {
						if f.Name == s.Name {
							reach(f.Sel)
						}
					}
				}
			} else {
				reach(s.Sel)
			}
		}
	}
	reach(op.Sel)
	for _, f := range frs {
		if used[f.Name] {
			doc.Defs = append(doc.Defs, f)
		}
	}
	return doc
}

// PetsScenarioDoc builds, for the fixed "pets" schema (Query.pet: Pet, Query.owner: Person, Dog/Cat
// implement Pet with friend: Person and mate: Pet), a document in which two fragments on one type
// are compared under mutually exclusive parents AND spread side by side, in either order. The bodies
// of the fragments are collision-style selections; the reference validator decides validity.
func PetsScenarioDoc(r *core.Rand, mg *tsys.Merged) *m.Doc { return petsScenarioDoc(r, mg, false) }

// CyclicPetsScenarioDoc is the same scenario with a spread cycle through the compared fragments (CA -> CA2 -> CA, CA <-> CB or
// CA -> CA): the pair is met first under mutually exclusive parents and then side by side, or the other way round, while
// following spreads never ends by itself. The documents are invalid (NoFragmentCycles); what matters is that validation returns.
func CyclicPetsScenarioDoc(r *core.Rand, mg *tsys.Merged) *m.Doc { return petsScenarioDoc(r, mg, true) }

func petsScenarioDoc(r *core.Rand, mg *tsys.Merged, cyclic bool) *m.Doc {
	tName, via, rootField := "Person", "friend", "owner"
	if r.Bool() {
		tName, via, rootField = "Pet", "mate", "pet"
	}
	t := mg.Types[tName]
	if t == nil {
		return &m.Doc{}
	}
	body := func() []*m.Sel {
		var out []*m.Sel
		n := 1 + r.Intn(2)
		for i := 0; i < n; i++ {
			f := t.Fields[r.Intn(len(t.Fields))]
			s := &m.Sel{Kind: m.SField, Name: f.Name, Alias: r.Pick("x", "y", "x")}
			if td := mg.Types[f.Type.Base()]; td != nil && td.IsComposite() {
				s.Sel = []*m.Sel{{Kind: m.SField, Name: "__typename"}}
			}
			out = append(out, s)
		}
		return out
	}
	fa := &m.Def{IsFragment: true, Name: "CA", TypeCond: tName, Sel: body()}
	fb := &m.Def{IsFragment: true, Name: "CB", TypeCond: tName, Sel: body()}
	spread := func(n string) *m.Sel { return &m.Sel{Kind: m.SSpread, Name: n} }
	excl := &m.Sel{Kind: m.SField, Alias: "p1", Name: "pet", Sel: []*m.Sel{
		{Kind: m.SInline, TypeCond: "Dog", Sel: []*m.Sel{{Kind: m.SField, Alias: "k", Name: via, Sel: []*m.Sel{spread("CA")}}}},
		{Kind: m.SInline, TypeCond: "Cat", Sel: []*m.Sel{{Kind: m.SField, Alias: "k", Name: via, Sel: []*m.Sel{spread("CB")}}}},
	}}
	side := &m.Sel{Kind: m.SField, Alias: "s1", Name: rootField, Sel: []*m.Sel{spread("CA"), spread("CB")}}
	if r.Bool() {
		side.Sel = []*m.Sel{spread("CB"), spread("CA")}
	}
	op := &m.Def{Op: "query", Name: "Scenario", Sel: []*m.Sel{excl, side}}
	if r.Bool() {
		op.Sel = []*m.Sel{side, excl}
	}
	defs := []*m.Def{op, fa, fb}
	if cyclic {
		at := func(d *m.Def, s *m.Sel) {
			i := r.Intn(len(d.Sel) + 1)
			d.Sel = append(d.Sel[:i], append([]*m.Sel{s}, d.Sel[i:]...)...)
		}
		switch r.Intn(3) {
		case 0:
			fa2 := &m.Def{IsFragment: true, Name: "CA2", TypeCond: tName, Sel: body()}
			at(fa, spread("CA2"))
			at(fa2, spread("CA"))
			defs = append(defs, fa2)
		case 1:
			at(fa, spread("CB"))
			at(fb, spread("CA"))
		default:
			at(fa, spread("CA"))
		}
	}
	p := r.Perm(len(defs))
	out := &m.Doc{}
	for _, i := range p {
		out.Defs = append(out.Defs, defs[i])
	}
	return out
}

// sortedVarNames: map iteration order must never influence what is generated.
func sortedVarNames(mp map[string]*poolVar) []string {
	names := make([]string, 0, len(mp))
	for n := range mp {
		names = append(names, n)
	}
	sort.Strings(names)
	return names
}

// TwinOperation adds a copy of one operation (same selections, so it shares every fragment with the original) whose nullable
// variables without a default get one; the copy goes after or before the original. Both stay valid: a default on a nullable
// variable never invalidates a use. Returns false when no operation declares such a variable.
func TwinOperation(r *core.Rand, g *G, doc *m.Doc) bool {
	for _, oi := range r.Perm(len(doc.Defs)) {
		op := doc.Defs[oi]
		if op.IsFragment || op.Name == "" {
			continue
		}
		cands := 0
		for _, v := range op.Vars {
			if !v.Type.NonNull && v.Default == nil {
				cands++
			}
		}
		if cands == 0 {
			continue
		}
		one := CloneDoc(&m.Doc{Defs: []*m.Def{op}}).Defs[0]
		one.Name = op.Name + "Twin"
		changed := false
		for i := range one.Vars {
			v := &one.Vars[i]
			if !v.Type.NonNull && v.Default == nil && (r.Chance(2, 3) || !changed) {
				nn := *v.Type
				nn.NonNull = true
				v.Default = tsys.GenValue(r, g.Lookup, &nn, 2, false)
				changed = true
			}
		}
		at := oi + 1
		if r.Chance(1, 3) {
			at = oi
		}
		doc.Defs = append(doc.Defs[:at], append([]*m.Def{one}, doc.Defs[at:]...)...)
		return true
	}
	return false
}
