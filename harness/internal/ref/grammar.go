package ref

// The two grammars of Appendix B of the GraphQL specification (October 2021), as data.
// Terminals: 'x' punctuators, "kw" keyword names, NAME any name, FRAGNAME a name other than `on`,
// ENUMNAME a name other than true/false/null, INT, FLOAT, STRING (quoted or block).
//
// Documented extension of the library accepted here: variable definitions on fragment
// definitions (ast/fragment.go marks them experimental; parser tests exercise them).

var grammarClasses = map[string]func(GTok) bool{
	"NAME":     func(t GTok) bool { return t.Kind == KName },
	"FRAGNAME": func(t GTok) bool { return t.Kind == KName && t.Val != "on" },
	"ENUMNAME": func(t GTok) bool { return t.Kind == KName && t.Val != "true" && t.Val != "false" && t.Val != "null" },
	"INT":      func(t GTok) bool { return t.Kind == KInt },
	"FLOAT":    func(t GTok) bool { return t.Kind == KFloat },
	"STRING":   func(t GTok) bool { return t.Kind == KString || t.Kind == KBlock },
}

const valueRules = `
Value : Variable | INT | FLOAT | STRING | NAME | ListValue | ObjectValue
ListValue : '[' Value* ']'
ObjectValue : '{' ObjectField* '}'
ObjectField : NAME ':' Value
ConstValue : INT | FLOAT | STRING | NAME | ConstListValue | ConstObjectValue
ConstListValue : '[' ConstValue* ']'
ConstObjectValue : '{' ConstObjectField* '}'
ConstObjectField : NAME ':' ConstValue
Variable : '$' NAME
Type : NAME | '[' Type ']' | NAME '!' | '[' Type ']' '!'
Directives : Directive+
Directive : '@' NAME Arguments?
Arguments : '(' Argument+ ')'
Argument : NAME ':' Value
ConstDirectives : ConstDirective+
ConstDirective : '@' NAME ConstArguments?
ConstArguments : '(' ConstArgument+ ')'
ConstArgument : NAME ':' ConstValue
DefaultValue : '=' ConstValue
`

const executableGrammarText = `
Document : Definition+
Definition : OperationDefinition | FragmentDefinition
OperationDefinition : SelectionSet | OperationType NAME? VariableDefinitions? Directives? SelectionSet
OperationType : "query" | "mutation" | "subscription"
SelectionSet : '{' Selection+ '}'
Selection : Field | FragmentSpread | InlineFragment
Field : Alias? NAME Arguments? Directives? SelectionSet?
Alias : NAME ':'
FragmentSpread : '...' FRAGNAME Directives?
InlineFragment : '...' TypeCondition? Directives? SelectionSet
FragmentDefinition : "fragment" FRAGNAME VariableDefinitions? TypeCondition Directives? SelectionSet
TypeCondition : "on" NAME
VariableDefinitions : '(' VariableDefinition+ ')'
VariableDefinition : Variable ':' Type DefaultValue? ConstDirectives?
` + valueRules

const typeSystemGrammarText = `
Document : Definition+
Definition : SchemaDefinition | SchemaExtension | TypeDefinition | TypeExtension | DirectiveDefinition
Description : STRING
OperationType : "query" | "mutation" | "subscription"
SchemaDefinition : Description? "schema" ConstDirectives? '{' RootOperationTypeDefinition+ '}'
RootOperationTypeDefinition : OperationType ':' NAME
SchemaExtension : "extend" "schema" ConstDirectives? '{' RootOperationTypeDefinition+ '}' | "extend" "schema" ConstDirectives
TypeDefinition : ScalarTypeDefinition | ObjectTypeDefinition | InterfaceTypeDefinition | UnionTypeDefinition | EnumTypeDefinition | InputObjectTypeDefinition
TypeExtension : ScalarTypeExtension | ObjectTypeExtension | InterfaceTypeExtension | UnionTypeExtension | EnumTypeExtension | InputObjectTypeExtension
ScalarTypeDefinition : Description? "scalar" NAME ConstDirectives?
ScalarTypeExtension : "extend" "scalar" NAME ConstDirectives
ObjectTypeDefinition : Description? "type" NAME ImplementsInterfaces? ConstDirectives? FieldsDefinition?
ObjectTypeExtension : "extend" "type" NAME ImplementsInterfaces? ConstDirectives? FieldsDefinition | "extend" "type" NAME ImplementsInterfaces? ConstDirectives | "extend" "type" NAME ImplementsInterfaces
ImplementsInterfaces : "implements" '&'? NAME | ImplementsInterfaces '&' NAME
FieldsDefinition : '{' FieldDefinition+ '}'
FieldDefinition : Description? NAME ArgumentsDefinition? ':' Type ConstDirectives?
ArgumentsDefinition : '(' InputValueDefinition+ ')'
InputValueDefinition : Description? NAME ':' Type DefaultValue? ConstDirectives?
InterfaceTypeDefinition : Description? "interface" NAME ImplementsInterfaces? ConstDirectives? FieldsDefinition?
InterfaceTypeExtension : "extend" "interface" NAME ImplementsInterfaces? ConstDirectives? FieldsDefinition | "extend" "interface" NAME ImplementsInterfaces? ConstDirectives | "extend" "interface" NAME ImplementsInterfaces
UnionTypeDefinition : Description? "union" NAME ConstDirectives? UnionMemberTypes?
UnionMemberTypes : '=' '|'? NAME | UnionMemberTypes '|' NAME
UnionTypeExtension : "extend" "union" NAME ConstDirectives? UnionMemberTypes | "extend" "union" NAME ConstDirectives
EnumTypeDefinition : Description? "enum" NAME ConstDirectives? EnumValuesDefinition?
EnumValuesDefinition : '{' EnumValueDefinition+ '}'
EnumValueDefinition : Description? ENUMNAME ConstDirectives?
EnumTypeExtension : "extend" "enum" NAME ConstDirectives? EnumValuesDefinition | "extend" "enum" NAME ConstDirectives
InputObjectTypeDefinition : Description? "input" NAME ConstDirectives? InputFieldsDefinition?
InputFieldsDefinition : '{' InputValueDefinition+ '}'
InputObjectTypeExtension : "extend" "input" NAME ConstDirectives? InputFieldsDefinition | "extend" "input" NAME ConstDirectives
DirectiveDefinition : Description? "directive" '@' NAME ArgumentsDefinition? "repeatable"? "on" DirectiveLocations
DirectiveLocations : '|'? DirectiveLocation | DirectiveLocations '|' DirectiveLocation
DirectiveLocation : "QUERY" | "MUTATION" | "SUBSCRIPTION" | "FIELD" | "FRAGMENT_DEFINITION" | "FRAGMENT_SPREAD" | "INLINE_FRAGMENT" | "VARIABLE_DEFINITION" | "SCHEMA" | "SCALAR" | "OBJECT" | "FIELD_DEFINITION" | "ARGUMENT_DEFINITION" | "INTERFACE" | "UNION" | "ENUM" | "ENUM_VALUE" | "INPUT_OBJECT" | "INPUT_FIELD_DEFINITION"
` + valueRules

var (
	ExecutableGrammar = ParseGrammar("executable", executableGrammarText, grammarClasses)
	TypeSystemGrammar = ParseGrammar("type-system", typeSystemGrammarText, grammarClasses)
)
