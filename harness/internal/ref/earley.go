package ref

import (
	"fmt"
	"sort"
	"strings"
)

// A generic Earley recognizer over token classes. The grammars of Appendix B of the GraphQL
// specification are given to it as data (grammar.go); it is structurally unrelated to a
// recursive-descent parser and answers viable-prefix queries.

// GTok is a token as the grammar sees it.
type GTok struct {
	Kind Kind   // KPunct, KName, KInt, KFloat, KString, KBlock
	Val  string // punctuator text or name text; empty for numbers and strings
}

func (t GTok) String() string {
	switch t.Kind {
	case KPunct, KName:
		return t.Val
	}
	return t.Kind.String()
}

// term is a terminal: a predicate over tokens.
type term struct {
	name string
	ok   func(t GTok) bool
}

type gsym struct {
	isTerm bool
	id     int
}

type grule struct {
	lhs int
	rhs []gsym
}

// Grammar is a context-free grammar with predicate terminals.
type Grammar struct {
	Name     string
	nts      []string
	ntIndex  map[string]int
	terms    []term
	termIdx  map[string]int
	rules    []grule
	byLHS    [][]int
	nullable []bool
	start    int
}

type eitem struct {
	rule, dot, origin int
}

type eset struct {
	items []eitem
	index map[eitem]struct{}
}

func (s *eset) add(it eitem) bool {
	if _, ok := s.index[it]; ok {
		return false
	}
	s.index[it] = struct{}{}
	s.items = append(s.items, it)
	return true
}

// State is the recognizer after some tokens; it is immutable (Step returns a new State).
type State struct {
	g    *Grammar
	sets []*eset
}

func (g *Grammar) closure(sets []*eset, k int) {
	s := sets[k]
	for i := 0; i < len(s.items); i++ {
		it := s.items[i]
		r := g.rules[it.rule]
		if it.dot < len(r.rhs) {
			sym := r.rhs[it.dot]
			if sym.isTerm {
				continue
			}
			// predict
			for _, ri := range g.byLHS[sym.id] {
				s.add(eitem{ri, 0, k})
			}
			if g.nullable[sym.id] {
				s.add(eitem{it.rule, it.dot + 1, it.origin})
			}
			continue
		}
		// complete
		org := sets[it.origin]
		for j := 0; j < len(org.items); j++ {
			p := org.items[j]
			pr := g.rules[p.rule]
			if p.dot < len(pr.rhs) && !pr.rhs[p.dot].isTerm && pr.rhs[p.dot].id == r.lhs {
				s.add(eitem{p.rule, p.dot + 1, p.origin})
			}
		}
	}
}

// Begin returns the recognizer state before any token.
func (g *Grammar) Begin() *State {
	s0 := &eset{index: map[eitem]struct{}{}}
	for _, ri := range g.byLHS[g.start] {
		s0.add(eitem{ri, 0, 0})
	}
	sets := []*eset{s0}
	g.closure(sets, 0)
	return &State{g: g, sets: sets}
}

// Step consumes one token; the result is nil when no derivation of the grammar has this prefix.
func (st *State) Step(t GTok) *State {
	g := st.g
	k := len(st.sets) - 1
	cur := st.sets[k]
	next := &eset{index: map[eitem]struct{}{}}
	for _, it := range cur.items {
		r := g.rules[it.rule]
		if it.dot < len(r.rhs) && r.rhs[it.dot].isTerm && g.terms[r.rhs[it.dot].id].ok(t) {
			next.add(eitem{it.rule, it.dot + 1, it.origin})
		}
	}
	if len(next.items) == 0 {
		return nil
	}
	sets := make([]*eset, k+2)
	copy(sets, st.sets)
	sets[k+1] = next
	g.closure(sets, k+1)
	return &State{g: g, sets: sets}
}

// Accepting reports whether the tokens consumed so far form a complete sentence.
func (st *State) Accepting() bool {
	g := st.g
	last := st.sets[len(st.sets)-1]
	for _, it := range last.items {
		r := g.rules[it.rule]
		if r.lhs == g.start && it.origin == 0 && it.dot == len(r.rhs) {
			return true
		}
	}
	return false
}

// Expecting names the rules that are waiting for a terminal in the current state (innermost
// first, at most three): the reason code used when a token cannot be shifted.
func (st *State) Expecting() string {
	g := st.g
	last := st.sets[len(st.sets)-1]
	seen := map[string]bool{}
	var names []string
	for pass := 0; pass < 2 && len(names) == 0; pass++ {
		for _, it := range last.items {
			r := g.rules[it.rule]
			if it.dot < len(r.rhs) && r.rhs[it.dot].isTerm && (it.dot > 0 || pass == 1) {
				n := g.nts[r.lhs]
				if i := strings.IndexByte(n, '#'); i >= 0 {
					n = n[:i]
				}
				if !seen[n] {
					seen[n] = true
					names = append(names, n)
				}
			}
		}
	}
	sort.Strings(names)
	if len(names) > 3 {
		names = names[:3]
	}
	if len(names) == 0 {
		return "start"
	}
	return strings.Join(names, "|")
}

// WhyNot names why token t cannot be shifted in this state: a restricted name class that excludes
// it (reserved enum value names, `on` as a fragment name), or the token class and the waiting rules.
func (st *State) WhyNot(t GTok) string {
	g := st.g
	last := st.sets[len(st.sets)-1]
	if t.Kind == KName {
		for _, it := range last.items {
			r := g.rules[it.rule]
			if it.dot < len(r.rhs) && r.rhs[it.dot].isTerm {
				switch g.terms[r.rhs[it.dot].id].name {
				case "ENUMNAME":
					return "reserved-name-as-enum-value"
				case "FRAGNAME":
					return "on-as-fragment-name"
				}
			}
		}
	}
	return tokClass(t) + " after " + st.Expecting()
}

// Recognize runs the recognizer over a token list. When it rejects, failAt is the index of the
// first token that cannot be shifted (len(toks) when the input is a proper prefix of a sentence)
// and reason names the context.
func (g *Grammar) Recognize(toks []GTok) (ok bool, failAt int, reason string) {
	st := g.Begin()
	for i, t := range toks {
		nx := st.Step(t)
		if nx == nil {
			return false, i, st.WhyNot(t)
		}
		st = nx
	}
	if st.Accepting() {
		return true, -1, ""
	}
	if len(toks) == 0 {
		return false, 0, "empty-document"
	}
	return false, len(toks), "end-of-input in " + st.Expecting()
}

func tokClass(t GTok) string {
	switch t.Kind {
	case KPunct:
		return "'" + t.Val + "'"
	case KName:
		switch t.Val {
		case "on", "query", "mutation", "subscription", "fragment", "true", "false", "null", "schema", "scalar", "type", "interface", "union",
			"enum", "input", "directive", "extend", "implements", "repeatable":
			return "Name(" + t.Val + ")"
		}
		return "Name"
	case KBlock:
		return "String"
	}
	return t.Kind.String()
}

// ---------------------------------------------------------------- grammar DSL

// ParseGrammar reads rules of the form
//
//	Lhs : alt | alt ...
//
// one per line (continuation lines start with '|'). Symbols: 'x' punctuator, "kw" a Name token with
// that text, UPPERCASE built-in terminal classes, anything else a non-terminal; suffixes ? * + apply
// to a single symbol.
func ParseGrammar(name, text string, classes map[string]func(GTok) bool) *Grammar {
	g := &Grammar{Name: name, ntIndex: map[string]int{}, termIdx: map[string]int{}}
	nt := func(n string) int {
		if i, ok := g.ntIndex[n]; ok {
			return i
		}
		g.ntIndex[n] = len(g.nts)
		g.nts = append(g.nts, n)
		return len(g.nts) - 1
	}
	tm := func(n string) int {
		if i, ok := g.termIdx[n]; ok {
			return i
		}
		var f func(GTok) bool
		switch {
		case strings.HasPrefix(n, "'"):
			p := strings.Trim(n, "'")
			f = func(t GTok) bool { return t.Kind == KPunct && t.Val == p }
		case strings.HasPrefix(n, `"`):
			p := strings.Trim(n, `"`)
			f = func(t GTok) bool { return t.Kind == KName && t.Val == p }
		default:
			f = classes[n]
			if f == nil {
				panic("grammar " + name + ": unknown terminal class " + n)
			}
		}
		g.termIdx[n] = len(g.terms)
		g.terms = append(g.terms, term{n, f})
		return len(g.terms) - 1
	}
	isTerm := func(s string) bool {
		if strings.HasPrefix(s, "'") || strings.HasPrefix(s, `"`) {
			return true
		}
		return s == strings.ToUpper(s)
	}
	helper := 0
	addRule := func(lhs int, rhs []gsym) { g.rules = append(g.rules, grule{lhs, rhs}) }
	symOf := func(owner, s string) gsym {
		suffix := byte(0)
		if l := s[len(s)-1]; (l == '?' || l == '*' || l == '+') && len(s) > 1 && !(strings.HasPrefix(s, "'") && strings.HasSuffix(s, "'")) {
			suffix = l
			s = s[:len(s)-1]
		}
		var base gsym
		if isTerm(s) {
			base = gsym{true, tm(s)}
		} else {
			base = gsym{false, nt(s)}
		}
		if suffix == 0 {
			return base
		}
		helper++
		h := nt(fmt.Sprintf("%s#%d", owner, helper))
		switch suffix {
		case '?':
			addRule(h, nil)
			addRule(h, []gsym{base})
		case '*':
			addRule(h, nil)
			addRule(h, []gsym{{false, h}, base})
		case '+':
			addRule(h, []gsym{base})
			addRule(h, []gsym{{false, h}, base})
		}
		return gsym{false, h}
	}
	var curLHS string
	for _, line := range strings.Split(text, "\n") {
		line = strings.TrimSpace(line)
		if line == "" || strings.HasPrefix(line, "//") {
			continue
		}
		body := line
		if strings.HasPrefix(line, "|") {
			body = strings.TrimSpace(line[1:])
		} else {
			i := strings.Index(line, " : ")
			if i < 0 {
				panic("grammar " + name + ": bad line " + line)
			}
			curLHS = strings.TrimSpace(line[:i])
			body = strings.TrimSpace(line[i+3:])
			if g.start == 0 && len(g.nts) == 0 {
				nt(curLHS)
			}
		}
		for _, alt := range strings.Split(body, " | ") {
			var rhs []gsym
			for _, s := range strings.Fields(alt) {
				if s == "ε" {
					continue
				}
				rhs = append(rhs, symOf(curLHS, s))
			}
			addRule(nt(curLHS), rhs)
		}
	}
	g.start = 0
	g.byLHS = make([][]int, len(g.nts))
	for i, r := range g.rules {
		g.byLHS[r.lhs] = append(g.byLHS[r.lhs], i)
	}
	for i, n := range g.nts {
		if len(g.byLHS[i]) == 0 {
			panic("grammar " + name + ": non-terminal without rules: " + n)
		}
	}
	g.nullable = make([]bool, len(g.nts))
	for changed := true; changed; {
		changed = false
		for _, r := range g.rules {
			if g.nullable[r.lhs] {
				continue
			}
			all := true
			for _, s := range r.rhs {
				if s.isTerm || !g.nullable[s.id] {
					all = false
					break
				}
			}
			if all {
				g.nullable[r.lhs] = true
				changed = true
			}
		}
	}
	return g
}

// GToksFromLex converts reference-lexer tokens (comments dropped) to grammar tokens.
func GToksFromLex(toks []Tok) []GTok {
	out := make([]GTok, 0, len(toks))
	for _, t := range toks {
		switch t.Kind {
		case KComment:
			continue
		case KPunct, KName:
			out = append(out, GTok{t.Kind, t.Value})
		default:
			out = append(out, GTok{Kind: t.Kind})
		}
	}
	return out
}
