package ref

// LineIndex maps character offsets to (line, column) under LF | CR | CRLF line terminators.
type LineIndex struct {
	starts []int // character offset of the first character of each line
	n      int   // number of characters
}

func NewLineIndex(src string) *LineIndex {
	rs := []rune(src)
	li := &LineIndex{starts: []int{0}, n: len(rs)}
	for i := 0; i < len(rs); i++ {
		switch rs[i] {
		case '\n':
			li.starts = append(li.starts, i+1)
		case '\r':
			if i+1 < len(rs) && rs[i+1] == '\n' {
				i++
			}
			li.starts = append(li.starts, i+1)
		}
	}
	return li
}

func (li *LineIndex) NChars() int { return li.n }
func (li *LineIndex) NLines() int { return len(li.starts) }

// LineCol returns the 1-based line and column of a character offset in [0, n].
func (li *LineIndex) LineCol(off int) (line, col int) {
	lo, hi := 0, len(li.starts)-1
	for lo < hi {
		mid := (lo + hi + 1) / 2
		if li.starts[mid] <= off {
			lo = mid
		} else {
			hi = mid - 1
		}
	}
	return lo + 1, off - li.starts[lo] + 1
}

// Offset returns the character offset of (line, col) if the line exists and col is at most one
// past its last character (line terminator excluded for interior lines is not required:
// a column may point at the terminator itself).
func (li *LineIndex) Offset(line, col int) (off int, ok bool) {
	if line < 1 || line > len(li.starts) || col < 1 {
		return 0, false
	}
	start := li.starts[line-1]
	end := li.n
	if line < len(li.starts) {
		end = li.starts[line] // start of next line; the terminator belongs to this line
	}
	off = start + col - 1
	if off > end {
		return off, false
	}
	if line < len(li.starts) && off == end {
		// one past the terminator is the next line's first column, not this line's
		return off, false
	}
	return off, true
}
