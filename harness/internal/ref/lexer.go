// Package ref holds the independent reference models (written from the GraphQL October 2021
// specification text, never from gqlparser's code).
package ref

import (
	"strings"
	"unicode/utf8"
)

type Kind int

const (
	KPunct Kind = iota
	KName
	KInt
	KFloat
	KString
	KBlock
	KComment
)

var kindNames = []string{"Punct", "Name", "Int", "Float", "String", "BlockString", "Comment"}

func (k Kind) String() string { return kindNames[k] }

// Tok is one lexical token: extent in characters and semantic value.
type Tok struct {
	Kind  Kind
	Start int // character offset
	End   int
	Text  string // source text
	Value string // Punct: the punctuator; Name/Int/Float: text; String/Block: semantic value; Comment: text incl. '#'
}

// LexResult is the outcome of lexing a whole source.
type LexResult struct {
	Toks    []Tok
	Failed  bool
	FailAt  int    // character offset where no token can be formed (start of the failing token)
	FailEnd int    // offset of the character (or end of input) at which the lexeme is known not to be a token; FailAt <= FailEnd
	Reason  string // closed vocabulary, see DESIGN.md Appendix A
	Abstain string // non-empty: the reference does not judge this input
	NChars  int
}

func isNameStart(r rune) bool { return r == '_' || (r >= 'a' && r <= 'z') || (r >= 'A' && r <= 'Z') }
func isDigit(r rune) bool     { return r >= '0' && r <= '9' }
func isNameCont(r rune) bool  { return isNameStart(r) || isDigit(r) }
func isSourceChar(r rune) bool {
	return r == 0x9 || r == 0xA || r == 0xD || (r >= 0x20 && r <= 0xFFFF)
}

// Lex tokenises src per §2.1 of the October 2021 specification.
func Lex(src string) *LexResult { return lex(src, false) }

// LexCloseRun is Lex with the library's deliberate deviation (recorded as finding F-C03-03): a block string closed by a run
// of more than three quotes ends at the END of the run, the surplus quotes belonging to its value. Only used where the
// token extents of such a text are needed as a frame of reference (C04); C03 judges against Lex.
func LexCloseRun(src string) *LexResult { return lexMode(src, true, false) }

// LexFrame gives the token extents used as a frame of reference for positions (C04): the close-run reading when the text has
// a run of four quotes, and characters above U+FFFF accepted as source characters (the library follows the later
// specification drafts there; the October 2021 grammar, which Lex implements, stops at U+FFFF and Lex abstains).
func LexFrame(src string) *LexResult {
	return lexMode(src, strings.Contains(src, `""""`), true)
}

func lex(src string, closeRun bool) *LexResult { return lexMode(src, closeRun, false) }

func lexMode(src string, closeRun, wide bool) *LexResult {
	res := &LexResult{}
	if !utf8.ValidString(src) {
		res.Abstain = "invalid-utf8"
		return res
	}
	rs := []rune(src)
	n := len(rs)
	res.NChars = n
	for _, r := range rs {
		if r > 0xFFFF && !wide {
			res.Abstain = "non-bmp-source-character"
			return res
		}
	}
	isSourceChar := func(r rune) bool {
		return r == 0x9 || r == 0xA || r == 0xD || (r >= 0x20 && r <= 0xFFFF) || (wide && r > 0xFFFF)
	}
	at := func(i int) rune {
		if i < n {
			return rs[i]
		}
		return -1
	}
	failTo := func(at, culprit int, reason string) *LexResult {
		res.Failed = true
		res.FailAt = at
		res.FailEnd = culprit
		res.Reason = reason
		return res
	}
	i := 0
	for i < n {
		r := rs[i]
		// Ignored
		switch r {
		case 0xFEFF, ' ', '\t', ',', '\n', '\r':
			i++
			continue
		}
		start := i
		switch {
		case r == '#':
			j := i + 1
			for j < n && isSourceChar(rs[j]) && rs[j] != '\n' && rs[j] != '\r' {
				j++
			}
			res.Toks = append(res.Toks, Tok{Kind: KComment, Start: start, End: j, Text: string(rs[start:j]), Value: string(rs[start:j])})
			i = j
		case strings.ContainsRune("!$&():=@[]{|}", r):
			res.Toks = append(res.Toks, Tok{Kind: KPunct, Start: start, End: i + 1, Text: string(r), Value: string(r)})
			i++
		case r == '.':
			if at(i+1) == '.' && at(i+2) == '.' {
				res.Toks = append(res.Toks, Tok{Kind: KPunct, Start: start, End: i + 3, Text: "...", Value: "..."})
				i += 3
			} else {
				return failTo(start, start+2, "lone-dot")
			}
		case isNameStart(r):
			j := i + 1
			for j < n && isNameCont(rs[j]) {
				j++
			}
			res.Toks = append(res.Toks, Tok{Kind: KName, Start: start, End: j, Text: string(rs[start:j]), Value: string(rs[start:j])})
			i = j
		case r == '-' || isDigit(r):
			j := i
			if rs[j] == '-' {
				j++
			}
			if at(j) == '0' {
				j++
				if isDigit(at(j)) {
					return failTo(start, j, "leading-zero")
				}
			} else if isDigit(at(j)) {
				for isDigit(at(j)) {
					j++
				}
			} else {
				return failTo(start, j, "missing-integer-digit")
			}
			isFloat := false
			if at(j) == '.' {
				if !isDigit(at(j + 1)) {
					// "1." or "1.x": IntValue must not be followed by '.', and no fraction can be formed
					return failTo(start, j+1, "missing-fraction-digit")
				}
				isFloat = true
				j++
				for isDigit(at(j)) {
					j++
				}
			}
			if at(j) == 'e' || at(j) == 'E' {
				k := j + 1
				if at(k) == '+' || at(k) == '-' {
					k++
				}
				if !isDigit(at(k)) {
					// 'e' is a NameStart: the number may not be followed by it, and no exponent can be formed
					return failTo(start, k, "missing-exponent-digit")
				}
				isFloat = true
				for isDigit(at(k)) {
					k++
				}
				j = k
			}
			// lookahead restriction
			switch la := at(j); {
			case isDigit(la):
				return failTo(start, j, "number-followed-by-digit")
			case la == '.':
				return failTo(start, j, "number-followed-by-dot")
			case la >= 0 && isNameStart(la):
				return failTo(start, j, "number-followed-by-name-start")
			}
			k := KInt
			if isFloat {
				k = KFloat
			}
			res.Toks = append(res.Toks, Tok{Kind: k, Start: start, End: j, Text: string(rs[start:j]), Value: string(rs[start:j])})
			i = j
		case r == '"':
			if at(i+1) == '"' && at(i+2) == '"' {
				// block string
				j := i + 3
				var raw []rune
				closed := false
				for j < n {
					c := rs[j]
					if c == '"' && at(j+1) == '"' && at(j+2) == '"' {
						closed = true
						j += 3
						for closeRun && at(j) == '"' {
							raw = append(raw, '"')
							j++
						}
						break
					}
					if c == '\\' && at(j+1) == '"' && at(j+2) == '"' && at(j+3) == '"' {
						raw = append(raw, '"', '"', '"')
						j += 4
						continue
					}
					if !isSourceChar(c) {
						return failTo(start, j, "control-char-in-block")
					}
					raw = append(raw, c)
					j++
				}
				if !closed {
					return failTo(start, n, "unterminated-block")
				}
				res.Toks = append(res.Toks, Tok{Kind: KBlock, Start: start, End: j, Text: string(rs[start:j]), Value: BlockStringValue(string(raw))})
				i = j
				continue
			}
			j := i + 1
			var val []rune
			closed := false
			for j < n {
				c := rs[j]
				if c == '"' {
					closed = true
					j++
					break
				}
				if c == '\n' || c == '\r' {
					break
				}
				if !isSourceChar(c) {
					return failTo(start, j, "control-char-in-string")
				}
				if c == '\\' {
					e := at(j + 1)
					switch e {
					case '"', '\\', '/':
						val = append(val, e)
						j += 2
					case 'b':
						val = append(val, '\b')
						j += 2
					case 'f':
						val = append(val, '\f')
						j += 2
					case 'n':
						val = append(val, '\n')
						j += 2
					case 'r':
						val = append(val, '\r')
						j += 2
					case 't':
						val = append(val, '\t')
						j += 2
					case 'u':
						v := rune(0)
						for k := 0; k < 4; k++ {
							h := at(j + 2 + k)
							switch {
							case h >= '0' && h <= '9':
								v = v<<4 | (h - '0')
							case h >= 'a' && h <= 'f':
								v = v<<4 | (h - 'a' + 10)
							case h >= 'A' && h <= 'F':
								v = v<<4 | (h - 'A' + 10)
							default:
								return failTo(start, j+2+k, "bad-unicode-escape")
							}
						}
						if v >= 0xD800 && v <= 0xDFFF {
							if !wide {
								res.Abstain = "surrogate-escape"
								return res
							}
							v = 0xFFFD // frame mode: only the extent of the token matters
						}
						val = append(val, v)
						j += 6
					default:
						return failTo(start, j+1, "bad-escape")
					}
					continue
				}
				val = append(val, c)
				j++
			}
			if !closed {
				return failTo(start, j, "unterminated-string")
			}
			res.Toks = append(res.Toks, Tok{Kind: KString, Start: start, End: j, Text: string(rs[start:j]), Value: string(val)})
			i = j
		default:
			if !isSourceChar(r) {
				return failTo(start, start, "control-char-in-source")
			}
			return failTo(start, start, "unknown-char")
		}
	}
	return res
}

// BlockStringValue implements the specification's BlockStringValue(rawValue) line by line.
func BlockStringValue(raw string) string {
	// split by LineTerminator: LF, CRLF, CR
	var lines []string
	cur := strings.Builder{}
	rs := []rune(raw)
	for i := 0; i < len(rs); i++ {
		switch rs[i] {
		case '\n':
			lines = append(lines, cur.String())
			cur.Reset()
		case '\r':
			if i+1 < len(rs) && rs[i+1] == '\n' {
				i++
			}
			lines = append(lines, cur.String())
			cur.Reset()
		default:
			cur.WriteRune(rs[i])
		}
	}
	lines = append(lines, cur.String())

	isWS := func(r rune) bool { return r == ' ' || r == '\t' }
	indentOf := func(l string) (indent, length int) {
		counting := true
		for _, r := range l {
			if counting && isWS(r) {
				indent++
			} else {
				counting = false
			}
			length++
		}
		return
	}
	common := -1
	for idx, l := range lines {
		if idx == 0 {
			continue
		}
		ind, length := indentOf(l)
		if ind < length && (common < 0 || ind < common) {
			common = ind
		}
	}
	if common > 0 {
		for idx := 1; idx < len(lines); idx++ {
			lr := []rune(lines[idx])
			if len(lr) <= common {
				lines[idx] = ""
			} else {
				lines[idx] = string(lr[common:])
			}
		}
	}
	blank := func(l string) bool {
		ind, length := indentOf(l)
		return ind == length
	}
	for len(lines) > 0 && blank(lines[0]) {
		lines = lines[1:]
	}
	for len(lines) > 0 && blank(lines[len(lines)-1]) {
		lines = lines[:len(lines)-1]
	}
	return strings.Join(lines, "\n")
}
