package core

import (
	"bufio"
	"bytes"
	"crypto/sha1"
	"encoding/hex"
	"encoding/json"
	"fmt"
	"os"
	"os/exec"
	"path/filepath"
	"runtime"
	"runtime/debug"
	"sort"
	"strconv"
	"strings"
	"sync"
	"syscall"
	"time"
)

func Root() string {
	if r := os.Getenv("VERIF_ROOT"); r != "" {
		return r
	}
	return "/verif"
}

func SeedFromEnv() uint64 {
	if s := os.Getenv("VERIF_SEED"); s != "" {
		if v, err := strconv.ParseInt(strings.TrimSpace(s), 10, 64); err == nil {
			return uint64(v)
		}
	}
	return 1
}

// Finding is one entry of /verif/known_findings.json.
type Finding struct {
	ID        string `json:"id"`
	Property  string `json:"property"`
	Status    string `json:"status"` // "finding" | "fixed"
	Signature string `json:"signature"`
	Witness   *Case  `json:"witness"`
	What      string `json:"what"`
	Commit    string `json:"commit,omitempty"`
}

func loadFindings(prop string) ([]*Finding, error) {
	b, err := os.ReadFile(filepath.Join(Root(), "known_findings.json"))
	if err != nil {
		if os.IsNotExist(err) {
			return nil, nil
		}
		return nil, err
	}
	var all []*Finding
	if err := json.Unmarshal(b, &all); err != nil {
		return nil, fmt.Errorf("known_findings.json: %v", err)
	}
	var out []*Finding
	for _, f := range all {
		if f.Property == prop {
			out = append(out, f)
		}
	}
	return out, nil
}

// ---------------------------------------------------------------- worker side

func setupWorker(mon *Monitor) {
	mb := mon.MaxStackMB
	if mb == 0 {
		mb = 256
	}
	debug.SetMaxStack(mb << 20)
	// heap watchdog: exit with a distinguished code above 2 GiB live heap (16 workers of one check must stay well inside the
	// machine's memory, or the kernel picks the victims); the goroutine dump names where the memory was being allocated
	go func() {
		var ms runtime.MemStats
		for {
			time.Sleep(200 * time.Millisecond)
			runtime.ReadMemStats(&ms)
			if ms.HeapAlloc > 2<<30 {
				fmt.Fprintf(os.Stderr, "VERIF-HEAP-WATCHDOG heap=%d\n", ms.HeapAlloc)
				buf := make([]byte, 1<<20)
				os.Stderr.Write(buf[:runtime.Stack(buf, true)]) //nolint
				os.Exit(3)
			}
		}
	}()
}

func writeResult(path string, r *Result) error {
	r.freeze()
	b, err := json.Marshal(r)
	if err != nil {
		return err
	}
	return os.WriteFile(path, b, 0o644)
}

func readResult(path string) (*Result, error) {
	b, err := os.ReadFile(path)
	if err != nil {
		return nil, err
	}
	r := NewResult()
	if err := json.Unmarshal(b, r); err != nil {
		return nil, err
	}
	r.thaw()
	return r, nil
}

// WorkerMain: vcheck worker <id> <tier> <seed> <shard> <n> <out.json>
func WorkerMain(args []string) int {
	if len(args) != 6 {
		fmt.Fprintln(os.Stderr, "usage: worker id tier seed shard n out")
		return 2
	}
	mon := Lookup(args[0])
	if mon == nil {
		fmt.Fprintln(os.Stderr, "unknown property", args[0])
		return 2
	}
	seed, _ := strconv.ParseUint(args[2], 10, 64)
	shard, _ := strconv.Atoi(args[3])
	n, _ := strconv.Atoi(args[4])
	setupWorker(mon)
	x := NewCtx(mon.ID, args[1], seed, shard, n)
	if j := os.Getenv("VERIF_JOURNAL"); j != "" {
		if err := x.OpenJournal(j); err != nil {
			fmt.Fprintln(os.Stderr, err)
			return 2
		}
	}
	if mon.CaseStallS >= 0 {
		limit := time.Duration(mon.CaseStallS) * time.Second
		if limit == 0 {
			limit = 30 * time.Second
			if args[1] != "quick" {
				limit = 150 * time.Second
			}
		}
		if f, err := strconv.Atoi(os.Getenv("VERIF_STALL_FACTOR")); err == nil && f > 1 {
			limit *= time.Duration(f)
		}
		x.StartStallWatchdog(limit, strings.TrimSuffix(args[5], ".json")+".stall.json")
	}
	mon.Run(x)
	if err := writeResult(args[5], x.Res); err != nil {
		fmt.Fprintln(os.Stderr, err)
		return 2
	}
	return 0
}

// ReplayCaseMain: vcheck replaycase <id> <tier> <seed> <case.json> <out.json>
func ReplayCaseMain(args []string) int {
	if len(args) != 5 {
		fmt.Fprintln(os.Stderr, "usage: replaycase id tier seed case out")
		return 2
	}
	mon := Lookup(args[0])
	if mon == nil {
		return 2
	}
	seed, _ := strconv.ParseUint(args[2], 10, 64)
	b, err := os.ReadFile(args[3])
	if err != nil {
		fmt.Fprintln(os.Stderr, err)
		return 2
	}
	var c Case
	if err := json.Unmarshal(b, &c); err != nil {
		fmt.Fprintln(os.Stderr, err)
		return 2
	}
	setupWorker(mon)
	x := NewCtx(mon.ID, args[1], seed, 0, 1)
	x.Do(&c, func() { mon.Check(x, &c) })
	if err := writeResult(args[4], x.Res); err != nil {
		fmt.Fprintln(os.Stderr, err)
		return 2
	}
	return 0
}

// ---------------------------------------------------------------- driver side

type driver struct {
	mon    *Monitor
	tier   string
	seed   uint64
	self   string
	tmp    string
	merged *Result
	mu     sync.Mutex
	notes  []string
	fatal  []*Violation
}

type childOutcome struct {
	ok       bool // exited 0 and result readable
	res      *Result
	timedOut bool
	exitCode int
	logTail  string
}

func (d *driver) runChild(args []string, env []string, logPath, outPath string, timeout time.Duration) childOutcome {
	return d.runChildBudget(args, env, logPath, outPath, timeout, 0)
}

// runChildBudget is runChild with a budget on the child's processor time (0: none, only the clock limit applies).
func (d *driver) runChildBudget(args []string, env []string, logPath, outPath string, timeout, cpuBudget time.Duration) childOutcome {
	os.Remove(outPath)
	lf, err := os.Create(logPath)
	if err != nil {
		return childOutcome{logTail: err.Error()}
	}
	cmd := exec.Command(d.self, args...)
	cmd.Stdout = lf
	cmd.Stderr = lf
	cmd.Env = append(os.Environ(), env...)
	if err := cmd.Start(); err != nil {
		lf.Close()
		return childOutcome{logTail: err.Error()}
	}
	done := make(chan error, 1)
	go func() { done <- cmd.Wait() }()
	var werr error
	timedOut := false
	expired := time.After(timeout)
	if cpuBudget > 0 {
		// the budget is on the processor time of the child (a loaded machine stretches the clock, not the work); the clock
		// limit, ten times as long, only catches a child that is blocked
		expired = childCPUExpired(cmd.Process.Pid, cpuBudget, timeout, done)
	}
	select {
	case werr = <-done:
	case <-expired:
		timedOut = true
		cmd.Process.Signal(syscall.SIGQUIT) //nolint
		select {
		case werr = <-done:
		case <-time.After(20 * time.Second):
			cmd.Process.Kill() //nolint
			werr = <-done
		}
	}
	lf.Close()
	oc := childOutcome{timedOut: timedOut}
	if cmd.ProcessState != nil {
		oc.exitCode = cmd.ProcessState.ExitCode()
	}
	oc.logTail = tailFile(logPath, 12000)
	if werr == nil && !timedOut {
		if r, err := readResult(outPath); err == nil {
			oc.ok = true
			oc.res = r
		} else {
			oc.logTail += "\nresult unreadable: " + err.Error()
		}
	}
	return oc
}

// childCPUExpired fires when the process has used more than budget of processor time (user+system, from /proc) or wall has
// passed, whichever comes first; it stops watching when done is signalled by someone else (the channel is only peeked at
// through the process's disappearance from /proc).
func childCPUExpired(pid int, budget, wall time.Duration, done <-chan error) <-chan time.Time {
	ch := make(chan time.Time, 1)
	go func() {
		start := time.Now()
		lastTicks, lastMoved := int64(-1), time.Now()
		for {
			time.Sleep(500 * time.Millisecond)
			b, err := os.ReadFile(fmt.Sprintf("/proc/%d/stat", pid))
			if err != nil {
				return // gone
			}
			// fields after the parenthesised command name: state is field 3, utime 14, stime 15 (clock ticks, 100 per second)
			rest := string(b)
			if i := strings.LastIndexByte(rest, ')'); i >= 0 {
				rest = rest[i+1:]
			}
			f := strings.Fields(rest)
			if len(f) > 13 {
				ut, _ := strconv.ParseInt(f[11], 10, 64)
				st, _ := strconv.ParseInt(f[12], 10, 64)
				if time.Duration(ut+st)*10*time.Millisecond > budget {
					ch <- time.Now()
					return
				}
				// a child that has not used one tick of processor time for 90 s on end is blocked, not slow
				if ut+st != lastTicks {
					lastTicks, lastMoved = ut+st, time.Now()
				} else if time.Since(lastMoved) > 90*time.Second {
					ch <- time.Now()
					return
				}
			}
			if time.Since(start) > wall {
				ch <- time.Now()
				return
			}
		}
	}()
	return ch
}

func tailFile(path string, n int64) string {
	f, err := os.Open(path)
	if err != nil {
		return ""
	}
	defer f.Close()
	st, _ := f.Stat()
	if st.Size() > n {
		f.Seek(st.Size()-n, 0) //nolint
	}
	b := make([]byte, n)
	m, _ := f.Read(b)
	return string(b[:m])
}

func headFile(path string, n int) string {
	f, err := os.Open(path)
	if err != nil {
		return ""
	}
	defer f.Close()
	b := make([]byte, n)
	m, _ := f.Read(b)
	return string(b[:m])
}

// fatalClass reads a crashed worker's log and names the crash.
func fatalClass(logPath string, oc childOutcome) string {
	head := headFile(logPath, 20000)
	all := head + oc.logTail
	switch {
	case oc.timedOut:
		return "hang:" + innermostLibFrame(all)
	case strings.Contains(all, "stack overflow") || strings.Contains(all, "goroutine stack exceeds"):
		return "fatal:stack-overflow:" + innermostLibFrame(all)
	case strings.Contains(all, "concurrent map"):
		return "fatal:concurrent-map:" + innermostLibFrame(all)
	case strings.Contains(all, "VERIF-HEAP-WATCHDOG") || strings.Contains(all, "out of memory"):
		return "fatal:memory:" + innermostLibFrame(all)
	case strings.Contains(all, "checkptr"):
		return "fatal:checkptr:" + innermostLibFrame(all)
	case strings.Contains(all, "fatal error:"):
		i := strings.Index(all, "fatal error:")
		line := all[i:]
		if j := strings.IndexByte(line, '\n'); j >= 0 {
			line = line[:j]
		}
		return "fatal:" + clip(line, 60)
	case strings.Contains(all, "panic:"):
		return "fatal:uncaught-panic:" + innermostLibFrame(all)
	}
	return fmt.Sprintf("fatal:exit-%d", oc.exitCode)
}

func innermostLibFrame(dump string) string {
	sc := bufio.NewScanner(strings.NewReader(dump))
	sc.Buffer(make([]byte, 1<<20), 1<<20)
	for sc.Scan() {
		l := sc.Text()
		if strings.HasPrefix(l, libPath) && !strings.Contains(l, "/verifhook.") {
			if i := strings.LastIndexByte(l, '('); i > 0 {
				l = l[:i]
			}
			l = l[strings.LastIndex(l, "/")+1:]
			return strings.NewReplacer("(*", "", ")", "").Replace(l)
		}
	}
	return "unknown"
}

func lastJournalCase(path string) *Case {
	b, err := os.ReadFile(path)
	if err != nil || len(b) == 0 {
		return nil
	}
	b = bytes.TrimRight(b, "\n")
	i := bytes.LastIndexByte(b, '\n')
	var c Case
	if err := json.Unmarshal(b[i+1:], &c); err != nil {
		// last line may be torn: try the previous one
		if i > 0 {
			j := bytes.LastIndexByte(b[:i], '\n')
			if json.Unmarshal(b[j+1:i], &c) == nil {
				return &c
			}
		}
		return nil
	}
	return &c
}

func (d *driver) shardTimeout() time.Duration {
	s := d.mon.ShardTimeoutS
	if s == 0 {
		s = 1500
	}
	if d.tier != "quick" && s < 5400 {
		s = 5400 // a safety net only: a case that does not end is named by the worker's own watchdog, on processor time
	}
	return time.Duration(s) * time.Second
}

func (d *driver) runShard(shard, n int) {
	base := filepath.Join(d.tmp, fmt.Sprintf("shard%03d", shard))
	args := []string{"worker", d.mon.ID, d.tier, fmt.Sprint(d.seed), fmt.Sprint(shard), fmt.Sprint(n), base + ".json"}
	env := d.childEnv(base)
	os.Remove(base + ".stall.json")
	oc := d.runChild(args, env, base+".log", base+".json", d.shardTimeout())
	if oc.ok {
		d.merge(oc.res)
		return
	}
	var oc2 childOutcome
	var class, class2 string
	var culprit *Case
	jpath := base + ".journal"
	if sb, err := os.ReadFile(base + ".stall.json"); err == nil {
		// the worker's own watchdog saw one case running far beyond the length of a whole shard and named it:
		// confirm on that case alone, as for a shard deadline
		var c Case
		if json.Unmarshal(sb, &c) == nil {
			culprit = &c
		}
		oc.timedOut = true
		oc2 = oc
		class = fatalClass(base+".log", oc)
		class2 = class
	}
	if culprit == nil {
		class = fatalClass(base+".log", oc)
		os.Rename(base+".log", base+".crash1.log") //nolint
		// second run with the journal on, to name the culprit
		oc2 = d.runChild(args, append(env, "VERIF_JOURNAL="+jpath), base+".log", base+".json", d.shardTimeout())
		if oc2.ok {
			d.mu.Lock()
			d.merged.Inconclusive++
			d.merged.Counts["inconclusive:worker-crash-not-reproduced("+class+")"]++
			d.notes = append(d.notes, fmt.Sprintf("shard %d: %s on first run, clean on second", shard, class))
			d.mu.Unlock()
			d.merge(oc2.res)
			return
		}
		class2 = fatalClass(base+".log", oc2)
		if sb, err := os.ReadFile(base + ".stall.json"); err == nil {
			var c Case
			if json.Unmarshal(sb, &c) == nil {
				culprit = &c
				oc2.timedOut = true
				class2 = fatalClass(base+".log", oc2)
			}
		}
	}
	if culprit == nil {
		culprit = lastJournalCase(jpath)
	}
	if culprit == nil {
		d.mu.Lock()
		d.merged.HarnessBugs = append(d.merged.HarnessBugs, fmt.Sprintf("shard %d crashed twice (%s / %s) with no journal entry:\n%s", shard, class, class2, clip(oc2.logTail, 3000)))
		d.mu.Unlock()
		return
	}
	// confirm alone
	cpath := base + ".culprit.json"
	cb, _ := json.Marshal(culprit)
	os.WriteFile(cpath, cb, 0o644) //nolint
	rargs := []string{"replaycase", d.mon.ID, d.tier, fmt.Sprint(d.seed), cpath, base + ".replay.json"}
	if oc2.timedOut {
		hangs := 0
		for i := 0; i < 3; i++ {
			o := d.runChildBudget(rargs, env, base+".replay.log", base+".replay.json", 450*time.Second, 45*time.Second)
			if o.timedOut {
				hangs++
			}
		}
		if hangs < 3 {
			// the suspect ends when it runs alone: a slow case, not an endless one. The shard is played once more with ten
			// times the patience, so that what its other cases observe is not lost with it
			os.Remove(base + ".stall.json")
			oc3 := d.runChild(args, append(append([]string{}, env...), "VERIF_STALL_FACTOR=10"), base+".log", base+".json", d.shardTimeout())
			d.mu.Lock()
			if oc3.ok && oc3.res != nil {
				d.merged.Counts["watchdog-not-reproduced:shard-completed-with-more-patience"]++
				d.mu.Unlock()
				d.merge(oc3.res)
				return
			}
			d.merged.Inconclusive++
			d.merged.Counts["inconclusive:watchdog-not-reproduced"]++
			d.mu.Unlock()
			return
		}
	} else {
		o := d.runChild(rargs, env, base+".replay.log", base+".replay.json", 300*time.Second)
		if o.ok {
			// crashes only after the preceding cases: still a reproducible fatal exit of the shard
			class2 += ":after-history"
			if o.res != nil {
				d.merge(o.res)
			}
		}
	}
	v := &Violation{Property: d.mon.ID, Sig: d.mon.ID + ":" + class2, Case: culprit,
		Observed: "worker process died: " + class2, Expected: "returns normally", Detail: clip(oc2.logTail, 6000)}
	d.mu.Lock()
	d.merged.Violations = append(d.merged.Violations, v)
	d.merged.SigCounts[v.Sig]++
	d.mu.Unlock()
}

func (d *driver) childEnv(base string) []string {
	env := []string{"GOMAXPROCS=2", "GOTRACEBACK=all"}
	if d.mon.Race {
		env = []string{"GOTRACEBACK=all", "GORACE=halt_on_error=0 exitcode=0 history_size=3 log_path=" + base + ".race"}
	}
	return env
}

func (d *driver) merge(r *Result) {
	d.mu.Lock()
	d.merged.Merge(r)
	d.mu.Unlock()
}

func replayPath(prop, sig string, c *Case) string {
	h := sha1.New()
	h.Write([]byte(sig))
	b, _ := json.Marshal(c)
	h.Write(b)
	return filepath.Join(Root(), "replays", prop, hex.EncodeToString(h.Sum(nil))[:12]+".json")
}

type replayFile struct {
	Property  string `json:"property"`
	Signature string `json:"signature"`
	Seed      uint64 `json:"seed"`
	Tier      string `json:"tier"`
	Case      *Case  `json:"case"`
	Observed  string `json:"observed"`
	Expected  string `json:"expected"`
	Detail    string `json:"detail"`
}

// Drive runs a property's check end to end and returns the process exit code.
func Drive(id, tier string) int {
	mon := Lookup(id)
	if mon == nil {
		fmt.Fprintln(os.Stderr, "unknown property", id)
		return 2
	}
	t0 := time.Now()
	self, _ := os.Executable()
	d := &driver{mon: mon, tier: tier, seed: SeedFromEnv(), self: self, merged: NewResult()}
	d.tmp = filepath.Join(Root(), "evidence", "tmp", id+"-"+tier)
	os.RemoveAll(d.tmp)
	if err := os.MkdirAll(d.tmp, 0o755); err != nil {
		fmt.Fprintln(os.Stderr, err)
		return 2
	}
	os.MkdirAll(filepath.Join(Root(), "evidence"), 0o755) //nolint

	findings, err := loadFindings(id)
	if err != nil {
		fmt.Fprintln(os.Stderr, err)
		return 2
	}
	suppressed := map[string]*Finding{}
	// phase 0: witnesses of known findings and fixed entries
	for i, f := range findings {
		if f.Witness == nil {
			continue
		}
		base := filepath.Join(d.tmp, fmt.Sprintf("witness%03d", i))
		cb, _ := json.Marshal(f.Witness)
		os.WriteFile(base+".case.json", cb, 0o644) //nolint
		oc := d.runChild([]string{"replaycase", id, tier, fmt.Sprint(d.seed), base + ".case.json", base + ".json"}, d.childEnv(base), base+".log", base+".json", 300*time.Second)
		sigs := map[string]bool{}
		if oc.ok {
			for s := range oc.res.SigCounts {
				sigs[s] = true
			}
		} else {
			s := id + ":" + fatalClass(base+".log", oc)
			sigs[s] = true
			oc.res = NewResult()
			oc.res.Evaluations = 1
			oc.res.SigCounts[s] = 1
			oc.res.Violations = []*Violation{{Property: id, Sig: s, Case: f.Witness, Observed: "process died", Detail: clip(oc.logTail, 4000)}}
		}
		if f.Status == "finding" && sigs[f.Signature] {
			fmt.Printf("KNOWN-FINDING: property=%s %s [%s] %s\n", id, f.ID, f.Signature, f.What)
			suppressed[f.Signature] = f
		}
		d.merged.Counts["witness_replays"]++
		d.merge(oc.res)
	}

	// phase 1: shards
	n := mon.Shards(tier)
	par := mon.Parallel
	if par <= 0 {
		par = runtime.NumCPU()
	}
	if p := os.Getenv("VERIF_PAR"); p != "" {
		if v, err := strconv.Atoi(p); err == nil && v > 0 {
			par = v
		}
	}
	sem := make(chan struct{}, par)
	var wg sync.WaitGroup
	for s := 0; s < n; s++ {
		wg.Add(1)
		sem <- struct{}{}
		go func(s int) {
			defer wg.Done()
			defer func() { <-sem }()
			d.runShard(s, n)
		}(s)
	}
	wg.Wait()

	// race logs
	if mon.Race {
		d.collectRaceReports()
	}

	// phase 2: cross-worker post-processing
	if mon.Finish != nil {
		x := NewCtx(id, tier, d.seed, 0, 1)
		x.Res = d.merged
		x.Guard(func() { mon.Finish(x, d.merged) })
	}

	// phase 3: report
	m := d.merged
	firstBySig := map[string]*Violation{}
	for _, v := range m.Violations {
		if _, ok := firstBySig[v.Sig]; !ok {
			firstBySig[v.Sig] = v
		}
	}
	var sigs []string
	for s := range m.SigCounts {
		sigs = append(sigs, s)
	}
	sort.Strings(sigs)
	unsuppressed := 0
	knownInstances := map[string]int64{}
	var violationSummaries []map[string]interface{}
	for _, s := range sigs {
		if f, ok := suppressed[s]; ok {
			knownInstances[f.ID] = m.SigCounts[s]
			continue
		}
		unsuppressed++
		v := firstBySig[s]
		if v == nil {
			v = &Violation{Property: id, Sig: s}
		}
		p := replayPath(id, s, v.Case)
		os.MkdirAll(filepath.Dir(p), 0o755) //nolint
		rb, _ := json.MarshalIndent(replayFile{Property: id, Signature: s, Seed: d.seed, Tier: tier, Case: v.Case, Observed: v.Observed, Expected: v.Expected, Detail: v.Detail}, "", " ")
		os.WriteFile(p, rb, 0o644) //nolint
		if unsuppressed <= 40 {
			fmt.Printf("VIOLATION property=%s replay=%s\n", id, p)
			fmt.Fprintf(os.Stderr, "  signature=%s count=%d observed=%s expected=%s\n", s, m.SigCounts[s], clip(v.Observed, 300), clip(v.Expected, 300))
		}
		if len(violationSummaries) < 40 {
			violationSummaries = append(violationSummaries, map[string]interface{}{"signature": s, "count": m.SigCounts[s], "replay": p})
		}
	}

	broken := false
	var brokenWhy []string
	if len(m.HarnessBugs) > 0 {
		broken = true
		hb := m.HarnessBugs
		if len(hb) > 2 {
			hb = hb[:2]
		}
		brokenWhy = append(brokenWhy, fmt.Sprintf("%d harness bug reports, first: %s", len(m.HarnessBugs), clip(strings.Join(hb, "\n---\n"), 3000)))
	}
	if mon.MinEvaluations != nil && m.Evaluations < mon.MinEvaluations(tier) {
		broken = true
		brokenWhy = append(brokenWhy, fmt.Sprintf("only %d evaluations, expected at least %d", m.Evaluations, mon.MinEvaluations(tier)))
	}
	for _, k := range mon.RequiredCounts {
		if m.Counts[k] == 0 {
			broken = true
			brokenWhy = append(brokenWhy, "required counter is zero: "+k)
		}
	}

	// evidence
	dsizes := map[string]int{}
	for k, set := range m.Distinct {
		dsizes[k] = len(set)
	}
	distinct := int64(0)
	for _, k := range mon.DistinctClasses {
		distinct += int64(dsizes[k])
	}
	if len(mon.DistinctClasses) == 0 {
		distinct = m.Nontrivial // cases distinct by construction, counted when non-trivial
	}
	if distinct > m.Evaluations {
		distinct = m.Evaluations
	}
	samples := make([]interface{}, 0, len(m.Samples))
	for _, s := range m.Samples {
		samples = append(samples, s)
	}
	if len(samples) == 0 {
		samples = append(samples, "no sample recorded")
	}
	cov := map[string]interface{}{
		"evaluations":             m.Evaluations,
		"distinct_nontrivial":     distinct,
		"rule":                    mon.Rule,
		"samples":                 samples,
		"counters":                m.Counts,
		"nontrivial_cases":        m.Nontrivial,
		"distinct_class_sizes":    dsizes,
		"max":                     m.Max,
		"inconclusive":            m.Inconclusive,
		"known_finding_instances": knownInstances,
		"violation_signatures":    violationSummaries,
		"shards":                  n,
		"parallel_workers":        par,
		"notes":                   d.notes,
		"go_version":              runtime.Version(),
		"broken":                  brokenWhy,
	}
	if mon.Exhaustive != nil && mon.Exhaustive(tier) {
		cov["exhaustive"] = true
	}
	ev := map[string]interface{}{
		"property_id": id,
		"tier":        tier,
		"seed":        int64(d.seed),
		"level":       "exploration",
		"coverage":    cov,
		"assumptions": mon.Assumptions,
		"wall_s":      time.Since(t0).Seconds(),
		"violations":  unsuppressed,
	}
	eb, _ := json.MarshalIndent(ev, "", " ")
	if err := os.WriteFile(filepath.Join(Root(), "evidence", id+".json"), eb, 0o644); err != nil {
		fmt.Fprintln(os.Stderr, err)
		return 2
	}
	fmt.Printf("%s %s seed=%d: evaluations=%d distinct_nontrivial=%d violations=%d known=%d inconclusive=%d wall=%.1fs\n",
		id, tier, d.seed, m.Evaluations, distinct, unsuppressed, len(knownInstances), m.Inconclusive, time.Since(t0).Seconds())
	if unsuppressed > 0 {
		return 1
	}
	if broken {
		fmt.Fprintf(os.Stderr, "BROKEN-CHECK %s: %s\n", id, strings.Join(brokenWhy, "; "))
		return 2
	}
	if os.Getenv("VERIF_KEEP_TMP") == "" {
		os.RemoveAll(d.tmp)
	}
	return 0
}

// ReplayMain: vcheck replay <id> <replay-file>; exit 1 + VIOLATION line if it still fails.
func ReplayMain(args []string) int {
	if len(args) != 2 {
		fmt.Fprintln(os.Stderr, "usage: replay id file")
		return 2
	}
	id := args[0]
	mon := Lookup(id)
	if mon == nil {
		return 2
	}
	b, err := os.ReadFile(args[1])
	if err != nil {
		fmt.Fprintln(os.Stderr, err)
		return 2
	}
	var rf replayFile
	if err := json.Unmarshal(b, &rf); err != nil || rf.Case == nil {
		fmt.Fprintln(os.Stderr, "bad replay file")
		return 2
	}
	self, _ := os.Executable()
	tier := rf.Tier
	if tier == "" {
		tier = "quick"
	}
	d := &driver{mon: mon, tier: tier, seed: rf.Seed, self: self, merged: NewResult()}
	d.tmp = filepath.Join(Root(), "evidence", "tmp", id+"-replay")
	os.MkdirAll(d.tmp, 0o755) //nolint
	base := filepath.Join(d.tmp, "replay")
	cb, _ := json.Marshal(rf.Case)
	os.WriteFile(base+".case.json", cb, 0o644) //nolint
	oc := d.runChild([]string{"replaycase", id, tier, fmt.Sprint(rf.Seed), base + ".case.json", base + ".json"}, d.childEnv(base), base+".log", base+".json", 300*time.Second)
	failed := false
	if !oc.ok {
		failed = true
		fmt.Fprintf(os.Stderr, "replay died: %s\n", fatalClass(base+".log", oc))
	} else {
		for s, n := range oc.res.SigCounts {
			fmt.Fprintf(os.Stderr, "  signature=%s count=%d\n", s, n)
			failed = true
		}
		for _, v := range oc.res.Violations {
			fmt.Fprintf(os.Stderr, "  observed=%s\n  expected=%s\n", clip(v.Observed, 600), clip(v.Expected, 600))
		}
		if len(oc.res.HarnessBugs) > 0 {
			fmt.Fprintln(os.Stderr, strings.Join(oc.res.HarnessBugs, "\n"))
			return 2
		}
	}
	if failed {
		fmt.Printf("VIOLATION property=%s replay=%s\n", id, args[1])
		return 1
	}
	fmt.Printf("%s replay: no violation\n", id)
	return 0
}

// collectRaceReports parses race-detector logs written by the workers.
func (d *driver) collectRaceReports() {
	files, _ := filepath.Glob(filepath.Join(d.tmp, "*.race.*"))
	for _, f := range files {
		b, err := os.ReadFile(f)
		if err != nil {
			continue
		}
		blocks := strings.Split(string(b), "==================")
		for _, blk := range blocks {
			if !strings.Contains(blk, "WARNING: DATA RACE") {
				continue
			}
			d.merged.Counts["race_reports"]++
			sig := raceSignature(blk)
			if !strings.Contains(blk, libPath) {
				// a race entirely inside the harness: the monitor is broken, not the library
				d.merged.HarnessBugs = append(d.merged.HarnessBugs, "data race inside the harness:\n"+clip(blk, 3000))
				continue
			}
			v := &Violation{Property: d.mon.ID, Sig: d.mon.ID + ":race:" + sig, Case: NewCase("race-report", "log", filepath.Base(f)),
				Observed: "WARNING: DATA RACE", Expected: "no data race", Detail: clip(blk, 6000)}
			d.merged.SigCounts[v.Sig]++
			d.merged.Violations = append(d.merged.Violations, v)
		}
	}
}

// raceSignature: the first library frame of each of the two accesses, line numbers stripped.
func raceSignature(blk string) string {
	var frames []string
	sections := strings.Split(blk, "\n\n")
	for _, sec := range sections {
		t := strings.TrimSpace(sec)
		if strings.HasPrefix(t, "WARNING: DATA RACE") {
			t = strings.TrimSpace(strings.TrimPrefix(t, "WARNING: DATA RACE"))
		}
		if !(strings.HasPrefix(t, "Read at") || strings.HasPrefix(t, "Write at") || strings.HasPrefix(t, "Previous read at") || strings.HasPrefix(t, "Previous write at")) {
			continue
		}
		kind := "read"
		if strings.Contains(strings.SplitN(t, "\n", 2)[0], "rite") {
			kind = "write"
		}
		fr := "nonlib"
		for _, l := range strings.Split(t, "\n") {
			l = strings.TrimSpace(l)
			if strings.HasPrefix(l, libPath) && !strings.Contains(l, "/verifhook.") {
				if i := strings.IndexByte(l, '('); i > 0 {
					l = l[:i]
				}
				fr = l[strings.LastIndex(l, "/")+1:]
				break
			}
		}
		frames = append(frames, kind+"@"+fr)
	}
	sort.Strings(frames)
	return strings.Join(frames, "|")
}
