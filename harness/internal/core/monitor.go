package core

import "sort"

// Monitor describes one property's check.
type Monitor struct {
	ID          string
	Rule        string   // evidence: how cases are generated and what makes one non-trivial
	Assumptions []string // evidence: what the check assumes or trusts
	// Shards returns the number of worker shards for a tier (case lists are a fixed
	// function of tier and seed).
	Shards func(tier string) int
	// Run executes shard `x.Shard` of `x.NShards`.
	Run func(x *Ctx)
	// Check re-executes one recorded case (replay files, known-finding witnesses, crash confirmation).
	Check func(x *Ctx, c *Case)
	// DistinctClasses are the diversity classes whose cardinalities are summed (with the
	// Nontrivial counter) into distinct_nontrivial.
	DistinctClasses []string
	// MinEvaluations guards against a silently empty workload (exit 2).
	MinEvaluations func(tier string) int64
	// RequiredCounts: counters that must be non-zero for the run to be meaningful.
	RequiredCounts []string
	// Parallel is the number of concurrent workers (default: number of CPUs).
	Parallel int
	// MaxStackMB lowers debug.SetMaxStack in workers (0: 256).
	MaxStackMB int
	// ShardTimeoutS is the per-worker watchdog (default 1500 s).
	ShardTimeoutS int
	CaseStallS    int // seconds one case may run inside a worker before the worker names it and quits (0 = 30 quick / 150 thorough, <0 = off); the hang verdict is taken by replaying the case alone
	// Exhaustive: the tier enumerates a finite space completely (evidence only).
	Exhaustive func(tier string) bool
	// Finish lets the monitor post-process the merged result in the driver (cross-worker
	// comparisons such as C10's process axis). It may add violations.
	Finish func(x *Ctx, merged *Result)
	// Race: build and run with the race detector.
	Race bool
}

var registry = map[string]*Monitor{}

func Register(m *Monitor) { registry[m.ID] = m }

func Lookup(id string) *Monitor { return registry[id] }

func IDs() []string {
	ids := make([]string, 0, len(registry))
	for k := range registry {
		ids = append(ids, k)
	}
	sort.Strings(ids)
	return ids
}
