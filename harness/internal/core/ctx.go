package core

import (
	"encoding/json"
	"fmt"
	"os"
	"runtime"
	"strings"
	"sync/atomic"
	"syscall"
	"time"
)

// Ctx is the per-worker monitoring context. It is not safe for concurrent use;
// concurrent monitors (C11) keep per-goroutine state and report after joining.
type Ctx struct {
	Prop    string
	Tier    string
	Seed    uint64
	Shard   int
	NShards int
	Res     *Result

	cur     *Case
	lite    [3]string // kind, key, value of a lightweight case (materialised on demand)
	hasLite bool
	journal *os.File
	seq     atomic.Uint64 // +1 on entering and on leaving a case
	perSig  map[string]int
	// OnPanic lets a monitor translate library-specific panic values (step budget).
	OnPanic func(v interface{}) (sig string, ok bool)
}

func NewCtx(prop, tier string, seed uint64, shard, nshards int) *Ctx {
	return &Ctx{Prop: prop, Tier: tier, Seed: seed, Shard: shard, NShards: nshards, Res: NewResult(), perSig: map[string]int{}}
}

func (x *Ctx) Quick() bool { return x.Tier != "thorough" }

// Rand derives a stream for this property, shard-independent unless the shard is
// passed as a stream id.
func (x *Ctx) Rand(stream ...uint64) *Rand {
	return NewRand(x.Seed, append([]uint64{HashString(x.Prop)}, stream...)...)
}

func (x *Ctx) OpenJournal(path string) error {
	f, err := os.OpenFile(path, os.O_CREATE|os.O_TRUNC|os.O_WRONLY, 0o644)
	if err != nil {
		return err
	}
	x.journal = f
	return nil
}

func (x *Ctx) Count(k string)           { x.Res.Counts[k]++ }
func (x *Ctx) CountN(k string, n int64) { x.Res.Counts[k] += n }
func (x *Ctx) Nontrivial()              { x.Res.Nontrivial++ }
func (x *Ctx) Inconclusive(why string)  { x.Res.Inconclusive++; x.Res.Counts["inconclusive:"+why]++ }
func (x *Ctx) Current() *Case {
	if x.cur == nil && x.hasLite {
		x.cur = NewCase(x.lite[0], x.lite[1], x.lite[2])
	}
	return x.cur
}
func (x *Ctx) SetCurrent(c *Case) { x.cur = c }
func (x *Ctx) HarnessBug(msg string) {
	if len(x.Res.HarnessBugs) < 2 {
		x.Res.HarnessBugs = append(x.Res.HarnessBugs, msg)
	}
	x.Res.Counts["harness_bug"]++
}

func (x *Ctx) Max(k string, v int64) {
	if v > x.Res.Max[k] {
		x.Res.Max[k] = v
	}
}

// Distinct records key in a diversity class; classes are small vocabularies.
func (x *Ctx) Distinct(class, key string) {
	set := x.Res.Distinct[class]
	if set == nil {
		set = map[string]struct{}{}
		x.Res.Distinct[class] = set
	}
	if len(set) < 200000 {
		set[key] = struct{}{}
	}
}

// Sample keeps a few concrete cases for the evidence file.
func (x *Ctx) Sample(v interface{}) {
	if len(x.Res.Samples) >= 4 {
		return
	}
	b, err := json.Marshal(v)
	if err == nil {
		x.Res.Samples = append(x.Res.Samples, b)
	}
}

func (x *Ctx) WantSample() bool { return len(x.Res.Samples) < 4 }

// Violate records a refuting observation for the current case.
func (x *Ctx) Violate(sig, observed, expected string) {
	x.ViolateDetail(sig, observed, expected, "")
}

func clip(s string, n int) string {
	if len(s) > n {
		return s[:n] + "…"
	}
	return s
}

func (x *Ctx) ViolateDetail(sig, observed, expected, detail string) {
	sig = x.Prop + ":" + sig
	x.Res.SigCounts[sig]++
	x.perSig[sig]++
	if x.perSig[sig] > 2 || len(x.Res.Violations) > 400 {
		return
	}
	var cc *Case
	x.Current()
	if x.cur != nil {
		cp := *x.cur
		cp.In = map[string]Str{}
		for k, v := range x.cur.In {
			cp.In[k] = v
		}
		cc = &cp
	}
	x.Res.Violations = append(x.Res.Violations, &Violation{
		Property: x.Prop, Sig: sig, Case: cc,
		Observed: clip(observed, 4000), Expected: clip(expected, 4000), Detail: clip(detail, 6000),
	})
}

// Do runs one case under the crash monitor: journal first, then f under recover.
func (x *Ctx) Do(c *Case, f func()) {
	x.cur = c
	x.hasLite = false
	x.Res.Evaluations++
	x.seq.Add(1) // odd: inside a case
	defer x.seq.Add(1)
	if x.journal != nil {
		b, _ := json.Marshal(c)
		b = append(b, '\n')
		x.journal.Write(b) //nolint
	}
	x.Guard(f)
}

// DoLite is Do for single-input cases in hot enumeration loops: the Case object is only
// built when something is reported (or when journaling).
func (x *Ctx) DoLite(kind, key, val string, f func()) {
	x.cur = nil
	x.lite = [3]string{kind, key, val}
	x.hasLite = true
	x.Res.Evaluations++
	x.seq.Add(1)
	if x.journal != nil {
		b, _ := json.Marshal(x.Current())
		b = append(b, '\n')
		x.journal.Write(b) //nolint
	}
	x.Guard(f)
	x.hasLite = false
	x.seq.Add(1)
}

// StartStallWatchdog watches the case counter: when one case has been running for about limit (the counter is odd and has
// not moved over that many seconds of samples), the case is written to path and the process sends itself SIGQUIT, so the
// log gets the goroutine dump and the driver can confirm the hang on that case alone instead of waiting for the shard's
// deadline. The verdict is not taken here: the driver replays the case in fresh processes.
func (x *Ctx) StartStallWatchdog(limit time.Duration, path string) {
	go func() {
		// the limit is on the processor time this process has used while inside one case (a loaded machine stretches the
		// clock, not the work); ten times the limit on the clock catches a case that is blocked without using any
		const step = 2 * time.Second
		cpu := func() time.Duration {
			var ru syscall.Rusage
			if syscall.Getrusage(syscall.RUSAGE_SELF, &ru) != nil {
				return 0
			}
			return time.Duration(ru.Utime.Nano() + ru.Stime.Nano())
		}
		// ... and a case during which the whole process has used no processor time at all for a minute on end is blocked,
		// not slow (a starved process on an oversubscribed machine still gets its share every few seconds): it is named
		// after that minute instead of after ten times the limit (after seeded change C01-wave10-C, a call that never
		// returns and never spins)
		const idleLimit = 60 * time.Second
		last, since, wall, idle, prev := x.seq.Load(), time.Duration(0), time.Duration(0), time.Duration(0), cpu()
		for {
			time.Sleep(step)
			cur, now := x.seq.Load(), cpu()
			used := now - prev
			prev = now
			if cur != last || cur%2 == 0 {
				last, since, wall, idle = cur, 0, 0, 0
				continue
			}
			if used < 5*time.Millisecond {
				idle += step
			} else {
				idle = 0
			}
			if used > step*4 {
				used = step * 4 // many goroutines on many cores: count the round, not the cores
			}
			since += used
			wall += step
			if since < limit && wall < 10*limit && idle < idleLimit {
				continue
			}
			// the main goroutine last wrote the case before the Add we observed and has not left it since
			if b, err := json.Marshal(x.Current()); err == nil {
				os.WriteFile(path, b, 0o644) //nolint
			}
			fmt.Fprintf(os.Stderr, "VERIF-STALL-WATCHDOG: one case running for %v\n", since)
			syscall.Kill(os.Getpid(), syscall.SIGQUIT) //nolint
			time.Sleep(20 * time.Second)
			os.Exit(98)
		}
	}()
}

// Guard runs f and converts a panic into a violation (library frame on top) or a
// harness bug (harness frame on top).
func (x *Ctx) Guard(f func()) (panicked bool) {
	defer func() {
		if v := recover(); v != nil {
			panicked = true
			x.handlePanic(v)
		}
	}()
	f()
	return false
}

const libPath = "github.com/vektah/gqlparser/v2"

func isStdlib(fn string) bool {
	// stdlib function names have no dot in their first path element
	slash := strings.IndexByte(fn, '/')
	first := fn
	if slash >= 0 {
		first = fn[:slash]
		return !strings.Contains(first, ".")
	}
	// no slash: "runtime.gopanic", "reflect.Value.Type", "main.main"
	return !strings.HasPrefix(fn, "main.")
}

func (x *Ctx) handlePanic(v interface{}) {
	pcs := make([]uintptr, 64)
	n := runtime.Callers(3, pcs)
	frames := runtime.CallersFrames(pcs[:n])
	var stack []string
	top := ""
	topIsLib := false
	seenPanic := false
	for {
		fr, more := frames.Next()
		stack = append(stack, fmt.Sprintf("%s %s:%d", fr.Function, shortFile(fr.File), fr.Line))
		if fr.Function == "runtime.gopanic" || fr.Function == "runtime.panicmem" || fr.Function == "runtime.sigpanic" {
			seenPanic = true
			top = ""
		} else if seenPanic && top == "" && !isStdlib(fr.Function) {
			top = fr.Function
			topIsLib = strings.Contains(fr.Function, libPath) && !strings.Contains(fr.Function, "/verifhook.")
			if strings.Contains(fr.Function, "/verifhook.") {
				top = "" // look below the hook for the real site
			}
		}
		if !more || len(stack) > 40 {
			break
		}
	}
	msg := fmt.Sprint(v)
	if x.OnPanic != nil {
		if sig, ok := x.OnPanic(v); ok {
			x.ViolateDetail(sig, msg, "returns normally", strings.Join(stack, "\n"))
			return
		}
	}
	if !topIsLib {
		x.HarnessBug(fmt.Sprintf("panic in harness: %s at %s\n%s", clip(msg, 300), top, strings.Join(stack, "\n")))
		return
	}
	short := top[strings.LastIndex(top, "/")+1:]
	x.ViolateDetail("panic:"+short+":"+PanicClass(msg), msg, "returns normally", strings.Join(stack, "\n"))
}

func shortFile(f string) string {
	if i := strings.LastIndex(f, "/"); i >= 0 {
		if j := strings.LastIndex(f[:i], "/"); j >= 0 {
			return f[j+1:]
		}
	}
	return f
}

// PanicClass maps a panic message to a closed vocabulary.
func PanicClass(msg string) string {
	switch {
	case strings.Contains(msg, "nil pointer dereference"):
		return "nil-deref"
	case strings.Contains(msg, "index out of range"):
		return "index"
	case strings.Contains(msg, "slice bounds out of range"):
		return "slice-bounds"
	case strings.Contains(msg, "reflect:") || strings.Contains(msg, "reflect."):
		return "reflect"
	case strings.Contains(msg, "interface conversion"):
		return "type-assertion"
	case strings.Contains(msg, "assignment to entry in nil map"):
		return "nil-map"
	case strings.Contains(msg, "divide by zero"):
		return "div-zero"
	}
	m := msg
	// normalise digits so that numerals in messages do not split classes
	b := []byte(m)
	for i, c := range b {
		if c >= '0' && c <= '9' {
			b[i] = 'N'
		}
	}
	return "explicit(" + clip(string(b), 40) + ")"
}
