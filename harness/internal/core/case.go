package core

import (
	"encoding/base64"
	"encoding/json"
	"sort"
	"unicode/utf8"
)

// Str is a byte string that survives JSON: valid UTF-8 is written as a JSON
// string, anything else as {"b64": "..."}.
type Str string

func (s Str) MarshalJSON() ([]byte, error) {
	if utf8.ValidString(string(s)) {
		return json.Marshal(string(s))
	}
	return json.Marshal(map[string]string{"b64": base64.StdEncoding.EncodeToString([]byte(s))})
}

func (s *Str) UnmarshalJSON(b []byte) error {
	var plain string
	if err := json.Unmarshal(b, &plain); err == nil {
		*s = Str(plain)
		return nil
	}
	var m map[string]string
	if err := json.Unmarshal(b, &m); err != nil {
		return err
	}
	raw, err := base64.StdEncoding.DecodeString(m["b64"])
	if err != nil {
		return err
	}
	*s = Str(raw)
	return nil
}

// Case is one self-contained unit of checking: the sub-check to run and its inputs.
// Replay files store a Case verbatim, so replaying never depends on a generator.
type Case struct {
	Kind string         `json:"kind"`
	In   map[string]Str `json:"in"`
}

func NewCase(kind string, kv ...string) *Case {
	c := &Case{Kind: kind, In: make(map[string]Str, len(kv)/2)}
	for i := 0; i+1 < len(kv); i += 2 {
		c.In[kv[i]] = Str(kv[i+1])
	}
	return c
}

func (c *Case) Get(k string) string { return string(c.In[k]) }

func (c *Case) Has(k string) bool { _, ok := c.In[k]; return ok }

func (c *Case) Set(k, v string) *Case { c.In[k] = Str(v); return c }

func (c *Case) Keys() []string {
	ks := make([]string, 0, len(c.In))
	for k := range c.In {
		ks = append(ks, k)
	}
	sort.Strings(ks)
	return ks
}

// Violation is a refuting observation.
type Violation struct {
	Property string `json:"property"`
	Sig      string `json:"signature"`
	Case     *Case  `json:"case"`
	Observed string `json:"observed,omitempty"`
	Expected string `json:"expected,omitempty"`
	Detail   string `json:"detail,omitempty"`
}

// Result is what one worker (or a replay) hands back to the driver.
type Result struct {
	Evaluations  int64                          `json:"evaluations"`
	Nontrivial   int64                          `json:"nontrivial"`
	Counts       map[string]int64               `json:"counts"`
	Distinct     map[string]map[string]struct{} `json:"-"`
	DistinctList map[string][]string            `json:"distinct"`
	Samples      []json.RawMessage              `json:"samples"`
	Violations   []*Violation                   `json:"violations"`
	SigCounts    map[string]int64               `json:"sig_counts"`
	Inconclusive int64                          `json:"inconclusive"`
	HarnessBugs  []string                       `json:"harness_bugs"`
	Max          map[string]int64               `json:"max"`
}

func NewResult() *Result {
	return &Result{
		Counts:    map[string]int64{},
		Distinct:  map[string]map[string]struct{}{},
		SigCounts: map[string]int64{},
		Max:       map[string]int64{},
	}
}

func (r *Result) freeze() {
	r.DistinctList = map[string][]string{}
	for k, set := range r.Distinct {
		l := make([]string, 0, len(set))
		for s := range set {
			l = append(l, s)
		}
		sort.Strings(l)
		r.DistinctList[k] = l
	}
}

func (r *Result) thaw() {
	if r.Counts == nil {
		r.Counts = map[string]int64{}
	}
	if r.SigCounts == nil {
		r.SigCounts = map[string]int64{}
	}
	if r.Max == nil {
		r.Max = map[string]int64{}
	}
	r.Distinct = map[string]map[string]struct{}{}
	for k, l := range r.DistinctList {
		set := make(map[string]struct{}, len(l))
		for _, s := range l {
			set[s] = struct{}{}
		}
		r.Distinct[k] = set
	}
}

// Merge folds another result into r.
func (r *Result) Merge(o *Result) {
	r.Evaluations += o.Evaluations
	r.Nontrivial += o.Nontrivial
	r.Inconclusive += o.Inconclusive
	for k, v := range o.Counts {
		r.Counts[k] += v
	}
	for k, v := range o.SigCounts {
		r.SigCounts[k] += v
	}
	for k, v := range o.Max {
		if v > r.Max[k] {
			r.Max[k] = v
		}
	}
	for k, set := range o.Distinct {
		dst := r.Distinct[k]
		if dst == nil {
			dst = map[string]struct{}{}
			r.Distinct[k] = dst
		}
		for s := range set {
			dst[s] = struct{}{}
		}
	}
	for _, s := range o.Samples {
		if len(r.Samples) < 12 {
			r.Samples = append(r.Samples, s)
		}
	}
	r.Violations = append(r.Violations, o.Violations...)
	r.HarnessBugs = append(r.HarnessBugs, o.HarnessBugs...)
}
