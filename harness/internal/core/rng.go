package core

// Rand is a splitmix64 generator. Every random choice of every workload derives
// from (VERIF_SEED, property, stream...), so a case list is a function of the seed.
type Rand struct{ s uint64 }

func mix(z uint64) uint64 {
	z += 0x9e3779b97f4a7c15
	z = (z ^ (z >> 30)) * 0xbf58476d1ce4e5b9
	z = (z ^ (z >> 27)) * 0x94d049bb133111eb
	return z ^ (z >> 31)
}

// NewRand derives an independent stream from a seed and a list of stream ids.
func NewRand(seed uint64, stream ...uint64) *Rand {
	s := mix(seed ^ 0x5851f42d4c957f2d)
	for _, x := range stream {
		s = mix(s ^ mix(x+0x1234567))
	}
	return &Rand{s: s}
}

// HashString is FNV-1a 64, used to turn names into stream ids.
func HashString(s string) uint64 {
	h := uint64(14695981039346656037)
	for i := 0; i < len(s); i++ {
		h ^= uint64(s[i])
		h *= 1099511628211
	}
	return h
}

func (r *Rand) Uint64() uint64 {
	r.s += 0x9e3779b97f4a7c15
	z := r.s
	z = (z ^ (z >> 30)) * 0xbf58476d1ce4e5b9
	z = (z ^ (z >> 27)) * 0x94d049bb133111eb
	return z ^ (z >> 31)
}

// Intn returns a value in [0,n). n<=0 yields 0.
func (r *Rand) Intn(n int) int {
	if n <= 1 {
		return 0
	}
	return int(r.Uint64() % uint64(n))
}

// Range returns a value in [lo,hi].
func (r *Rand) Range(lo, hi int) int {
	if hi <= lo {
		return lo
	}
	return lo + r.Intn(hi-lo+1)
}

// Chance is true with probability num/den.
func (r *Rand) Chance(num, den int) bool { return r.Intn(den) < num }

func (r *Rand) Bool() bool { return r.Uint64()&1 == 1 }

// Pick returns one of the strings.
func (r *Rand) Pick(xs ...string) string {
	if len(xs) == 0 {
		return ""
	}
	return xs[r.Intn(len(xs))]
}

// Perm returns a random permutation of [0,n).
func (r *Rand) Perm(n int) []int {
	p := make([]int, n)
	for i := range p {
		p[i] = i
	}
	for i := n - 1; i > 0; i-- {
		j := r.Intn(i + 1)
		p[i], p[j] = p[j], p[i]
	}
	return p
}

// Fork derives a child stream.
func (r *Rand) Fork(id uint64) *Rand { return &Rand{s: mix(r.Uint64() ^ mix(id))} }
