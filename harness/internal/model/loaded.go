package model

import (
	"fmt"
	"sort"
	"strings"

	"github.com/vektah/gqlparser/v2/ast"
)

// CanonOpts selects what a canonical dump of a loaded schema contains.
type CanonOpts struct {
	FieldsAsSets bool // C17: fields, enum values, members, interfaces and directive applications as sorted (multi)sets
	NoDesc       bool // descriptions left out
	NoBuiltins   bool // built-in types and directives (prelude) and the injected introspection fields left out
	NoRelations  bool // PossibleTypes / Implements left out
}

func canonASTDirs(ds ast.DirectiveList, sorted bool) string {
	var l []string
	for _, d := range ds {
		var b strings.Builder
		b.WriteString("@" + d.Name + "(")
		for _, a := range d.Arguments {
			b.WriteString(a.Name + ":" + ValueFromAST(a.Value).CanonString() + ";")
		}
		b.WriteString(")")
		l = append(l, b.String())
	}
	if sorted {
		sort.Strings(l)
	}
	return strings.Join(l, " ")
}

func canonASTArgs(as ast.ArgumentDefinitionList, o CanonOpts) string {
	var b strings.Builder
	for _, a := range as {
		b.WriteString(a.Name + ":" + a.Type.String())
		if a.DefaultValue != nil {
			b.WriteString("=" + ValueFromAST(a.DefaultValue).CanonString())
		}
		if !o.NoDesc && a.Description != "" {
			fmt.Fprintf(&b, " desc=%q", a.Description)
		}
		if s := canonASTDirs(a.Directives, o.FieldsAsSets); s != "" {
			b.WriteString(" " + s)
		}
		b.WriteString("; ")
	}
	return b.String()
}

// CanonSchema dumps a loaded schema canonically: two schemas are "the same schema" for a property
// iff their dumps under that property's options are equal.
func CanonSchema(s *ast.Schema, o CanonOpts) string {
	var b strings.Builder
	root := func(op string, d *ast.Definition) {
		if d != nil {
			fmt.Fprintf(&b, "root %s: %s\n", op, d.Name)
		}
	}
	root("query", s.Query)
	root("mutation", s.Mutation)
	root("subscription", s.Subscription)
	if !o.NoDesc && s.Description != "" {
		fmt.Fprintf(&b, "schema desc=%q\n", s.Description)
	}
	if ds := canonASTDirs(s.SchemaDirectives, o.FieldsAsSets); ds != "" {
		fmt.Fprintf(&b, "schema dirs %s\n", ds)
	}
	var dn []string
	for n := range s.Directives {
		dn = append(dn, n)
	}
	sort.Strings(dn)
	for _, n := range dn {
		d := s.Directives[n]
		if d == nil {
			fmt.Fprintf(&b, "directive %s <nil>\n", n)
			continue
		}
		if o.NoBuiltins && d.Position != nil && d.Position.Src != nil && d.Position.Src.BuiltIn {
			continue
		}
		fmt.Fprintf(&b, "directive @%s(%s) repeatable=%v on ", n, canonASTArgs(d.Arguments, o), d.IsRepeatable)
		var locs []string
		for _, l := range d.Locations {
			locs = append(locs, string(l))
		}
		if o.FieldsAsSets {
			sort.Strings(locs)
		}
		b.WriteString(strings.Join(locs, "|"))
		if !o.NoDesc && d.Description != "" {
			fmt.Fprintf(&b, " desc=%q", d.Description)
		}
		b.WriteString("\n")
	}
	var tn []string
	for n := range s.Types {
		tn = append(tn, n)
	}
	sort.Strings(tn)
	for _, n := range tn {
		d := s.Types[n]
		if d == nil {
			fmt.Fprintf(&b, "type %s <nil>\n", n)
			continue
		}
		if o.NoBuiltins && d.BuiltIn {
			continue
		}
		fmt.Fprintf(&b, "%s %s", d.Kind, d.Name)
		if !o.NoDesc && d.Description != "" {
			fmt.Fprintf(&b, " desc=%q", d.Description)
		}
		in := append([]string{}, d.Interfaces...)
		mb := append([]string{}, d.Types...)
		if o.FieldsAsSets {
			sort.Strings(in)
			sort.Strings(mb)
		}
		if len(in) > 0 {
			b.WriteString(" implements " + strings.Join(in, "&"))
		}
		if len(mb) > 0 {
			b.WriteString(" = " + strings.Join(mb, "|"))
		}
		if ds := canonASTDirs(d.Directives, o.FieldsAsSets); ds != "" {
			b.WriteString(" " + ds)
		}
		b.WriteString("\n")
		var fl []string
		for _, f := range d.Fields {
			if o.NoBuiltins && strings.HasPrefix(f.Name, "__") {
				continue
			}
			var fb strings.Builder
			fmt.Fprintf(&fb, "  field %s(%s): %s", f.Name, canonASTArgs(f.Arguments, o), f.Type.String())
			if f.DefaultValue != nil {
				fb.WriteString(" = " + ValueFromAST(f.DefaultValue).CanonString())
			}
			if !o.NoDesc && f.Description != "" {
				fmt.Fprintf(&fb, " desc=%q", f.Description)
			}
			if ds := canonASTDirs(f.Directives, o.FieldsAsSets); ds != "" {
				fb.WriteString(" " + ds)
			}
			fl = append(fl, fb.String())
		}
		var vl []string
		for _, v := range d.EnumValues {
			var vb strings.Builder
			fmt.Fprintf(&vb, "  value %s", v.Name)
			if !o.NoDesc && v.Description != "" {
				fmt.Fprintf(&vb, " desc=%q", v.Description)
			}
			if ds := canonASTDirs(v.Directives, o.FieldsAsSets); ds != "" {
				vb.WriteString(" " + ds)
			}
			vl = append(vl, vb.String())
		}
		if o.FieldsAsSets {
			sort.Strings(fl)
			sort.Strings(vl)
		}
		for _, l := range fl {
			b.WriteString(l + "\n")
		}
		for _, l := range vl {
			b.WriteString(l + "\n")
		}
	}
	if !o.NoRelations {
		rel := func(title string, mp map[string][]*ast.Definition) {
			var ks []string
			for k := range mp {
				ks = append(ks, k)
			}
			sort.Strings(ks)
			for _, k := range ks {
				if o.NoBuiltins && strings.HasPrefix(k, "__") {
					continue
				}
				var ns []string
				for _, d := range mp[k] {
					if d == nil {
						ns = append(ns, "<nil>")
					} else {
						ns = append(ns, d.Name)
					}
				}
				sort.Strings(ns)
				fmt.Fprintf(&b, "%s %s: %s\n", title, k, strings.Join(ns, ","))
			}
		}
		rel("possible", s.PossibleTypes)
		rel("implements", s.Implements)
	}
	return b.String()
}

// FirstDiff returns the first differing line pair of two dumps.
func FirstDiff(a, b string) (string, string) {
	la, lb := strings.Split(a, "\n"), strings.Split(b, "\n")
	for i := 0; i < len(la) || i < len(lb); i++ {
		var x, y string
		if i < len(la) {
			x = la[i]
		}
		if i < len(lb) {
			y = lb[i]
		}
		if x != y {
			return x, y
		}
	}
	return "", ""
}
