package model

import (
	"fmt"
	"strings"

	"github.com/vektah/gqlparser/v2/ast"
)

// Type-system document model.

type ArgDef struct {
	Desc    string
	HasDesc bool
	Name    string
	Type    *Type
	Default *Value
	Dirs    []Dir
}

type FieldDef struct {
	Desc    string
	HasDesc bool
	Name    string
	Args    []*ArgDef
	Type    *Type
	Default *Value // input fields
	Dirs    []Dir
}

type EnumVal struct {
	Desc    string
	HasDesc bool
	Name    string
	Dirs    []Dir
}

type OpType struct{ Op, Type string }

// Item is one top-level definition or extension.
type Item struct {
	Kind       string // schema scalar type interface union enum input directive
	Extend     bool
	Desc       string
	HasDesc    bool
	DescBlock  bool // rendering hint
	Name       string
	Interfaces []string
	Dirs       []Dir
	Fields     []*FieldDef
	Members    []string
	Values     []*EnumVal
	OpTypes    []OpType
	Args       []*ArgDef
	Repeatable bool
	Locations  []string
	LeadSep    bool // rendering hint: leading & or |
	NoBody     bool // rendering hint for schema: directives only, no block (not in the grammar)
}

type SDoc struct{ Items []*Item }

func canonDesc(b *strings.Builder, has bool, d string) {
	if has && d != "" {
		fmt.Fprintf(b, "desc(%q) ", d)
	}
}

func canonArgDefs(b *strings.Builder, as []*ArgDef) {
	if len(as) == 0 {
		return
	}
	b.WriteString("(")
	for _, a := range as {
		canonDesc(b, a.HasDesc, a.Desc)
		fmt.Fprintf(b, "%q:%s", a.Name, a.Type.String())
		if a.Default != nil {
			b.WriteString("=")
			a.Default.canon(b)
		}
		canonDirs(b, a.Dirs)
		b.WriteString(";")
	}
	b.WriteString(")")
}

func (it *Item) canon(b *strings.Builder, withDesc bool) {
	if it.Extend {
		b.WriteString("extend ")
	}
	if withDesc {
		canonDesc(b, it.HasDesc, it.Desc)
	}
	fmt.Fprintf(b, "%s %q", it.Kind, it.Name)
	if len(it.Interfaces) > 0 {
		fmt.Fprintf(b, " implements %q", it.Interfaces)
	}
	if it.Kind == "directive" {
		canonArgDefsD(b, it.Args, withDesc)
		if it.Repeatable {
			b.WriteString(" repeatable")
		}
		fmt.Fprintf(b, " on %q", it.Locations)
	}
	canonDirs(b, it.Dirs)
	if len(it.Members) > 0 {
		fmt.Fprintf(b, " = %q", it.Members)
	}
	if len(it.OpTypes) > 0 {
		b.WriteString(" {")
		for _, o := range it.OpTypes {
			fmt.Fprintf(b, "%s:%q;", o.Op, o.Type)
		}
		b.WriteString("}")
	}
	if len(it.Values) > 0 {
		b.WriteString(" {")
		for _, v := range it.Values {
			if withDesc {
				canonDesc(b, v.HasDesc, v.Desc)
			}
			fmt.Fprintf(b, "%q", v.Name)
			canonDirs(b, v.Dirs)
			b.WriteString(";")
		}
		b.WriteString("}")
	}
	if len(it.Fields) > 0 {
		b.WriteString(" {\n")
		for _, f := range it.Fields {
			b.WriteString("  ")
			if withDesc {
				canonDesc(b, f.HasDesc, f.Desc)
			}
			fmt.Fprintf(b, "%q", f.Name)
			canonArgDefsD(b, f.Args, withDesc)
			fmt.Fprintf(b, ":%s", f.Type.String())
			if f.Default != nil {
				b.WriteString("=")
				f.Default.canon(b)
			}
			canonDirs(b, f.Dirs)
			b.WriteString("\n")
		}
		b.WriteString("}")
	}
	b.WriteString("\n")
}

func canonArgDefsD(b *strings.Builder, as []*ArgDef, withDesc bool) {
	if withDesc {
		canonArgDefs(b, as)
		return
	}
	cp := make([]*ArgDef, len(as))
	for i, a := range as {
		c := *a
		c.HasDesc = false
		cp[i] = &c
	}
	canonArgDefs(b, cp)
}

// groupOf mirrors how a parsed SchemaDocument groups top-level items.
func (it *Item) groupOf() int {
	switch {
	case it.Kind == "schema" && !it.Extend:
		return 0
	case it.Kind == "schema":
		return 1
	case it.Kind == "directive":
		return 2
	case !it.Extend:
		return 3
	}
	return 4
}

// Canon dumps the document grouped as (schema, schema extensions, directives, definitions,
// extensions), each group in source order.
func (d *SDoc) Canon(withDesc bool) string {
	var b strings.Builder
	for g := 0; g < 5; g++ {
		for _, it := range d.Items {
			if it.groupOf() == g {
				it.canon(&b, withDesc)
			}
		}
	}
	return b.String()
}

// Grouped returns the items in canonical group order.
func (d *SDoc) Grouped() []*Item {
	var out []*Item
	for g := 0; g < 5; g++ {
		for _, it := range d.Items {
			if it.groupOf() == g {
				out = append(out, it)
			}
		}
	}
	return out
}

// DiffSDocs names the first difference between two schema documents.
func DiffSDocs(a, b *SDoc, withDesc bool) (code, detail string) {
	ia, ib := a.Grouped(), b.Grouped()
	if len(ia) != len(ib) {
		return "count(definitions)", fmt.Sprintf("%d vs %d", len(ia), len(ib))
	}
	for i := range ia {
		var sa, sb strings.Builder
		ia[i].canon(&sa, withDesc)
		ib[i].canon(&sb, withDesc)
		if sa.String() != sb.String() {
			return "definition(" + ia[i].Kind + "):" + itemDiffCode(ia[i], ib[i], withDesc), fmt.Sprintf("%s\n-- vs --\n%s", sa.String(), sb.String())
		}
	}
	return "", ""
}

func itemDiffCode(a, b *Item, withDesc bool) string {
	switch {
	case a.Kind != b.Kind || a.Extend != b.Extend:
		return "kind"
	case a.Name != b.Name:
		return "name"
	case withDesc && descOf(a.HasDesc, a.Desc) != descOf(b.HasDesc, b.Desc):
		return "description"
	case fmt.Sprint(a.Interfaces) != fmt.Sprint(b.Interfaces):
		return "interfaces"
	case fmt.Sprint(a.Members) != fmt.Sprint(b.Members):
		return "members"
	case fmt.Sprint(a.Locations) != fmt.Sprint(b.Locations) || a.Repeatable != b.Repeatable:
		return "directive-locations"
	case fmt.Sprint(a.OpTypes) != fmt.Sprint(b.OpTypes):
		return "operation-types"
	case len(a.Fields) != len(b.Fields):
		return "count(fields)"
	case len(a.Values) != len(b.Values):
		return "count(enum-values)"
	case len(a.Args) != len(b.Args):
		return "count(arguments)"
	}
	if c, _ := diffDirs(a.Dirs, b.Dirs); c != "" {
		return "directives"
	}
	for i := range a.Fields {
		fa, fb := a.Fields[i], b.Fields[i]
		switch {
		case fa.Name != fb.Name:
			return "field-name"
		case fa.Type.String() != fb.Type.String():
			return "field-type"
		case withDesc && descOf(fa.HasDesc, fa.Desc) != descOf(fb.HasDesc, fb.Desc):
			return "field-description"
		}
		if c, _ := diffValue(fa.Default, fb.Default); c != "" {
			return "field-default"
		}
		if c, _ := diffDirs(fa.Dirs, fb.Dirs); c != "" {
			return "field-directives"
		}
		if len(fa.Args) != len(fb.Args) {
			return "count(field-arguments)"
		}
		for j := range fa.Args {
			if c := argDefDiff(fa.Args[j], fb.Args[j], withDesc); c != "" {
				return "field-" + c
			}
		}
	}
	for i := range a.Values {
		switch {
		case a.Values[i].Name != b.Values[i].Name:
			return "enum-value-name"
		case withDesc && descOf(a.Values[i].HasDesc, a.Values[i].Desc) != descOf(b.Values[i].HasDesc, b.Values[i].Desc):
			return "enum-value-description"
		}
		if c, _ := diffDirs(a.Values[i].Dirs, b.Values[i].Dirs); c != "" {
			return "enum-value-directives"
		}
	}
	for i := range a.Args {
		if c := argDefDiff(a.Args[i], b.Args[i], withDesc); c != "" {
			return "directive-" + c
		}
	}
	return "other"
}

func descOf(has bool, d string) string {
	if !has {
		return ""
	}
	return d
}

func argDefDiff(a, b *ArgDef, withDesc bool) string {
	switch {
	case a.Name != b.Name:
		return "argument-name"
	case a.Type.String() != b.Type.String():
		return "argument-type"
	case withDesc && descOf(a.HasDesc, a.Desc) != descOf(b.HasDesc, b.Desc):
		return "argument-description"
	}
	if c, _ := diffValue(a.Default, b.Default); c != "" {
		return "argument-default"
	}
	if c, _ := diffDirs(a.Dirs, b.Dirs); c != "" {
		return "argument-directives"
	}
	return ""
}

// ---------------------------------------------------------------- rendering

func (rn *Renderer) desc(b *tokBuf, has bool, d string, block bool) {
	if !has {
		return
	}
	b.t = append(b.t, rn.strTok(&Value{Kind: VString, Raw: d, Block: block}))
}

func (rn *Renderer) argDefs(b *tokBuf, as []*ArgDef) {
	if len(as) == 0 {
		return
	}
	b.p("(")
	for _, a := range as {
		rn.desc(b, a.HasDesc, a.Desc, false)
		b.name(a.Name)
		b.p(":")
		rn.typ(b, a.Type)
		if a.Default != nil {
			b.p("=")
			rn.value(b, a.Default)
		}
		rn.dirs(b, a.Dirs)
	}
	b.p(")")
}

// SDocTokens lists the significant tokens of a type-system document.
func (rn *Renderer) SDocTokens(d *SDoc) []Tok {
	b := &tokBuf{}
	for _, it := range d.Items {
		rn.itemTokens(b, it)
	}
	return b.t
}

// ItemTokens renders one top-level item.
func (rn *Renderer) ItemTokens(it *Item) []Tok {
	b := &tokBuf{}
	rn.itemTokens(b, it)
	return b.t
}

func (rn *Renderer) itemTokens(b *tokBuf, it *Item) {
	if !it.Extend {
		rn.desc(b, it.HasDesc, it.Desc, it.DescBlock)
	} else {
		b.name("extend")
	}
	b.name(it.Kind)
	switch it.Kind {
	case "schema":
		rn.dirs(b, it.Dirs)
		if len(it.OpTypes) > 0 || !it.NoBody {
			b.p("{")
			for _, o := range it.OpTypes {
				b.name(o.Op)
				b.p(":")
				b.name(o.Type)
			}
			b.p("}")
		}
	case "directive":
		b.p("@")
		b.name(it.Name)
		rn.argDefs(b, it.Args)
		if it.Repeatable {
			b.name("repeatable")
		}
		b.name("on")
		for i, l := range it.Locations {
			if i > 0 || it.LeadSep {
				b.p("|")
			}
			b.name(l)
		}
	default:
		b.name(it.Name)
		if len(it.Interfaces) > 0 {
			b.name("implements")
			for i, n := range it.Interfaces {
				if i > 0 || it.LeadSep {
					b.p("&")
				}
				b.name(n)
			}
		}
		rn.dirs(b, it.Dirs)
		if len(it.Members) > 0 {
			b.p("=")
			for i, n := range it.Members {
				if i > 0 || it.LeadSep {
					b.p("|")
				}
				b.name(n)
			}
		}
		if len(it.Values) > 0 {
			b.p("{")
			for _, v := range it.Values {
				rn.desc(b, v.HasDesc, v.Desc, false)
				b.name(v.Name)
				rn.dirs(b, v.Dirs)
			}
			b.p("}")
		}
		if len(it.Fields) > 0 {
			b.p("{")
			for _, f := range it.Fields {
				rn.desc(b, f.HasDesc, f.Desc, false)
				b.name(f.Name)
				rn.argDefs(b, f.Args)
				b.p(":")
				rn.typ(b, f.Type)
				if f.Default != nil {
					b.p("=")
					rn.value(b, f.Default)
				}
				rn.dirs(b, f.Dirs)
			}
			b.p("}")
		}
	}
}

func (rn *Renderer) RenderSDoc(d *SDoc) string { return rn.Text(rn.SDocTokens(d)) }

// ---------------------------------------------------------------- adapter

func argDefsFromAST(as ast.ArgumentDefinitionList) []*ArgDef {
	var out []*ArgDef
	for _, a := range as {
		out = append(out, &ArgDef{Desc: a.Description, HasDesc: a.Description != "", Name: a.Name, Type: TypeFromAST(a.Type), Default: ValueFromAST(a.DefaultValue), Dirs: dirsFromAST(a.Directives)})
	}
	return out
}

func itemFromDefinition(d *ast.Definition, extend bool) *Item {
	kind := map[ast.DefinitionKind]string{ast.Scalar: "scalar", ast.Object: "type", ast.Interface: "interface", ast.Union: "union", ast.Enum: "enum", ast.InputObject: "input"}[d.Kind]
	it := &Item{Kind: kind, Extend: extend, Desc: d.Description, HasDesc: d.Description != "", Name: d.Name, Interfaces: d.Interfaces, Dirs: dirsFromAST(d.Directives), Members: d.Types}
	for _, f := range d.Fields {
		it.Fields = append(it.Fields, &FieldDef{Desc: f.Description, HasDesc: f.Description != "", Name: f.Name, Args: argDefsFromAST(f.Arguments), Type: TypeFromAST(f.Type), Default: ValueFromAST(f.DefaultValue), Dirs: dirsFromAST(f.Directives)})
	}
	for _, v := range d.EnumValues {
		it.Values = append(it.Values, &EnumVal{Desc: v.Description, HasDesc: v.Description != "", Name: v.Name, Dirs: dirsFromAST(v.Directives)})
	}
	return it
}

func itemFromSchemaDef(s *ast.SchemaDefinition, extend bool) *Item {
	it := &Item{Kind: "schema", Extend: extend, Desc: s.Description, HasDesc: s.Description != "", Dirs: dirsFromAST(s.Directives)}
	for _, o := range s.OperationTypes {
		it.OpTypes = append(it.OpTypes, OpType{Op: string(o.Operation), Type: o.Type})
	}
	return it
}

// FromSchemaAST converts a parsed SchemaDocument (in its grouped order).
func FromSchemaAST(sd *ast.SchemaDocument) *SDoc {
	out := &SDoc{}
	if sd == nil {
		return out
	}
	for _, s := range sd.Schema {
		out.Items = append(out.Items, itemFromSchemaDef(s, false))
	}
	for _, s := range sd.SchemaExtension {
		out.Items = append(out.Items, itemFromSchemaDef(s, true))
	}
	for _, d := range sd.Directives {
		it := &Item{Kind: "directive", Desc: d.Description, HasDesc: d.Description != "", Name: d.Name, Args: argDefsFromAST(d.Arguments), Repeatable: d.IsRepeatable}
		for _, l := range d.Locations {
			it.Locations = append(it.Locations, string(l))
		}
		out.Items = append(out.Items, it)
	}
	for _, d := range sd.Definitions {
		out.Items = append(out.Items, itemFromDefinition(d, false))
	}
	for _, d := range sd.Extensions {
		out.Items = append(out.Items, itemFromDefinition(d, true))
	}
	return out
}
