// Package model holds plain model trees for executable and type-system documents,
// a renderer that places hostile trivia between tokens, and adapters from gqlparser's AST.
package model

import (
	"fmt"
	"strings"
)

type ValueKind int

const (
	VVar ValueKind = iota
	VInt
	VFloat
	VString // quoted or block: the same value
	VBool
	VNull
	VEnum
	VList
	VObject
)

var vkNames = []string{"Var", "Int", "Float", "String", "Bool", "Null", "Enum", "List", "Object"}

func (k ValueKind) String() string { return vkNames[k] }

type Value struct {
	Kind   ValueKind
	Raw    string // variable name, number text, string semantic value, enum/bool text
	Block  bool   // rendering hint only (string written as block string)
	Items  []*Value
	Fields []ObjField
}

type ObjField struct {
	Name  string
	Value *Value
}

type Type struct {
	Name    string
	Elem    *Type
	NonNull bool
}

func (t *Type) String() string {
	if t == nil {
		return "<nil>"
	}
	s := t.Name
	if t.Elem != nil {
		s = "[" + t.Elem.String() + "]"
	}
	if t.NonNull {
		s += "!"
	}
	return s
}

func (t *Type) Base() string {
	for t.Elem != nil {
		t = t.Elem
	}
	return t.Name
}

type Arg struct {
	Name  string
	Value *Value
}

type Dir struct {
	Name string
	Args []Arg
}

type SelKind int

const (
	SField SelKind = iota
	SSpread
	SInline
)

type Sel struct {
	Kind     SelKind
	Alias    string // "" = none
	Name     string // field name or fragment name
	TypeCond string // inline fragment
	Args     []Arg
	Dirs     []Dir
	Sel      []*Sel
}

type VarDef struct {
	Name    string
	Type    *Type
	Default *Value
	Dirs    []Dir
}

type Def struct {
	IsFragment bool
	Op         string // query | mutation | subscription
	Shorthand  bool   // rendering hint: bare selection set
	Name       string
	Vars       []VarDef
	TypeCond   string
	Dirs       []Dir
	Sel        []*Sel
}

type Doc struct {
	Defs []*Def
}

// Canon returns a canonical dump: operations first (in order), then fragments (in order);
// alias defaults to name; rendering hints dropped. Two documents are the same document
// iff their canonical dumps are equal.
func (d *Doc) Canon() string {
	var b strings.Builder
	for _, pass := range []bool{false, true} {
		for _, def := range d.Defs {
			if def.IsFragment != pass {
				continue
			}
			def.canon(&b)
		}
	}
	return b.String()
}

func (def *Def) canon(b *strings.Builder) {
	if def.IsFragment {
		fmt.Fprintf(b, "fragment %q on %q", def.Name, def.TypeCond)
	} else {
		fmt.Fprintf(b, "op %s %q", def.Op, def.Name)
	}
	if len(def.Vars) > 0 {
		b.WriteString(" vars(")
		for _, v := range def.Vars {
			fmt.Fprintf(b, "$%q:%s", v.Name, v.Type.String())
			if v.Default != nil {
				b.WriteString("=")
				v.Default.canon(b)
			}
			canonDirs(b, v.Dirs)
			b.WriteString(";")
		}
		b.WriteString(")")
	}
	canonDirs(b, def.Dirs)
	canonSel(b, def.Sel, 1)
	b.WriteString("\n")
}

func canonDirs(b *strings.Builder, ds []Dir) {
	for _, d := range ds {
		fmt.Fprintf(b, " @%q", d.Name)
		canonArgs(b, d.Args)
	}
}

func canonArgs(b *strings.Builder, as []Arg) {
	if len(as) == 0 {
		return
	}
	b.WriteString("(")
	for _, a := range as {
		fmt.Fprintf(b, "%q:", a.Name)
		a.Value.canon(b)
		b.WriteString(";")
	}
	b.WriteString(")")
}

func canonSel(b *strings.Builder, ss []*Sel, depth int) {
	if len(ss) == 0 {
		return
	}
	b.WriteString(" {\n")
	for _, s := range ss {
		b.WriteString(strings.Repeat(" ", depth))
		switch s.Kind {
		case SField:
			alias := s.Alias
			if alias == "" {
				alias = s.Name
			}
			fmt.Fprintf(b, "field %q:%q", alias, s.Name)
			canonArgs(b, s.Args)
		case SSpread:
			fmt.Fprintf(b, "spread %q", s.Name)
		case SInline:
			fmt.Fprintf(b, "inline on %q", s.TypeCond)
		}
		canonDirs(b, s.Dirs)
		canonSel(b, s.Sel, depth+1)
		b.WriteString("\n")
	}
	b.WriteString(strings.Repeat(" ", depth-1))
	b.WriteString("}")
}

func (v *Value) canon(b *strings.Builder) {
	if v == nil {
		b.WriteString("<nil>")
		return
	}
	switch v.Kind {
	case VList:
		b.WriteString("[")
		for _, it := range v.Items {
			it.canon(b)
			b.WriteString(",")
		}
		b.WriteString("]")
	case VObject:
		b.WriteString("{")
		for _, f := range v.Fields {
			fmt.Fprintf(b, "%q:", f.Name)
			f.Value.canon(b)
			b.WriteString(",")
		}
		b.WriteString("}")
	default:
		fmt.Fprintf(b, "%s(%q)", v.Kind, v.Raw)
	}
}

func (v *Value) CanonString() string {
	var b strings.Builder
	v.canon(&b)
	return b.String()
}

// Walk visits every selection depth-first.
func WalkSels(ss []*Sel, f func(s *Sel, depth int)) { walkSels(ss, 0, f) }

func walkSels(ss []*Sel, d int, f func(s *Sel, depth int)) {
	for _, s := range ss {
		f(s, d)
		walkSels(s.Sel, d+1, f)
	}
}
