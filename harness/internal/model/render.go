package model

import (
	"fmt"
	"strings"
	"unicode/utf8"

	"verif/harness/internal/core"
)

type TokKind int

const (
	TPunct TokKind = iota
	TName
	TInt
	TFloat
	TString
	TBlock
)

// Tok is one significant token of a rendering.
type Tok struct {
	Kind TokKind
	Text string // source text
	Val  string // semantic value (strings)
}

// Renderer turns model trees into token lists and token lists into text.
// R == nil gives the plain canonical rendering (quoted strings, one space).
type Renderer struct {
	R *core.Rand
	// BlockValue is the reference BlockStringValue(); when nil no block strings are produced.
	BlockValue func(raw string) string
	// NoNonBMPEscapes etc. are not needed: quoted rendering escapes only what it must, plus random \uXXXX.
	// Trivia level: 0 single spaces, 1 mild (spaces/newlines/commas), 2 hostile (CR, CRLF, BOM, comments, multibyte).
	Trivia int
	// PlainStrings forces quoted strings with minimal escapes even when R != nil.
	PlainStrings bool
	// WideComments lets comments contain characters above U+FFFF (Trivia 2 only).
	WideComments bool
}

func (rn *Renderer) chance(num, den int) bool { return rn.R != nil && rn.R.Chance(num, den) }

type tokBuf struct{ t []Tok }

func (b *tokBuf) p(s string)    { b.t = append(b.t, Tok{Kind: TPunct, Text: s}) }
func (b *tokBuf) name(s string) { b.t = append(b.t, Tok{Kind: TName, Text: s}) }

// QuoteString renders a string value as a quoted GraphQL string.
func (rn *Renderer) QuoteString(s string) string {
	var b strings.Builder
	b.WriteByte('"')
	for _, r := range s {
		switch {
		case r == '"':
			b.WriteString(`\"`)
		case r == '\\':
			b.WriteString(`\\`)
		case r == '\n':
			b.WriteString(`\n`)
		case r == '\r':
			b.WriteString(`\r`)
		case r == '\b':
			b.WriteString(`\b`)
		case r == '\f':
			b.WriteString(`\f`)
		case r == '\t':
			if !rn.PlainStrings && rn.chance(1, 2) {
				b.WriteByte('\t')
			} else {
				b.WriteString(`\t`)
			}
		case r < 0x20:
			fmt.Fprintf(&b, `\u%04x`, r)
		case r == '/' && !rn.PlainStrings && rn.chance(1, 3):
			b.WriteString(`\/`)
		case r <= 0xFFFF && !(r >= 0xD800 && r <= 0xDFFF) && !rn.PlainStrings && rn.chance(1, 8):
			if rn.chance(1, 2) {
				fmt.Fprintf(&b, `\u%04X`, r)
			} else {
				fmt.Fprintf(&b, `\u%04x`, r)
			}
		default:
			b.WriteRune(r)
		}
	}
	b.WriteByte('"')
	return b.String()
}

// BlockString tries to render s as a block string; ok=false if s cannot be represented.
func (rn *Renderer) BlockString(s string) (string, bool) {
	if rn.BlockValue == nil || !utf8.ValidString(s) {
		return "", false
	}
	for _, r := range s {
		if r < 0x20 && r != '\t' && r != '\n' {
			return "", false
		}
	}
	esc := strings.ReplaceAll(s, `"""`, `\"""`)
	var raw string
	style := 0
	if rn.R != nil {
		style = rn.R.Intn(5)
	}
	switch style {
	case 0, 1: // newline, indented lines, newline
		ind := ""
		if rn.R != nil {
			ind = strings.Repeat(rn.R.Pick(" ", "  ", "\t", "    "), rn.R.Intn(3))
		}
		lines := strings.Split(esc, "\n")
		for i := range lines {
			lines[i] = ind + lines[i]
		}
		nl := "\n"
		if style == 1 && rn.R != nil {
			nl = rn.R.Pick("\n", "\r\n", "\r")
		}
		raw = nl + strings.Join(lines, nl) + nl + ind
	case 4: // the empty value written as blanks only (one line, or several blank lines)
		raw = esc
		if esc == "" {
			raw = rn.R.Pick("   ", "\t", " \t ", "  \n  ", "\n\n", " ", "\r\n \r\n")
		}
	case 2: // inline
		raw = esc
	case 3: // first line inline, rest indented
		lines := strings.Split(esc, "\n")
		ind := rn.R.Pick(" ", "  ", "\t")
		for i := 1; i < len(lines); i++ {
			lines[i] = ind + lines[i]
		}
		raw = strings.Join(lines, "\n")
	}
	if strings.HasSuffix(raw, `"`) || strings.HasSuffix(raw, `\`) {
		return "", false
	}
	if rn.BlockValue(strings.ReplaceAll(strings.ReplaceAll(strings.ReplaceAll(raw, "\r\n", "\n"), "\r", "\n"), `\"""`, `"""`)) != s {
		return "", false
	}
	return `"""` + raw + `"""`, true
}

func (rn *Renderer) strTok(v *Value) Tok {
	if v.Block || (!rn.PlainStrings && rn.chance(1, 4)) {
		if txt, ok := rn.BlockString(v.Raw); ok {
			return Tok{Kind: TBlock, Text: txt, Val: v.Raw}
		}
	}
	return Tok{Kind: TString, Text: rn.QuoteString(v.Raw), Val: v.Raw}
}

func (rn *Renderer) value(b *tokBuf, v *Value) {
	switch v.Kind {
	case VVar:
		b.p("$")
		b.name(v.Raw)
	case VInt:
		b.t = append(b.t, Tok{Kind: TInt, Text: v.Raw})
	case VFloat:
		b.t = append(b.t, Tok{Kind: TFloat, Text: v.Raw})
	case VString:
		b.t = append(b.t, rn.strTok(v))
	case VBool, VNull, VEnum:
		b.name(v.Raw)
	case VList:
		b.p("[")
		for _, it := range v.Items {
			rn.value(b, it)
		}
		b.p("]")
	case VObject:
		b.p("{")
		for _, f := range v.Fields {
			b.name(f.Name)
			b.p(":")
			rn.value(b, f.Value)
		}
		b.p("}")
	}
}

func (rn *Renderer) typ(b *tokBuf, t *Type) {
	if t.Elem != nil {
		b.p("[")
		rn.typ(b, t.Elem)
		b.p("]")
	} else {
		b.name(t.Name)
	}
	if t.NonNull {
		b.p("!")
	}
}

func (rn *Renderer) args(b *tokBuf, as []Arg) {
	if len(as) == 0 {
		return
	}
	b.p("(")
	for _, a := range as {
		b.name(a.Name)
		b.p(":")
		rn.value(b, a.Value)
	}
	b.p(")")
}

func (rn *Renderer) dirs(b *tokBuf, ds []Dir) {
	for _, d := range ds {
		b.p("@")
		b.name(d.Name)
		rn.args(b, d.Args)
	}
}

func (rn *Renderer) sels(b *tokBuf, ss []*Sel) {
	if len(ss) == 0 {
		return
	}
	b.p("{")
	for _, s := range ss {
		switch s.Kind {
		case SField:
			if s.Alias != "" {
				b.name(s.Alias)
				b.p(":")
			}
			b.name(s.Name)
			rn.args(b, s.Args)
			rn.dirs(b, s.Dirs)
			rn.sels(b, s.Sel)
		case SSpread:
			b.p("...")
			b.name(s.Name)
			rn.dirs(b, s.Dirs)
		case SInline:
			b.p("...")
			if s.TypeCond != "" {
				b.name("on")
				b.name(s.TypeCond)
			}
			rn.dirs(b, s.Dirs)
			rn.sels(b, s.Sel)
		}
	}
	b.p("}")
}

func (rn *Renderer) vars(b *tokBuf, vs []VarDef) {
	if len(vs) == 0 {
		return
	}
	b.p("(")
	for _, v := range vs {
		b.p("$")
		b.name(v.Name)
		b.p(":")
		rn.typ(b, v.Type)
		if v.Default != nil {
			b.p("=")
			rn.value(b, v.Default)
		}
		rn.dirs(b, v.Dirs)
	}
	b.p(")")
}

// DocTokens lists the significant tokens of an executable document.
func (rn *Renderer) DocTokens(d *Doc) []Tok {
	b := &tokBuf{}
	for _, def := range d.Defs {
		if def.IsFragment {
			b.name("fragment")
			b.name(def.Name)
			rn.vars(b, def.Vars)
			b.name("on")
			b.name(def.TypeCond)
			rn.dirs(b, def.Dirs)
			rn.sels(b, def.Sel)
			continue
		}
		if !(def.Shorthand && def.Op == "query" && def.Name == "" && len(def.Vars) == 0 && len(def.Dirs) == 0) {
			b.name(def.Op)
			if def.Name != "" {
				b.name(def.Name)
			}
			rn.vars(b, def.Vars)
			rn.dirs(b, def.Dirs)
		}
		rn.sels(b, def.Sel)
	}
	return b.t
}

// mustSeparate reports whether two adjacent tokens need ignored characters between them
// (conservative table; monitors that care re-lex the rendering with the reference lexer).
func mustSeparate(a, b Tok) bool {
	wordy := func(k TokKind) bool { return k == TName || k == TInt || k == TFloat }
	if wordy(a.Kind) && wordy(b.Kind) {
		// a name or a number directly followed by a NEGATIVE number needs nothing in between: "a-1" and "[1-2]" are two
		// tokens each (the minus sign is neither a digit, a dot nor a name start)
		if (b.Kind == TInt || b.Kind == TFloat) && strings.HasPrefix(b.Text, "-") {
			return false
		}
		return true
	}
	if (a.Kind == TInt || a.Kind == TFloat) && b.Kind == TPunct && b.Text == "..." {
		return true // "1..." : a number may not be followed by '.'
	}
	if (a.Kind == TString || a.Kind == TBlock) && (b.Kind == TString || b.Kind == TBlock) {
		return true
	}
	if a.Kind == TPunct && a.Text == "..." && b.Kind == TPunct && b.Text == "..." {
		return false
	}
	return false
}

var mildTrivia = []string{" ", " ", " ", "\n", ",", "  ", "\t", ", ", "\n  "}
var hostileTrivia = []string{" ", "\n", "\r\n", "\r", ",", "\t", "\uFEFF", "\n\r", "\r\r\n", " ,, ", "\n\n"}
var commentBodies = []string{"", " c", " é \" # x", "\t{ } ...", " 日本語", " \"\"\" ", "#", " \\u0041", " del\x7f", " a\u00adb\u2028c", " the answer \t ", " x  ", "  "}

// wideCommentBodies: characters above U+FFFF, which the October 2021 reference lexer abstains on (only for renderers that ask).
var wideCommentBodies = []string{" private\U000F0000use \U0001F600", " \U000E0001tag", "\U0001F600"}

func (rn *Renderer) trivia(must bool) string {
	if rn.R == nil || rn.Trivia == 0 {
		return " "
	}
	r := rn.R
	var b strings.Builder
	n := 1
	if !must && r.Chance(1, 3) {
		n = 0
	}
	if r.Chance(1, 5) {
		n += r.Intn(3)
	}
	for i := 0; i < n; i++ {
		if rn.Trivia >= 2 {
			if r.Chance(1, 6) {
				if rn.WideComments && r.Chance(1, 4) {
					b.WriteString("#" + wideCommentBodies[r.Intn(len(wideCommentBodies))])
				} else {
					b.WriteString("#" + commentBodies[r.Intn(len(commentBodies))])
				}
				b.WriteString(r.Pick("\n", "\r\n", "\r"))
			} else {
				b.WriteString(hostileTrivia[r.Intn(len(hostileTrivia))])
			}
		} else {
			b.WriteString(mildTrivia[r.Intn(len(mildTrivia))])
		}
	}
	return b.String()
}

// Text joins tokens with trivia according to the renderer's level.
func (rn *Renderer) Text(toks []Tok) string {
	var b strings.Builder
	if rn.R != nil && rn.Trivia >= 1 && rn.R.Chance(1, 4) {
		b.WriteString(rn.trivia(false))
	}
	for i, t := range toks {
		if i > 0 {
			b.WriteString(rn.trivia(mustSeparate(toks[i-1], t)))
		}
		b.WriteString(t.Text)
	}
	if rn.R != nil && rn.Trivia >= 1 && rn.R.Chance(1, 4) {
		b.WriteString(rn.trivia(false))
		if rn.Trivia >= 2 && rn.R.Chance(1, 4) {
			b.WriteString("# trailing comment without newline")
		}
	}
	return b.String()
}

// RenderDoc is DocTokens followed by Text.
func (rn *Renderer) RenderDoc(d *Doc) string { return rn.Text(rn.DocTokens(d)) }
