package model

import "fmt"

var selKindNames = []string{"Field", "FragmentSpread", "InlineFragment"}

// DiffDocs compares two documents in canonical order and names the first difference with a
// reason code from a closed vocabulary ("" = equal) plus a human-readable detail.
func DiffDocs(a, b *Doc) (code, detail string) {
	as, bs := splitDefs(a), splitDefs(b)
	for i := 0; i < 2; i++ {
		what := []string{"operations", "fragments"}[i]
		if len(as[i]) != len(bs[i]) {
			return "count(" + what + ")", fmt.Sprintf("%d vs %d %s", len(as[i]), len(bs[i]), what)
		}
		for j := range as[i] {
			if c, d := diffDef(as[i][j], bs[i][j]); c != "" {
				return c, fmt.Sprintf("%s[%d]: %s", what, j, d)
			}
		}
	}
	return "", ""
}

func splitDefs(d *Doc) [2][]*Def {
	var out [2][]*Def
	for _, def := range d.Defs {
		if def.IsFragment {
			out[1] = append(out[1], def)
		} else {
			out[0] = append(out[0], def)
		}
	}
	return out
}

func diffDef(a, b *Def) (string, string) {
	if a.Op != b.Op {
		return "operation-type", fmt.Sprintf("%q vs %q", a.Op, b.Op)
	}
	if a.Name != b.Name {
		return "definition-name", fmt.Sprintf("%q vs %q", a.Name, b.Name)
	}
	if a.TypeCond != b.TypeCond {
		return "type-condition", fmt.Sprintf("%q vs %q", a.TypeCond, b.TypeCond)
	}
	if len(a.Vars) != len(b.Vars) {
		return "count(variable-definitions)", fmt.Sprintf("%d vs %d", len(a.Vars), len(b.Vars))
	}
	for i := range a.Vars {
		va, vb := a.Vars[i], b.Vars[i]
		if va.Name != vb.Name {
			return "variable-name", fmt.Sprintf("%q vs %q", va.Name, vb.Name)
		}
		if va.Type.String() != vb.Type.String() {
			return "variable-type", fmt.Sprintf("%s vs %s", va.Type, vb.Type)
		}
		if c, d := diffValue(va.Default, vb.Default); c != "" {
			return "variable-default:" + c, d
		}
		if c, d := diffDirs(va.Dirs, vb.Dirs); c != "" {
			return "variable-directives:" + c, d
		}
	}
	if c, d := diffDirs(a.Dirs, b.Dirs); c != "" {
		return "definition-directives:" + c, d
	}
	return diffSels(a.Sel, b.Sel, 0)
}

func diffDirs(a, b []Dir) (string, string) {
	if len(a) != len(b) {
		return "count(directives)", fmt.Sprintf("%d vs %d", len(a), len(b))
	}
	for i := range a {
		if a[i].Name != b[i].Name {
			return "directive-name", fmt.Sprintf("%q vs %q", a[i].Name, b[i].Name)
		}
		if c, d := diffArgs(a[i].Args, b[i].Args); c != "" {
			return "directive-" + c, d
		}
	}
	return "", ""
}

func diffArgs(a, b []Arg) (string, string) {
	if len(a) != len(b) {
		return "count(arguments)", fmt.Sprintf("%d vs %d", len(a), len(b))
	}
	for i := range a {
		if a[i].Name != b[i].Name {
			return "argument-name", fmt.Sprintf("%q vs %q", a[i].Name, b[i].Name)
		}
		if c, d := diffValue(a[i].Value, b[i].Value); c != "" {
			return "argument-value:" + c, d
		}
	}
	return "", ""
}

func diffValue(a, b *Value) (string, string) {
	if a == nil || b == nil {
		if a == b {
			return "", ""
		}
		return "value-presence", fmt.Sprintf("%v vs %v", a != nil, b != nil)
	}
	if a.Kind != b.Kind {
		return "value-kind(" + a.Kind.String() + "→" + b.Kind.String() + ")", fmt.Sprintf("%s vs %s", a.CanonString(), b.CanonString())
	}
	switch a.Kind {
	case VList:
		if len(a.Items) != len(b.Items) {
			return "count(list-items)", fmt.Sprintf("%d vs %d", len(a.Items), len(b.Items))
		}
		for i := range a.Items {
			if c, d := diffValue(a.Items[i], b.Items[i]); c != "" {
				return c, d
			}
		}
	case VObject:
		if len(a.Fields) != len(b.Fields) {
			return "count(object-fields)", fmt.Sprintf("%d vs %d", len(a.Fields), len(b.Fields))
		}
		for i := range a.Fields {
			if a.Fields[i].Name != b.Fields[i].Name {
				return "object-field-name", fmt.Sprintf("%q vs %q", a.Fields[i].Name, b.Fields[i].Name)
			}
			if c, d := diffValue(a.Fields[i].Value, b.Fields[i].Value); c != "" {
				return c, d
			}
		}
	default:
		if a.Raw != b.Raw {
			return "value-raw(" + a.Kind.String() + ")", fmt.Sprintf("%q vs %q", a.Raw, b.Raw)
		}
	}
	return "", ""
}

func diffSels(a, b []*Sel, depth int) (string, string) {
	if len(a) != len(b) {
		return "count(selections)", fmt.Sprintf("%d vs %d at depth %d", len(a), len(b), depth)
	}
	for i := range a {
		sa, sb := a[i], b[i]
		if sa.Kind != sb.Kind {
			return "selection-kind(" + selKindNames[sa.Kind] + "→" + selKindNames[sb.Kind] + ")", fmt.Sprintf("selection %d at depth %d", i, depth)
		}
		switch sa.Kind {
		case SField:
			aa, ab := sa.Alias, sb.Alias
			if aa == "" {
				aa = sa.Name
			}
			if ab == "" {
				ab = sb.Name
			}
			if sa.Name != sb.Name {
				return "field-name", fmt.Sprintf("%q vs %q", sa.Name, sb.Name)
			}
			if aa != ab {
				return "field-alias", fmt.Sprintf("%q vs %q", aa, ab)
			}
			if c, d := diffArgs(sa.Args, sb.Args); c != "" {
				return "field-" + c, d
			}
		case SSpread:
			if sa.Name != sb.Name {
				return "spread-name", fmt.Sprintf("%q vs %q", sa.Name, sb.Name)
			}
		case SInline:
			if sa.TypeCond != sb.TypeCond {
				return "inline-type-condition", fmt.Sprintf("%q vs %q", sa.TypeCond, sb.TypeCond)
			}
		}
		if c, d := diffDirs(sa.Dirs, sb.Dirs); c != "" {
			return selKindNames[sa.Kind] + "-directives:" + c, d
		}
		if c, d := diffSels(sa.Sel, sb.Sel, depth+1); c != "" {
			return c, d
		}
	}
	return "", ""
}
