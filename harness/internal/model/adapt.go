package model

import (
	"fmt"

	"github.com/vektah/gqlparser/v2/ast"
)

// FromAST converts gqlparser's executable document into a model tree. It copies only
// what was parsed (no validation annotations).
func FromAST(d *ast.QueryDocument) *Doc {
	out := &Doc{}
	if d == nil {
		return out
	}
	for _, op := range d.Operations {
		def := &Def{Op: string(op.Operation), Name: op.Name}
		for _, v := range op.VariableDefinitions {
			def.Vars = append(def.Vars, varFromAST(v))
		}
		def.Dirs = dirsFromAST(op.Directives)
		def.Sel = selsFromAST(op.SelectionSet)
		out.Defs = append(out.Defs, def)
	}
	for _, fr := range d.Fragments {
		def := &Def{IsFragment: true, Name: fr.Name, TypeCond: fr.TypeCondition}
		for _, v := range fr.VariableDefinition {
			def.Vars = append(def.Vars, varFromAST(v))
		}
		def.Dirs = dirsFromAST(fr.Directives)
		def.Sel = selsFromAST(fr.SelectionSet)
		out.Defs = append(out.Defs, def)
	}
	return out
}

func varFromAST(v *ast.VariableDefinition) VarDef {
	vd := VarDef{Name: v.Variable, Type: TypeFromAST(v.Type), Dirs: dirsFromAST(v.Directives)}
	if v.DefaultValue != nil {
		vd.Default = ValueFromAST(v.DefaultValue)
	}
	return vd
}

func TypeFromAST(t *ast.Type) *Type {
	if t == nil {
		return nil
	}
	return &Type{Name: t.NamedType, Elem: TypeFromAST(t.Elem), NonNull: t.NonNull}
}

func dirsFromAST(ds ast.DirectiveList) []Dir {
	var out []Dir
	for _, d := range ds {
		if d == nil {
			out = append(out, Dir{Name: "<nil>"})
			continue
		}
		out = append(out, Dir{Name: d.Name, Args: argsFromAST(d.Arguments)})
	}
	return out
}

func argsFromAST(as ast.ArgumentList) []Arg {
	var out []Arg
	for _, a := range as {
		if a == nil {
			out = append(out, Arg{Name: "<nil>"})
			continue
		}
		out = append(out, Arg{Name: a.Name, Value: ValueFromAST(a.Value)})
	}
	return out
}

func selsFromAST(ss ast.SelectionSet) []*Sel {
	var out []*Sel
	for _, s := range ss {
		switch s := s.(type) {
		case *ast.Field:
			out = append(out, &Sel{Kind: SField, Alias: s.Alias, Name: s.Name, Args: argsFromAST(s.Arguments), Dirs: dirsFromAST(s.Directives), Sel: selsFromAST(s.SelectionSet)})
		case *ast.FragmentSpread:
			out = append(out, &Sel{Kind: SSpread, Name: s.Name, Dirs: dirsFromAST(s.Directives)})
		case *ast.InlineFragment:
			out = append(out, &Sel{Kind: SInline, TypeCond: s.TypeCondition, Dirs: dirsFromAST(s.Directives), Sel: selsFromAST(s.SelectionSet)})
		default:
			out = append(out, &Sel{Kind: SField, Name: fmt.Sprintf("<unknown %T>", s)})
		}
	}
	return out
}

func ValueFromAST(v *ast.Value) *Value {
	if v == nil {
		return nil
	}
	out := &Value{Raw: v.Raw}
	switch v.Kind {
	case ast.Variable:
		out.Kind = VVar
	case ast.IntValue:
		out.Kind = VInt
	case ast.FloatValue:
		out.Kind = VFloat
	case ast.StringValue:
		out.Kind = VString
	case ast.BlockValue:
		out.Kind = VString
		out.Block = true
	case ast.BooleanValue:
		out.Kind = VBool
	case ast.NullValue:
		out.Kind = VNull
	case ast.EnumValue:
		out.Kind = VEnum
	case ast.ListValue:
		out.Kind = VList
		out.Raw = ""
		for _, c := range v.Children {
			out.Items = append(out.Items, ValueFromAST(c.Value))
		}
	case ast.ObjectValue:
		out.Kind = VObject
		out.Raw = ""
		for _, c := range v.Children {
			out.Fields = append(out.Fields, ObjField{Name: c.Name, Value: ValueFromAST(c.Value)})
		}
	}
	return out
}
