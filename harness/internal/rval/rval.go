// Package rval is the reference validator: the validation rules of section 5 of the GraphQL
// specification (October 2021, plus @oneOf and repeatable directives), written from the
// specification's algorithms over the harness's own model trees and merged type-system view.
// It shares no code or data structure with gqlparser's validator.
package rval

import (
	"fmt"
	"sort"
	"strconv"
	"strings"

	m "verif/harness/internal/model"
	"verif/harness/internal/tsys"
)

// Finding is one rule violation found by the reference validator.
type Finding struct {
	Rule   string // the name of the corresponding gqlparser rule
	Reason string // closed vocabulary per rule
	Detail string
}

func (f Finding) Code() string { return f.Rule + ":" + f.Reason }

type V struct {
	mg    *tsys.Merged
	doc   *m.Doc
	frags map[string]*m.Def
	out   []Finding
	// Abstain is set when the document touches a point where the specification is silent or the
	// library documents a deviation; such documents are counted, not judged.
	Abstain []string
}

func (v *V) add(rule, reason, detail string) {
	v.out = append(v.out, Finding{rule, reason, detail})
}

// Validate applies all rules.
func Validate(mg *tsys.Merged, doc *m.Doc) *V {
	v := &V{mg: mg, doc: doc, frags: map[string]*m.Def{}}
	for _, d := range doc.Defs {
		if d.IsFragment {
			if _, dup := v.frags[d.Name]; !dup {
				v.frags[d.Name] = d
			}
		}
	}
	v.operations()
	v.fragments()
	v.selections()
	v.variables()
	v.overlapping()
	v.introspectionDepth()
	return v
}

func (v *V) Findings() []Finding { return v.out }

// Codes returns the sorted distinct finding codes.
func (v *V) Codes() []string {
	set := map[string]bool{}
	for _, f := range v.out {
		set[f.Code()] = true
	}
	var l []string
	for k := range set {
		l = append(l, k)
	}
	sort.Strings(l)
	return l
}

func (v *V) Has(rule string) bool {
	for _, f := range v.out {
		if f.Rule == rule {
			return true
		}
	}
	return false
}

// ---------------------------------------------------------------- helpers

func (v *V) rootType(op string) *tsys.Def {
	n := v.mg.Roots[op]
	if n == "" {
		return nil
	}
	return v.mg.Types[n]
}

// fieldType resolves a field on a parent type: the declared field, __typename on composites,
// __schema/__type on the query root.
func (v *V) fieldDef(parent *tsys.Def, name string) *m.FieldDef {
	if parent == nil {
		return nil
	}
	if name == "__typename" && parent.IsComposite() {
		return &m.FieldDef{Name: "__typename", Type: &m.Type{Name: "String", NonNull: true}}
	}
	if q := v.rootType("query"); q != nil && q == parent {
		switch name {
		case "__schema":
			return &m.FieldDef{Name: "__schema", Type: &m.Type{Name: "__Schema", NonNull: true}}
		case "__type":
			return &m.FieldDef{Name: "__type", Type: &m.Type{Name: "__Type"}, Args: []*m.ArgDef{{Name: "name", Type: &m.Type{Name: "String", NonNull: true}}}}
		}
	}
	if parent.Kind == "type" || parent.Kind == "interface" {
		return parent.Field(name)
	}
	return nil
}

func base(t *m.Type) string { return t.Base() }

func (v *V) namedType(t *m.Type) *tsys.Def {
	if t == nil {
		return nil
	}
	return v.mg.Types[base(t)]
}

// walkSel visits every selection of a selection set with its parent type (nil when unknown),
// descending into fields and inline fragments but not into fragment spreads.
func (v *V) walkSel(parent *tsys.Def, ss []*m.Sel, f func(parent *tsys.Def, s *m.Sel)) {
	for _, s := range ss {
		f(parent, s)
		switch s.Kind {
		case m.SField:
			var next *tsys.Def
			if fd := v.fieldDef(parent, s.Name); fd != nil {
				next = v.namedType(fd.Type)
			}
			v.walkSel(next, s.Sel, f)
		case m.SInline:
			next := parent
			if s.TypeCond != "" {
				next = v.mg.Types[s.TypeCond]
			}
			v.walkSel(next, s.Sel, f)
		}
	}
}

func (v *V) defParent(d *m.Def) *tsys.Def {
	if d.IsFragment {
		return v.mg.Types[d.TypeCond]
	}
	return v.rootType(d.Op)
}

// ---------------------------------------------------------------- operations

func (v *V) operations() {
	names := map[string]int{}
	anon, ops := 0, 0
	for _, d := range v.doc.Defs {
		if d.IsFragment {
			continue
		}
		ops++
		if d.Name == "" {
			anon++
		} else {
			names[d.Name]++
		}
	}
	for n, c := range names {
		if c > 1 {
			v.add("UniqueOperationNames", "duplicate", "operation "+n)
		}
	}
	if anon > 0 && ops > 1 {
		v.add("LoneAnonymousOperation", "not-alone", fmt.Sprintf("%d operations, %d anonymous", ops, anon))
	}
	for _, d := range v.doc.Defs {
		if d.IsFragment {
			continue
		}
		root := v.rootType(d.Op)
		if root == nil {
			v.add("KnownRootType", "no-root("+d.Op+")", "schema has no "+d.Op+" root")
			continue
		}
		if d.Op == "subscription" {
			v.subscription(d, root)
		}
	}
}

// subscription: CollectFields on the root selection set must give exactly one response key, and it
// must not be an introspection field.
func (v *V) subscription(d *m.Def, root *tsys.Def) {
	type entry struct{ key, name string }
	var order []string
	groups := map[string][]string{}
	visited := map[string]bool{}
	var collect func(ss []*m.Sel)
	collect = func(ss []*m.Sel) {
		for _, s := range ss {
			for _, dd := range s.Dirs {
				if dd.Name == "skip" || dd.Name == "include" {
					v.Abstain = append(v.Abstain, "subscription-root-skip-include")
				}
			}
			switch s.Kind {
			case m.SField:
				k := s.Alias
				if k == "" {
					k = s.Name
				}
				if _, ok := groups[k]; !ok {
					order = append(order, k)
				}
				groups[k] = append(groups[k], s.Name)
			case m.SSpread:
				if visited[s.Name] {
					continue
				}
				visited[s.Name] = true
				fr := v.frags[s.Name]
				if fr == nil {
					continue
				}
				if !v.typeApplies(root, v.mg.Types[fr.TypeCond]) {
					continue
				}
				collect(fr.Sel)
			case m.SInline:
				if s.TypeCond != "" && !v.typeApplies(root, v.mg.Types[s.TypeCond]) {
					continue
				}
				collect(s.Sel)
			}
		}
	}
	collect(d.Sel)
	if len(order) != 1 {
		v.add("SingleFieldSubscriptions", fmt.Sprintf("response-keys(%s)", minStr(len(order))), fmt.Sprintf("subscription %q selects %d top-level response keys", d.Name, len(order)))
	}
	for _, k := range order {
		for _, n := range groups[k] {
			if strings.HasPrefix(n, "__") {
				v.add("SingleFieldSubscriptions", "introspection-root-field", "subscription selects "+n)
			}
		}
	}
}

func minStr(n int) string {
	if n == 0 {
		return "0"
	}
	if n == 2 {
		return "2"
	}
	return ">2"
}

// typeApplies is DoesFragmentTypeApply(objectType, fragmentType).
func (v *V) typeApplies(obj, frag *tsys.Def) bool {
	if obj == nil || frag == nil {
		return false
	}
	switch frag.Kind {
	case "type":
		return frag.Name == obj.Name
	case "interface":
		return obj.Implements(frag.Name)
	case "union":
		for _, mb := range frag.Members {
			if mb == obj.Name {
				return true
			}
		}
	}
	return false
}

// ---------------------------------------------------------------- fragments

func (v *V) spreadsOf(ss []*m.Sel, f func(name string)) {
	for _, s := range ss {
		switch s.Kind {
		case m.SSpread:
			f(s.Name)
		default:
			v.spreadsOf(s.Sel, f)
		}
	}
}

func (v *V) fragments() {
	names := map[string]int{}
	for _, d := range v.doc.Defs {
		if d.IsFragment {
			names[d.Name]++
		}
	}
	for n, c := range names {
		if c > 1 {
			v.add("UniqueFragmentNames", "duplicate", "fragment "+n)
		}
	}
	// type conditions
	checkCond := func(name, where string) {
		td := v.mg.Types[name]
		if td == nil {
			v.add("KnownTypeNames", "unknown-type("+where+")", "unknown type "+name)
			return
		}
		if !td.IsComposite() {
			v.add("FragmentsOnCompositeTypes", where+"-on-"+td.Kind, name+" is not composite")
		}
	}
	for _, d := range v.doc.Defs {
		if d.IsFragment {
			checkCond(d.TypeCond, "fragment")
		}
		v.walkSel(v.defParent(d), d.Sel, func(parent *tsys.Def, s *m.Sel) {
			if s.Kind == m.SInline && s.TypeCond != "" {
				checkCond(s.TypeCond, "inline-fragment")
			}
			if s.Kind == m.SSpread && v.frags[s.Name] == nil {
				v.add("KnownFragmentNames", "unknown-fragment", "fragment "+s.Name)
			}
		})
	}
	// used fragments: reachable from operations
	used := map[string]bool{}
	var reach func(ss []*m.Sel)
	reach = func(ss []*m.Sel) {
		v.spreadsOf(ss, func(n string) {
			if used[n] {
				return
			}
			used[n] = true
			if fr := v.frags[n]; fr != nil {
				reach(fr.Sel)
			}
		})
	}
	for _, d := range v.doc.Defs {
		if !d.IsFragment {
			reach(d.Sel)
		}
	}
	for _, d := range v.doc.Defs {
		if d.IsFragment && !used[d.Name] {
			v.add("NoUnusedFragments", "unused", "fragment "+d.Name)
		}
	}
	// cycles
	state := map[string]int{}
	var dfs func(n string) bool
	dfs = func(n string) bool {
		state[n] = 1
		found := false
		if fr := v.frags[n]; fr != nil {
			v.spreadsOf(fr.Sel, func(t string) {
				if v.frags[t] == nil {
					return
				}
				if state[t] == 1 {
					found = true
				} else if state[t] == 0 && dfs(t) {
					found = true
				}
			})
		}
		state[n] = 2
		return found
	}
	cyc := false
	for _, d := range v.doc.Defs {
		if d.IsFragment && state[d.Name] == 0 && dfs(d.Name) {
			cyc = true
		}
	}
	if cyc {
		v.add("NoFragmentCycles", "cycle", "fragment spreads form a cycle")
	}
	// possible spreads
	for _, d := range v.doc.Defs {
		v.walkSel(v.defParent(d), d.Sel, func(parent *tsys.Def, s *m.Sel) {
			var ft *tsys.Def
			switch {
			case s.Kind == m.SInline && s.TypeCond != "":
				ft = v.mg.Types[s.TypeCond]
			case s.Kind == m.SSpread:
				if fr := v.frags[s.Name]; fr != nil {
					ft = v.mg.Types[fr.TypeCond]
				}
			default:
				return
			}
			if parent == nil || ft == nil || !parent.IsComposite() || !ft.IsComposite() {
				return
			}
			a, b := v.mg.PossibleObjects(parent.Name), v.mg.PossibleObjects(ft.Name)
			for _, x := range a {
				for _, y := range b {
					if x == y {
						return
					}
				}
			}
			// no OBJECT type is in both sets. "The set of types implementing an interface" can also be read to include
			// interfaces that implement it (the October 2021 text does not say "object types"; graphql-js counts objects
			// only): when the two sets meet only through an interface, or one type is the other or implements it, the
			// reference does not judge
			at, bt := v.mg.PossibleTypes(parent.Name), v.mg.PossibleTypes(ft.Name)
			if parent.Kind == "interface" {
				at = append(at, parent.Name)
			}
			if ft.Kind == "interface" {
				bt = append(bt, ft.Name)
			}
			for _, x := range at {
				for _, y := range bt {
					if x == y {
						v.Abstain = append(v.Abstain, "fragment-types-meet-only-through-interfaces")
						return
					}
				}
			}
			kind := "inline"
			if s.Kind == m.SSpread {
				kind = "spread"
			}
			v.add("PossibleFragmentSpreads", kind+"("+parent.Kind+"/"+ft.Kind+")", ft.Name+" can never apply within "+parent.Name)
		})
	}
}

// ---------------------------------------------------------------- fields, arguments, directives, values

func opLocation(d *m.Def) string {
	if d.IsFragment {
		return "FRAGMENT_DEFINITION"
	}
	return strings.ToUpper(d.Op)
}

func (v *V) directives(ds []m.Dir, loc string) {
	seen := map[string]bool{}
	for _, d := range ds {
		def := v.mg.Directives[d.Name]
		if def == nil {
			v.add("KnownDirectives", "unknown-directive", "@"+d.Name)
		} else {
			ok := false
			for _, l := range def.Locations {
				if l == loc {
					ok = true
				}
			}
			if !ok {
				v.add("KnownDirectives", "misplaced("+loc+")", "@"+d.Name+" at "+loc)
			}
			if seen[d.Name] && !def.Repeatable {
				v.add("UniqueDirectivesPerLocation", "repeated-non-repeatable", "@"+d.Name)
			}
		}
		if def == nil && seen[d.Name] {
			// an unknown directive used twice: uniqueness cannot be judged without a definition
			v.Abstain = append(v.Abstain, "unknown-directive-repeated")
		}
		seen[d.Name] = true
		var defs []*m.ArgDef
		if def != nil {
			defs = def.Args
		}
		v.arguments(d.Args, defs, def != nil, "directive")
	}
}

func (v *V) arguments(args []m.Arg, defs []*m.ArgDef, known bool, where string) {
	seen := map[string]bool{}
	for _, a := range args {
		if seen[a.Name] {
			v.add("UniqueArgumentNames", "duplicate("+where+")", "argument "+a.Name)
		}
		seen[a.Name] = true
		var ad *m.ArgDef
		for _, d := range defs {
			if d.Name == a.Name {
				ad = d
			}
		}
		if known && ad == nil {
			v.add("KnownArgumentNames", "unknown-argument("+where+")", "argument "+a.Name)
		}
		v.uniqueInputFields(a.Value)
		if ad != nil {
			v.value(a.Value, ad.Type, ad.Default != nil, "argument")
		}
	}
	if known {
		for _, d := range defs {
			if d.Type.NonNull && d.Default == nil && !seen[d.Name] {
				v.add("ProvidedRequiredArguments", "missing("+where+")", "argument "+d.Name)
			}
		}
	}
}

func (v *V) uniqueInputFields(val *m.Value) {
	if val == nil {
		return
	}
	switch val.Kind {
	case m.VObject:
		seen := map[string]bool{}
		for _, f := range val.Fields {
			if seen[f.Name] {
				v.add("UniqueInputFieldNames", "duplicate", "input field "+f.Name)
			}
			seen[f.Name] = true
			v.uniqueInputFields(f.Value)
		}
	case m.VList:
		for _, it := range val.Items {
			v.uniqueInputFields(it)
		}
	}
}

func (v *V) selections() {
	for _, d := range v.doc.Defs {
		v.directives(d.Dirs, opLocation(d))
		v.walkSel(v.defParent(d), d.Sel, func(parent *tsys.Def, s *m.Sel) {
			switch s.Kind {
			case m.SField:
				v.directives(s.Dirs, "FIELD")
				if parent == nil {
					// unknown parent: argument literals can still repeat input field names
					for _, a := range s.Args {
						v.uniqueInputFields(a.Value)
					}
					seen := map[string]bool{}
					for _, a := range s.Args {
						if seen[a.Name] {
							v.add("UniqueArgumentNames", "duplicate(field)", "argument "+a.Name)
						}
						seen[a.Name] = true
					}
					return
				}
				if !parent.IsComposite() {
					// selection on a leaf or input type: reported by ScalarLeafs at the parent field
					return
				}
				fd := v.fieldDef(parent, s.Name)
				if fd == nil {
					v.add("FieldsOnCorrectType", "unknown-field("+parent.Kind+")", parent.Name+"."+s.Name)
					v.arguments(s.Args, nil, false, "field")
					return
				}
				v.arguments(s.Args, fd.Args, true, "field")
				ft := v.namedType(fd.Type)
				if ft != nil {
					if ft.IsLeaf() && len(s.Sel) > 0 {
						v.add("ScalarLeafs", "selection-on-leaf", parent.Name+"."+s.Name)
					}
					if ft.IsComposite() && len(s.Sel) == 0 {
						v.add("ScalarLeafs", "no-selection-on-composite", parent.Name+"."+s.Name)
					}
				}
			case m.SSpread:
				v.directives(s.Dirs, "FRAGMENT_SPREAD")
			case m.SInline:
				v.directives(s.Dirs, "INLINE_FRAGMENT")
			}
		})
	}
}

// ---------------------------------------------------------------- literal values (5.6.1)

func inInt32(raw string) bool {
	n, err := strconv.ParseInt(raw, 10, 64)
	return err == nil && n >= -2147483648 && n <= 2147483647
}

// value checks a literal against an expected type; variables are skipped here.
func (v *V) value(val *m.Value, t *m.Type, locHasDefault bool, where string) {
	if val == nil || t == nil {
		return
	}
	if val.Kind == m.VVar {
		return
	}
	if val.Kind == m.VNull {
		if t.NonNull {
			v.add("ValuesOfCorrectType", "null-for-non-null", "null where "+t.String()+" is expected")
		}
		return
	}
	if t.Elem != nil {
		if val.Kind == m.VList {
			for _, it := range val.Items {
				v.value(it, t.Elem, false, "list-item")
			}
			return
		}
		// list input coercion: a single value stands for a one-item list
		v.value(val, t.Elem, false, "list-item")
		return
	}
	td := v.mg.Types[t.Name]
	if td == nil {
		return
	}
	bad := func(reason string) {
		v.add("ValuesOfCorrectType", reason, fmt.Sprintf("%s %s where %s is expected", val.Kind, val.CanonString(), t.String()))
	}
	switch td.Kind {
	case "scalar":
		switch td.Name {
		case "Int":
			if val.Kind != m.VInt {
				bad("kind(" + val.Kind.String() + "-for-Int)")
			} else if !inInt32(val.Raw) {
				bad("int-out-of-range")
			}
		case "Float":
			if val.Kind != m.VInt && val.Kind != m.VFloat {
				bad("kind(" + val.Kind.String() + "-for-Float)")
			} else if val.Kind == m.VFloat {
				if f, err := strconv.ParseFloat(val.Raw, 64); err != nil || f > 1.7976931348623157e308 || f < -1.7976931348623157e308 {
					v.Abstain = append(v.Abstain, "float-overflow")
				}
			} else if _, err := strconv.ParseInt(val.Raw, 10, 64); err != nil {
				v.Abstain = append(v.Abstain, "int-beyond-int64-for-Float")
			}
		case "String":
			if val.Kind != m.VString {
				bad("kind(" + val.Kind.String() + "-for-String)")
			}
		case "Boolean":
			if val.Kind != m.VBool {
				bad("kind(" + val.Kind.String() + "-for-Boolean)")
			}
		case "ID":
			if val.Kind != m.VString && val.Kind != m.VInt {
				bad("kind(" + val.Kind.String() + "-for-ID)")
			} else if val.Kind == m.VInt {
				if _, err := strconv.ParseInt(val.Raw, 10, 64); err != nil {
					v.Abstain = append(v.Abstain, "int-beyond-int64-for-ID")
				}
			}
		default:
			// custom scalar: any literal (documented deviation: no coercion function to consult);
			// variables inside have no expected type but still count as uses (see valueUsages)
		}
	case "enum":
		if val.Kind != m.VEnum {
			bad("kind(" + val.Kind.String() + "-for-enum)")
			return
		}
		ok := false
		for _, ev := range td.Values {
			if ev.Name == val.Raw {
				ok = true
			}
		}
		if !ok {
			bad("unknown-enum-value")
		}
	case "input":
		if val.Kind != m.VObject {
			bad("kind(" + val.Kind.String() + "-for-input-object)")
			return
		}
		provided := map[string]*m.Value{}
		for _, f := range val.Fields {
			fd := td.Field(f.Name)
			if fd == nil {
				v.add("ValuesOfCorrectType", "unknown-input-field", td.Name+"."+f.Name)
				continue
			}
			if _, dup := provided[f.Name]; !dup {
				provided[f.Name] = f.Value
			}
			v.value(f.Value, fd.Type, fd.Default != nil, "input-field")
		}
		for _, fd := range td.Fields {
			if fd.Type.NonNull && fd.Default == nil {
				if _, ok := provided[fd.Name]; !ok {
					v.add("ValuesOfCorrectType", "missing-required-input-field", td.Name+"."+fd.Name)
				}
			}
		}
		if td.HasDir("oneOf") {
			if len(val.Fields) != 1 {
				v.add("ValuesOfCorrectType", "oneof-field-count", fmt.Sprintf("%s literal with %d fields", td.Name, len(val.Fields)))
			} else if val.Fields[0].Value != nil && val.Fields[0].Value.Kind == m.VNull {
				v.add("ValuesOfCorrectType", "oneof-null-field", td.Name+"."+val.Fields[0].Name)
			}
		}
	default:
		// an output type in an input position: the schema would not have loaded
	}
}

func containsVar(val *m.Value) bool {
	switch val.Kind {
	case m.VVar:
		return true
	case m.VList:
		for _, it := range val.Items {
			if containsVar(it) {
				return true
			}
		}
	case m.VObject:
		for _, f := range val.Fields {
			if containsVar(f.Value) {
				return true
			}
		}
	}
	return false
}
