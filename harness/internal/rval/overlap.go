package rval

import (
	"fmt"
	"sort"
	"strings"

	m "verif/harness/internal/model"
	"verif/harness/internal/tsys"
)

// ---------------------------------------------------------------- field selection merging (5.3.2)

type selGroup struct {
	parent *tsys.Def
	sels   []*m.Sel
}

type fieldRef struct {
	parent *tsys.Def
	sel    *m.Sel
	def    *m.FieldDef
}

type pairKey struct {
	a, b   *m.Sel
	pa, pb string
}

type overlapCtx struct {
	v        *V
	merged   map[pairKey]bool
	shaped   map[pairKey]bool
	reported map[string]bool
	budget   int
}

func pname(d *tsys.Def) string {
	if d == nil {
		return ""
	}
	return d.Name
}

func mkKey(a, b fieldRef) pairKey {
	k := pairKey{a.sel, b.sel, pname(a.parent), pname(b.parent)}
	if fmt.Sprintf("%p", a.sel) > fmt.Sprintf("%p", b.sel) {
		k = pairKey{b.sel, a.sel, pname(b.parent), pname(a.parent)}
	}
	return k
}

func responseName(s *m.Sel) string {
	if s.Alias != "" {
		return s.Alias
	}
	return s.Name
}

// collect gathers the fields of a set of selection groups by response name, looking through
// inline fragments and fragment spreads (each fragment once per collection).
func (c *overlapCtx) collect(groups []selGroup) (map[string][]fieldRef, []string) {
	out := map[string][]fieldRef{}
	var order []string
	visited := map[string]bool{}
	var walk func(parent *tsys.Def, ss []*m.Sel)
	walk = func(parent *tsys.Def, ss []*m.Sel) {
		for _, s := range ss {
			switch s.Kind {
			case m.SField:
				rn := responseName(s)
				if _, ok := out[rn]; !ok {
					order = append(order, rn)
				}
				out[rn] = append(out[rn], fieldRef{parent, s, c.v.fieldDef(parent, s.Name)})
			case m.SInline:
				np := parent
				if s.TypeCond != "" {
					np = c.v.mg.Types[s.TypeCond]
				}
				walk(np, s.Sel)
			case m.SSpread:
				if visited[s.Name] {
					continue
				}
				visited[s.Name] = true
				if fr := c.v.frags[s.Name]; fr != nil {
					walk(c.v.mg.Types[fr.TypeCond], fr.Sel)
				}
			}
		}
	}
	for _, g := range groups {
		walk(g.parent, g.sels)
	}
	return out, order
}

func (c *overlapCtx) report(reason, detail string) {
	if !c.reported[reason] {
		c.reported[reason] = true
		c.v.add("OverlappingFieldsCanBeMerged", reason, detail)
	}
}

func (c *overlapCtx) canMerge(groups []selGroup) {
	fields, order := c.collect(groups)
	for _, rn := range order {
		refs := fields[rn]
		for i := 0; i < len(refs); i++ {
			for j := i + 1; j < len(refs); j++ {
				a, b := refs[i], refs[j]
				if a.sel == b.sel && pname(a.parent) == pname(b.parent) {
					continue
				}
				if a.def == nil || b.def == nil {
					continue // an unknown field: reported by FieldsOnCorrectType
				}
				k := mkKey(a, b)
				if c.merged[k] {
					continue
				}
				c.merged[k] = true
				c.budget--
				if c.budget < 0 {
					c.v.Abstain = append(c.v.Abstain, "overlap-budget")
					return
				}
				c.sameShape(a, b, rn)
				sameParent := pname(a.parent) == pname(b.parent)
				aObj := a.parent != nil && a.parent.Kind == "type"
				bObj := b.parent != nil && b.parent.Kind == "type"
				if sameParent || !aObj || !bObj {
					if a.sel.Name != b.sel.Name {
						c.report("different-fields", fmt.Sprintf("%q is both %s and %s", rn, a.sel.Name, b.sel.Name))
						continue
					}
					if r := c.argsDiffer(a.sel.Args, b.sel.Args); r != "" {
						c.report("args-differ("+r+")", fmt.Sprintf("%q has differing arguments", rn))
						continue
					}
					c.canMerge([]selGroup{{c.v.namedType(a.def.Type), a.sel.Sel}, {c.v.namedType(b.def.Type), b.sel.Sel}})
				}
			}
		}
	}
}

// sameShape is SameResponseShape(fieldA, fieldB).
func (c *overlapCtx) sameShape(a, b fieldRef, rn string) {
	k := mkKey(a, b)
	if c.shaped[k] {
		return
	}
	c.shaped[k] = true
	ta, tb := a.def.Type, b.def.Type
	for {
		if ta.NonNull || tb.NonNull {
			if !ta.NonNull || !tb.NonNull {
				kind := "named"
				if ta.Elem != nil || tb.Elem != nil {
					kind = "list"
				}
				c.report("shape-nullability("+kind+")", fmt.Sprintf("%q: %s vs %s", rn, a.def.Type.String(), b.def.Type.String()))
				return
			}
		}
		if ta.Elem != nil || tb.Elem != nil {
			if ta.Elem == nil || tb.Elem == nil {
				c.report("shape-list-vs-nonlist", fmt.Sprintf("%q: %s vs %s", rn, a.def.Type.String(), b.def.Type.String()))
				return
			}
			ta, tb = ta.Elem, tb.Elem
			continue
		}
		break
	}
	da, db := c.v.mg.Types[ta.Name], c.v.mg.Types[tb.Name]
	if da == nil || db == nil {
		return
	}
	if da.IsLeaf() || db.IsLeaf() {
		if da.Name != db.Name {
			if da.IsLeaf() && db.IsLeaf() {
				c.report("shape-leaf-names", fmt.Sprintf("%q: %s vs %s", rn, da.Name, db.Name))
			} else {
				c.report("shape-leaf-vs-composite", fmt.Sprintf("%q: %s vs %s", rn, da.Name, db.Name))
			}
		}
		return
	}
	fields, order := c.collect([]selGroup{{da, a.sel.Sel}, {db, b.sel.Sel}})
	for _, n := range order {
		refs := fields[n]
		for i := 0; i < len(refs); i++ {
			for j := i + 1; j < len(refs); j++ {
				if refs[i].def == nil || refs[j].def == nil {
					continue
				}
				c.budget--
				if c.budget < 0 {
					return
				}
				c.sameShape(refs[i], refs[j], n)
			}
		}
	}
}

func canonArgValue(v *m.Value, sortObjects bool) string {
	if v == nil {
		return "<nil>"
	}
	switch v.Kind {
	case m.VList:
		var l []string
		for _, it := range v.Items {
			l = append(l, canonArgValue(it, sortObjects))
		}
		return "[" + strings.Join(l, ",") + "]"
	case m.VObject:
		var l []string
		for _, f := range v.Fields {
			l = append(l, f.Name+":"+canonArgValue(f.Value, sortObjects))
		}
		if sortObjects {
			sort.Strings(l)
		}
		return "{" + strings.Join(l, ",") + "}"
	}
	return fmt.Sprintf("%s(%q)", v.Kind, v.Raw)
}

// argsDiffer returns "" when both argument lists are identical, else a reason.
func (c *overlapCtx) argsDiffer(a, b []m.Arg) string {
	ma, mb := map[string]*m.Value{}, map[string]*m.Value{}
	for _, x := range a {
		ma[x.Name] = x.Value
	}
	for _, x := range b {
		mb[x.Name] = x.Value
	}
	if len(ma) != len(mb) {
		return "presence"
	}
	for n, va := range ma {
		vb, ok := mb[n]
		if !ok {
			return "presence"
		}
		// input object fields are compared by name: their written order carries no meaning (the
		// reference implementation's own tests allow a different order)
		if canonArgValue(va, true) != canonArgValue(vb, true) {
			switch {
			case va.Kind == m.VList || vb.Kind == m.VList:
				return "list"
			case va.Kind == m.VObject || vb.Kind == m.VObject:
				return "object"
			}
			return "scalar"
		}
	}
	return ""
}

func (v *V) overlapping() {
	c := &overlapCtx{v: v, merged: map[pairKey]bool{}, shaped: map[pairKey]bool{}, reported: map[string]bool{}, budget: 400000}
	for _, d := range v.doc.Defs {
		parent := v.defParent(d)
		c.canMerge([]selGroup{{parent, d.Sel}})
		// every nested selection set is a set of its own
		v.walkSel(parent, d.Sel, func(p *tsys.Def, s *m.Sel) {
			if s.Kind == m.SField && len(s.Sel) > 0 {
				if fd := v.fieldDef(p, s.Name); fd != nil {
					c.canMerge([]selGroup{{v.namedType(fd.Type), s.Sel}})
				}
			}
		})
	}
}
