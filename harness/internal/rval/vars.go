package rval

import (
	"fmt"

	m "verif/harness/internal/model"
	"verif/harness/internal/tsys"
)

// ---------------------------------------------------------------- variables (5.8)

type usage struct {
	name       string
	expected   *m.Type // nil when the position has no known type
	locDefault bool
	inOneOf    string // name of the @oneOf input object when the variable is the value of one of its fields
}

// valueUsages collects variable usages inside a value written at a position of type t (nil: unknown).
func (v *V) valueUsages(val *m.Value, t *m.Type, locDefault bool, out *[]usage) {
	if val == nil {
		return
	}
	switch val.Kind {
	case m.VVar:
		*out = append(*out, usage{name: val.Raw, expected: t, locDefault: locDefault})
	case m.VList:
		var et *m.Type
		if t != nil && t.Elem != nil {
			et = t.Elem
		}
		for _, it := range val.Items {
			v.valueUsages(it, et, false, out)
		}
	case m.VObject:
		// list input coercion: an object may stand for a one-item list
		for t != nil && t.Elem != nil {
			t = t.Elem
		}
		var td *tsys.Def
		if t != nil {
			td = v.mg.Types[t.Name]
		}
		for _, f := range val.Fields {
			var ft *m.Type
			ld := false
			if td != nil && td.Kind == "input" {
				if fd := td.Field(f.Name); fd != nil {
					ft, ld = fd.Type, fd.Default != nil
				}
			}
			before := len(*out)
			v.valueUsages(f.Value, ft, ld, out)
			if td != nil && td.Kind == "input" && td.HasDir("oneOf") && f.Value != nil && f.Value.Kind == m.VVar && len(*out) > before {
				(*out)[before].inOneOf = td.Name
			}
		}
	}
}

func (v *V) argUsages(args []m.Arg, defs []*m.ArgDef, out *[]usage) {
	for _, a := range args {
		var t *m.Type
		ld := false
		for _, d := range defs {
			if d.Name == a.Name {
				t, ld = d.Type, d.Default != nil
				break
			}
		}
		v.valueUsages(a.Value, t, ld, out)
	}
}

func (v *V) dirUsages(ds []m.Dir, out *[]usage) {
	for _, d := range ds {
		var defs []*m.ArgDef
		if def := v.mg.Directives[d.Name]; def != nil {
			defs = def.Args
		}
		v.argUsages(d.Args, defs, out)
	}
}

// selUsages collects usages in a selection set, following each fragment once.
func (v *V) selUsages(parent *tsys.Def, ss []*m.Sel, visited map[string]bool, out *[]usage) {
	for _, s := range ss {
		v.dirUsages(s.Dirs, out)
		switch s.Kind {
		case m.SField:
			fd := v.fieldDef(parent, s.Name)
			var defs []*m.ArgDef
			var next *tsys.Def
			if fd != nil {
				defs = fd.Args
				next = v.namedType(fd.Type)
			}
			v.argUsages(s.Args, defs, out)
			v.selUsages(next, s.Sel, visited, out)
		case m.SInline:
			next := parent
			if s.TypeCond != "" {
				next = v.mg.Types[s.TypeCond]
			}
			v.selUsages(next, s.Sel, visited, out)
		case m.SSpread:
			if visited[s.Name] {
				continue
			}
			visited[s.Name] = true
			if fr := v.frags[s.Name]; fr != nil {
				v.dirUsages(fr.Dirs, out)
				v.selUsages(v.mg.Types[fr.TypeCond], fr.Sel, visited, out)
			}
		}
	}
}

func (v *V) variables() {
	for _, d := range v.doc.Defs {
		if d.IsFragment {
			if len(d.Vars) > 0 {
				v.Abstain = append(v.Abstain, "fragment-variable-definitions")
			}
			continue
		}
		defs := map[string]*m.VarDef{}
		for i := range d.Vars {
			vd := &d.Vars[i]
			if _, dup := defs[vd.Name]; dup {
				v.add("UniqueVariableNames", "duplicate", "$"+vd.Name)
				continue
			}
			defs[vd.Name] = vd
		}
		for i := range d.Vars {
			vd := &d.Vars[i]
			td := v.namedType(vd.Type)
			if td == nil {
				v.add("KnownTypeNames", "unknown-type(variable)", "$"+vd.Name+": "+vd.Type.String())
			} else if !td.IsInput() {
				v.add("VariablesAreInputTypes", "output-type("+td.Kind+")", "$"+vd.Name+": "+vd.Type.String())
			}
			if vd.Default != nil {
				v.uniqueInputFields(vd.Default)
				if td != nil && td.IsInput() {
					v.value(vd.Default, vd.Type, false, "variable-default")
				}
				if containsVar(vd.Default) {
					v.Abstain = append(v.Abstain, "variable-in-default-value")
				}
			}
			v.directives(vd.Dirs, "VARIABLE_DEFINITION")
		}
		var us []usage
		v.dirUsages(d.Dirs, &us)
		v.selUsages(v.rootType(d.Op), d.Sel, map[string]bool{}, &us)
		used := map[string]bool{}
		for _, u := range us {
			vd := defs[u.name]
			if vd == nil {
				v.add("NoUndefinedVariables", "undefined", "$"+u.name)
				continue
			}
			used[u.name] = true
			if u.expected != nil {
				if !v.usageAllowed(vd, u) {
					v.add("VariablesInAllowedPosition", v.usageReason(vd, u), fmt.Sprintf("$%s: %s used where %s is expected", u.name, vd.Type.String(), u.expected.String()))
				}
			}
			if u.inOneOf != "" && !vd.Type.NonNull {
				v.add("ValuesOfCorrectType", "oneof-nullable-variable", "$"+u.name+" in "+u.inOneOf)
			}
		}
		for n := range defs {
			if !used[n] {
				v.add("NoUnusedVariables", "unused", "$"+n)
			}
		}
	}
}

// usageAllowed is IsVariableUsageAllowed of the specification.
func (v *V) usageAllowed(vd *m.VarDef, u usage) bool {
	vt, lt := vd.Type, u.expected
	if lt.NonNull && !vt.NonNull {
		hasVarDefault := vd.Default != nil && vd.Default.Kind != m.VNull
		if !hasVarDefault && !u.locDefault {
			return false
		}
		nl := *lt
		nl.NonNull = false
		return typesCompatible(vt, &nl)
	}
	return typesCompatible(vt, lt)
}

func (v *V) usageReason(vd *m.VarDef, u usage) string {
	vt, lt := vd.Type, u.expected
	switch {
	case vt.Base() != lt.Base():
		return "different-named-type"
	case lt.NonNull && !vt.NonNull:
		return "nullable-for-non-null"
	case (vt.Elem == nil) != (lt.Elem == nil):
		return "list-mismatch"
	}
	return "inner-nullability-or-depth"
}

// typesCompatible is AreTypesCompatible(variableType, locationType).
func typesCompatible(vt, lt *m.Type) bool {
	if lt.NonNull {
		if !vt.NonNull {
			return false
		}
		a, b := *vt, *lt
		a.NonNull, b.NonNull = false, false
		return typesCompatible(&a, &b)
	}
	if vt.NonNull {
		a := *vt
		a.NonNull = false
		return typesCompatible(&a, lt)
	}
	if lt.Elem != nil {
		if vt.Elem == nil {
			return false
		}
		return typesCompatible(vt.Elem, lt.Elem)
	}
	if vt.Elem != nil {
		return false
	}
	return vt.Name == lt.Name
}

// ---------------------------------------------------------------- introspection depth (library rule)

// introspectionDepth: below a __schema or __type field, no selection path (through inline fragments
// and fragment spreads, a fragment being entered at most once per path) may pass three fields named
// fields, interfaces, possibleTypes or inputFields.
func (v *V) introspectionDepth() {
	type key struct {
		frag  string
		depth int
	}
	for _, d := range v.doc.Defs {
		var find func(ss []*m.Sel)
		var exceeds func(ss []*m.Sel, depth int, onPath map[string]bool, memo map[key]bool) bool
		exceeds = func(ss []*m.Sel, depth int, onPath map[string]bool, memo map[key]bool) bool {
			for _, s := range ss {
				switch s.Kind {
				case m.SField:
					dd := depth
					switch s.Name {
					case "fields", "interfaces", "possibleTypes", "inputFields":
						dd++
						if dd >= 3 {
							return true
						}
					}
					if exceeds(s.Sel, dd, onPath, memo) {
						return true
					}
				case m.SInline:
					if exceeds(s.Sel, depth, onPath, memo) {
						return true
					}
				case m.SSpread:
					if onPath[s.Name] {
						continue
					}
					fr := v.frags[s.Name]
					if fr == nil {
						continue
					}
					k := key{s.Name, depth}
					if r, ok := memo[k]; ok {
						if r {
							return true
						}
						continue
					}
					onPath[s.Name] = true
					r := exceeds(fr.Sel, depth, onPath, memo)
					delete(onPath, s.Name)
					memo[k] = r
					if r {
						return true
					}
				}
			}
			return false
		}
		find = func(ss []*m.Sel) {
			for _, s := range ss {
				if s.Kind == m.SField && (s.Name == "__schema" || s.Name == "__type") {
					dd := 0
					if exceeds(s.Sel, dd, map[string]bool{}, map[key]bool{}) {
						v.add("MaxIntrospectionDepth", "list-depth", "introspection nests three list fields")
					}
					continue
				}
				if s.Kind != m.SSpread {
					find(s.Sel)
				}
			}
		}
		find(d.Sel)
	}
}
