// vcheck is the single binary behind every registered check: driver, worker and replay modes.
package main

import (
	"fmt"
	"os"

	"verif/harness/internal/core"
	"verif/harness/internal/mon"
)

func main() {
	if len(os.Args) < 2 {
		fmt.Fprintln(os.Stderr, "usage: vcheck drive <ID> <tier> | replay <ID> <file> | worker ... | replaycase ... | list")
		os.Exit(2)
	}
	switch os.Args[1] {
	case "drive":
		if len(os.Args) != 4 {
			os.Exit(2)
		}
		os.Exit(core.Drive(os.Args[2], os.Args[3]))
	case "replay":
		os.Exit(core.ReplayMain(os.Args[2:]))
	case "worker":
		os.Exit(core.WorkerMain(os.Args[2:]))
	case "replaycase":
		os.Exit(core.ReplayCaseMain(os.Args[2:]))
	case "debugpair":
		mon.DebugPair(os.Args[2])
	case "list":
		for _, id := range core.IDs() {
			fmt.Println(id)
		}
	default:
		os.Exit(2)
	}
}
