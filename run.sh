#!/bin/bash
# Entry point of every manifest command.
#   run.sh <ID> <quick|thorough>      run the check (rebuilds from /repo's working tree)
#   run.sh <ID> --replay <file>       re-execute one recorded case
#   run.sh --setup                    warm the build cache
set -u
ROOT="$(cd "$(dirname "$0")" && pwd)"
export VERIF_ROOT="$ROOT"
export GOFLAGS=-mod=mod GOPROXY=off GOSUMDB=off GOTOOLCHAIN=local
export GOCACHE="$ROOT/.gocache"
mkdir -p "$ROOT/bin" "$ROOT/evidence/tmp"
cd "$ROOT/harness" || exit 2
cmp -s /repo/go.sum go.sum || cp /repo/go.sum go.sum

RACE_IDS=" C11 "

build() { # $1 = output, $2.. = extra flags
  local out="$1"; shift
  go build -tags verif "$@" -o "$out" ./cmd/vcheck
}

if [ "${1:-}" = "--setup" ]; then
  build "$ROOT/bin/vcheck-setup" || exit 2
  build "$ROOT/bin/vcheck-setup-race" -race || exit 2
  rm -f "$ROOT/bin/vcheck-setup" "$ROOT/bin/vcheck-setup-race"
  echo "setup ok"
  exit 0
fi

ID="${1:?property id}"
MODE="${2:?quick|thorough|--replay}"
FLAGS=()
case "$RACE_IDS" in *" $ID "*) FLAGS+=(-race);; esac
if [ "${VERIF_RACE:-0}" = "1" ]; then FLAGS=(-race); fi

if [ "$MODE" = "--replay" ]; then
  BIN="$ROOT/bin/vcheck-$ID-replay"
  build "$BIN" "${FLAGS[@]}" || { echo "build failed" >&2; exit 2; }
  exec "$BIN" replay "$ID" "${3:?replay file}"
fi

BIN="$ROOT/bin/vcheck-$ID-$MODE"
build "$BIN" "${FLAGS[@]}" || { echo "build failed" >&2; exit 2; }
export VERIF_TIER="$MODE"
exec "$BIN" drive "$ID" "$MODE"
