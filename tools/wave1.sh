#!/bin/bash
# wave1.sh <N> <ID> — verify and run the seeds /tmp/seed<N>-<ID>/{A,B,C} against the property's own check (plus the checks in
# wave_extra_checks.txt) in the worktree /tmp/wt<N>-<ID>, with a frozen copy of the harness; log in /tmp/wave<N>.<ID>.log
N=$1; id=$2
cd /verif
extra=$(grep "^$id " tools/wave_extra_checks.txt | cut -d' ' -f2-)
H=/tmp/w${N}h-$id; rm -rf $H; cp -r /verif/harness $H; export HARNESS_DIR=$H
{ for v in A B C; do d=/tmp/seed$N-$id/$v; [ -f $d/patch.diff ] || continue
  echo "== $id-$v"; tools/seedverify.sh $d /tmp/wt$N-$id 2>&1 | tail -1; tools/wtrun.sh /tmp/wt$N-$id $d/patch.diff $id $extra; done; } > /tmp/wave$N.$id.log 2>&1
rm -rf $H
