#!/bin/bash
# seedtry.sh <ID> <checks...>  — verify both wave-2 seeds of a property in its worktree and run the given quick checks against them
ID="$1"; shift
for s in A B; do
  d=/tmp/seed2-$ID/$s
  [ -f $d/patch.diff ] || { echo "no $d"; continue; }
  /verif/tools/seedverify.sh $d /tmp/wt2-$ID
  /verif/tools/seedrun.sh $d/patch.diff "$@"
done
