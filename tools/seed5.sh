#!/bin/bash
# seed5.sh <ID> <checks…> — verify wave-3 seeds /tmp/seed5-<ID>/{A,B} in /tmp/wt5-<ID> and run the checks on each via wtrun.sh
ID="$1"; shift
for v in A B C; do
  d=/tmp/seed5-$ID/$v
  [ -f $d/patch.diff ] || { echo "$ID-$v: no patch"; continue; }
  echo "== $ID-$v: $(python3 -c "import json;print(json.load(open('$d/meta.json')).get('summary','')[:200])" 2>/dev/null)"
  /verif/tools/seedverify.sh $d /tmp/wt5-$ID 2>&1 | tail -3
  /verif/tools/wtrun.sh /tmp/wt5-$ID $d/patch.diff "$@"
done
