#!/bin/bash
# crossmatrix.sh <lanes> <seed names...> — robustness of every check against changes aimed at OTHER properties: each named
# seeded change is applied to a scratch worktree and ALL twenty quick checks run against it. A check may legitimately report a
# violation (one change can break several properties); what must not happen is a *broken check* (exit 2) - a monitor that takes
# the library's misbehaviour for its own fault. Writes seeded/CROSS.txt (one line per change, rc=2 entries flagged).
LANES=$1; shift
cd /verif
tmp=/tmp/crossmatrix.$$; mkdir -p $tmp
printf "%s\n" "$@" > $tmp/all
cp -r /verif/harness $tmp/harness; export HARNESS_DIR=$tmp/harness   # frozen copy: the run is independent of later edits
ALLIDS="C01 C02 C03 C04 C05 C06 C07 C08 C09 C10 C11 C12 C13 C14 C15 C16 C17 C18 C19 C20"
for l in $(seq 1 $LANES); do
  (
    wt=/tmp/wtx-$l
    git -C /repo worktree remove --force $wt 2>/dev/null
    git -C /repo worktree add -q --detach $wt HEAD || exit 2
    awk -v l=$l -v n=$LANES 'NR%n==l%n' $tmp/all | while read n; do
      d=/verif/seeded/$n
      [ -f $d/patch.diff ] || continue
      if ! git -C $wt apply --check $d/patch.diff 2>/dev/null; then echo "$n: PATCH DOES NOT APPLY" >> $tmp/out.$l; continue; fi
      res=$(tools/wtrun.sh $wt $d/patch.diff $ALLIDS | sed -E 's/^\[(C[0-9]+) rc=([0-9]+) violations=([0-9]+)[^]]*\].*/\1:\2/; s/^\[(C[0-9]+) build failed.*/\1:build/' | tr '\n' ' ')
      flag=""; echo "$res" | grep -q ":2\|build" && flag=" BROKEN"
      echo "$n$flag $res" >> $tmp/out.$l
    done
    git -C /repo worktree remove --force $wt
  ) &
done
wait
cat $tmp/out.* | sort > /verif/seeded/CROSS.txt
rm -rf $tmp
git -C /repo worktree prune
grep -c . /verif/seeded/CROSS.txt; grep "BROKEN" /verif/seeded/CROSS.txt
