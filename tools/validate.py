#!/usr/bin/env python3
"""Validate MANIFEST.json and evidence files against the task schemas (offline, jsonschema from the tooling venv)."""
import json, sys, glob, os
try:
    import jsonschema
except ImportError:
    sys.path.insert(0, "/opt/veriftools/pyvenv/lib/python3.11/site-packages")
    import jsonschema
root = os.path.dirname(os.path.dirname(os.path.abspath(__file__)))
ok = True
def check(path, schema_path):
    global ok
    try:
        jsonschema.validate(json.load(open(path)), json.load(open(schema_path)))
        print("ok  ", path)
    except Exception as e:
        ok = False
        print("FAIL", path, str(e)[:400])
check(os.path.join(root, "MANIFEST.json"), "/root/.vp/MANIFEST.schema.json")
for f in sorted(glob.glob(os.path.join(root, "evidence", "*.json"))):
    check(f, "/root/.vp/EVIDENCE.schema.json")
props = [json.loads(l)["id"] for l in open(os.path.join(root, "properties.jsonl"))]
man = json.load(open(os.path.join(root, "MANIFEST.json")))
claimed = [c["property_id"] for c in man["checks"]]
na = [c["property_id"] for c in man.get("not_applicable", [])]
for p in props:
    if (p in claimed) == (p in na):
        ok = False
        print("FAIL property", p, "claimed" if p in claimed else "neither claimed nor not_applicable")
sys.exit(0 if ok else 1)
