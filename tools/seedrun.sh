#!/bin/bash
# seedrun.sh <patch.diff> <ID> [<ID>...] — apply a seeded change to /repo, run the quick checks, undo it straight afterwards.
P="$1"; shift
cd /verif
if ! git -C /repo diff --quiet; then echo "/repo has uncommitted changes"; exit 2; fi
git -C /repo apply "$P" || { echo "patch does not apply to /repo"; exit 2; }
trap 'git -C /repo checkout -- .' EXIT
for id in "$@"; do
  out=$(VERIF_KEEP=1 ./run.sh "$id" ${TIER:-quick} 2>&1); rc=$?
  nv=$(echo "$out" | grep -c '^VIOLATION')
  echo "[$id rc=$rc violations=$nv] $(echo "$out" | grep -m3 'signature=' | sed 's/observed=.*//' | tr '\n' ' ')"
done
