#!/bin/bash
# seed3.sh <ID> <checks…> — verify wave-3 seeds /tmp/seed3-<ID>/{A,B} in /tmp/wt3-<ID> and run the checks on each via wtrun.sh
ID="$1"; shift
for v in A B; do
  d=/tmp/seed3-$ID/$v
  [ -f $d/patch.diff ] || { echo "$ID-$v: no patch"; continue; }
  echo "== $ID-$v: $(python3 -c "import json;print(json.load(open('$d/meta.json')).get('summary','')[:200])" 2>/dev/null)"
  /verif/tools/seedverify.sh $d /tmp/wt3-$ID 2>&1 | tail -3
  /verif/tools/wtrun.sh /tmp/wt3-$ID $d/patch.diff "$@"
done
