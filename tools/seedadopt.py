#!/usr/bin/env python3
"""seedadopt.py <seed-dir> <name> <detected_by text> — copy a confirmed seeded change into /verif/seeded/<name>/ and record what was run."""
import json, os, shutil, sys, glob
sd, name, det = sys.argv[1], sys.argv[2], sys.argv[3]
dst = os.path.join("/verif/seeded", name)
os.makedirs(dst, exist_ok=True)
shutil.copy(os.path.join(sd, "patch.diff"), dst)
for f in glob.glob(os.path.join(sd, "*_test.go")):
    shutil.copy(f, dst)
try:
    meta = json.load(open(os.path.join(sd, "meta.json")))
except Exception:
    meta = {}
meta["confirmed"] = "tools/seedverify.sh in a scratch worktree: suite green with the change, demo red with it, demo green without"
meta["detected_by"] = det
json.dump(meta, open(os.path.join(dst, "meta.json"), "w"), indent=1)
print("adopted", dst)
