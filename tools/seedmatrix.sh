#!/bin/bash
# seedmatrix.sh [name-prefix]  — apply every confirmed seeded change to /repo in turn (undoing it straight afterwards), run the quick
# checks named in its meta.json "detected_by" (plus the check of its own property) and print one line per seed.
# Writes /verif/seeded/MATRIX.txt. /repo must be clean; nothing else should use /repo meanwhile.
cd /verif
out=/verif/seeded/MATRIX.txt
[ -z "$1" ] && : > $out
for d in /verif/seeded/${1}*/; do
  n=$(basename $d)
  [ -f $d/patch.diff ] || continue
  own=${n%%-*}
  ids=$( (echo $own; python3 -c "import json,re;print(' '.join(re.findall(r'\bC[0-9][0-9]\b', json.load(open('$d/meta.json')).get('detected_by',''))))") | tr ' ' '\n' | grep -v '^$' | sort -u | tr '\n' ' ')
  if ! git -C /repo diff --quiet; then echo "/repo dirty"; exit 2; fi
  if ! git -C /repo apply $d/patch.diff 2>/dev/null; then echo "$n: PATCH DOES NOT APPLY" | tee -a $out; continue; fi
  res=""
  for id in $ids; do
    o=$(./run.sh $id quick 2>&1); rc=$?
    nv=$(echo "$o" | grep -ac '^VIOLATION')
    res="$res $id:rc=$rc/v=$nv"
  done
  git -C /repo checkout -- .
  killed=no; echo "$res" | grep -q "rc=1" && killed=yes
  echo "$n killed=$killed$res" | tee -a $out
done
