#!/bin/bash
# wtrun.sh <worktree> <patch.diff|-> <ID> [<ID>...] — run quick checks against a scratch worktree of gqlparser (with the patch
# applied there first, '-' for none) without touching /repo or /verif/evidence. Development aid for seeded changes only: manifest
# commands never use it. Everything it writes lives under /tmp/wtrun-<basename of worktree> and is removed afterwards.
set -u
WT="$(cd "$1" && pwd)"; P="$2"; shift 2
export GOFLAGS=-mod=mod GOPROXY=off GOSUMDB=off GOTOOLCHAIN=local
export GOCACHE=/verif/.gocache
S=/tmp/wtrun-$(basename "$WT")
rm -rf "$S"; mkdir -p "$S/root/evidence/tmp" "$S/bin"
trap 'rm -rf "$S"; [ "$P" != "-" ] && git -C "$WT" checkout -q -- . && git -C "$WT" clean -fdq' EXIT
if [ "$P" != "-" ]; then
  git -C "$WT" checkout -q -- . && git -C "$WT" clean -fdq
  git -C "$WT" apply "$P" || { echo "patch does not apply to $WT"; exit 2; }
fi
H="${HARNESS_DIR:-/verif/harness}"   # a frozen copy of the harness may be named (long matrix runs while the harness is being edited)
sed "s#=> /repo#=> $WT#" "$H/go.mod" > "$S/go.mod"
cp "$H/go.sum" "$S/go.sum"
cp /verif/known_findings.json "$S/root/"
cd "$H" || exit 2
for id in "$@"; do
  FL=(); [ "$id" = "C11" ] && FL=(-race)
  if ! go build -modfile="$S/go.mod" -tags verif "${FL[@]}" -o "$S/bin/vcheck-$id" ./cmd/vcheck 2>"$S/build.log"; then
    echo "[$id build failed] $(head -3 "$S/build.log" | tr '\n' ' ')"; continue
  fi
  out=$(VERIF_ROOT="$S/root" VERIF_TIER=${TIER:-quick} "$S/bin/vcheck-$id" drive "$id" ${TIER:-quick} 2>&1); rc=$?
  nv=$(echo "$out" | grep -c '^VIOLATION')
  mc=$(echo "$out" | grep -o 'signature=[^ ]* count=[0-9]*' | sed 's/.*count=//' | sort -n | tail -1)
  echo "[$id rc=$rc violations=$nv maxcount=${mc:-0}] $(echo "$out" | grep -m3 'signature=' | sed 's/observed=.*//' | tr '\n' ' ')"
done
