#!/bin/bash
# repofix.sh "<commit message>"  — run the repository suite (hooks off) on /repo's working tree; commit only when it is green.
export GOFLAGS=-mod=mod GOPROXY=off GOSUMDB=off GOTOOLCHAIN=local
cd /repo || exit 2
gofmt -l . | grep -v "^$" && { echo "gofmt differences above"; }
out=$(go test -vet=off -count=1 ./... 2>&1)
if echo "$out" | grep -q "^FAIL\|^---\|panic:"; then
  echo "$out" | grep -v "no test files" | grep -v "^ok" | head -${LINES_SHOWN:-40}
  echo "SUITE RED: not committed (working tree left as is; git -C /repo checkout -- . to drop)"
  exit 1
fi
git commit -qam "$1" && git log --oneline -1 | cat
