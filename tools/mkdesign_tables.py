#!/usr/bin/env python3
"""Regenerate the generated tables of DESIGN.md (between the GENERATED markers) from known_findings.json and seeded/*/meta.json."""
import json, glob, os, re
root = os.path.dirname(os.path.dirname(os.path.abspath(__file__)))
kf = json.load(open(os.path.join(root, "known_findings.json")))
out = []
out.append("### 9.2 Defects repaired in /repo (`fix:` commits), found by the checks\n")
out.append("| finding | property | commit | what failed |")
out.append("|---|---|---|---|")
for f in kf:
    if f["status"] == "fixed":
        what = re.sub(r"^fixed: property=\S+ \S+ ", "", f["what"]).replace("|", "\\|")
        out.append(f"| {f['id']} | {f['property']} | `{f.get('commit','')}` | {what} |")
out.append("")
out.append("### 9.3 Known findings (genuine defects recorded, not repaired)\n")
out.append("| finding | property | signature suppressed | why it is not repaired |")
out.append("|---|---|---|---|")
for f in kf:
    if f["status"] == "finding":
        out.append(f"| {f['id']} | {f['property']} | `{f['signature']}` | {f['what'].replace('|', chr(92)+'|')} |")
out.append("")
out.append("### 9.4 Seeded changes (from independent sub-agents) and the checks that catch them\n")
out.append("| seed | property | what was changed / what it needs | detected by |")
out.append("|---|---|---|---|")
for d in sorted(glob.glob(os.path.join(root, "seeded", "*"))):
    try:
        m = json.load(open(os.path.join(d, "meta.json")))
    except Exception:
        continue
    name = os.path.basename(d)
    summ = (m.get("summary", "") or "")[:260].replace("|", "\\|").replace("\n", " ")
    needs = (m.get("needs", "") or "")[:220].replace("|", "\\|").replace("\n", " ")
    det = (m.get("detected_by", "") or "").replace("|", "\\|").replace("\n", " ")
    out.append(f"| {name} | {m.get('property', name.split('-')[0])} | {summ} **Needs:** {needs} | {det} |")
text = "\n".join(out) + "\n"
p = os.path.join(root, "DESIGN.md")
s = open(p).read()
a, b = "<!-- GENERATED:BEGIN -->", "<!-- GENERATED:END -->"
if a in s and b in s:
    s = s[:s.index(a) + len(a)] + "\n" + text + s[s.index(b):]
    open(p, "w").write(s)
    print("DESIGN.md tables regenerated")
else:
    print(text)
