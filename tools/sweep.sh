#!/bin/bash
# sweep.sh [seeds...] — thorough tier of every check, then the quick tier at the given VERIF_SEED values (default 5 6 7); one line per run.
# Used through `vp run -- tools/sweep.sh` on a committed snapshot; logs go to evidence/tmp (ignored by git), nothing is kept under /tmp.
cd "$(dirname "$0")/.." || exit 2
seeds="$@"; [ -z "$seeds" ] && seeds="5 6 7"
L=evidence/tmp/sweep; mkdir -p $L
for id in C08 C19 C11 C14 C10 C02 C07 C04 C05 C06 C09 C12 C13 C15 C16 C17 C18 C20 C01 C03; do s=$(date +%s); ./run.sh $id thorough > $L/thor.$id.log 2>&1; rc=$?
  echo "T $id rc=$rc $(( $(date +%s)-s ))s viol=$(grep -c "^VIOLATION" $L/thor.$id.log) known=$(grep -c "^KNOWN-FINDING" $L/thor.$id.log) $(grep -m2 "signature=\|BROKEN" $L/thor.$id.log | cut -c1-220 | tr "\n" " ")"; done
for s in $seeds; do for id in C01 C02 C03 C04 C05 C06 C07 C08 C09 C10 C11 C12 C13 C14 C15 C16 C17 C18 C19 C20; do out=$(VERIF_SEED=$s ./run.sh $id quick 2>&1); rc=$?
  echo "Q seed=$s $id rc=$rc $(echo "$out" | grep -m2 "signature=\|BROKEN" | cut -c1-220 | tr "\n" " ")"; done; done
