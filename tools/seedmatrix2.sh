#!/bin/bash
# seedmatrix2.sh [lanes] — like seedmatrix.sh, but each seeded change is applied to a scratch worktree of /repo's HEAD (never to
# /repo itself) and the checks run against that worktree through wtrun.sh, several lanes in parallel. Writes seeded/MATRIX.txt.
LANES=${1:-4}
cd /verif
tmp=/tmp/seedmatrix2.$$; mkdir -p $tmp
ls -d /verif/seeded/*/ | xargs -n1 basename > $tmp/all
cp -r /verif/harness $tmp/harness; export HARNESS_DIR=$tmp/harness   # frozen copy: the run is independent of later edits
echo "# harness of /verif commit $(git -C /verif rev-parse --short HEAD)$(git -C /verif diff --quiet -- harness || echo +dirty), /repo $(git -C /repo rev-parse --short HEAD)" > $tmp/head
for l in $(seq 1 $LANES); do
  (
    wt=/tmp/wtm-$l
    git -C /repo worktree remove --force $wt 2>/dev/null
    git -C /repo worktree add -q --detach $wt HEAD || exit 2
    awk -v l=$l -v n=$LANES 'NR%n==l%n' $tmp/all | while read n; do
      d=/verif/seeded/$n
      [ -f $d/patch.diff ] || continue
      own=${n%%-*}
      ids=$( (echo $own; python3 -c "import json,re;print(' '.join(re.findall(r'\bC[0-9][0-9]\b', json.load(open('$d/meta.json')).get('detected_by',''))))") | tr ' ' '\n' | grep -v '^$' | sort -u | tr '\n' ' ')
      if ! git -C $wt apply --check $d/patch.diff 2>/dev/null; then echo "$n: PATCH DOES NOT APPLY" >> $tmp/out.$l; continue; fi
      res=$(tools/wtrun.sh $wt $d/patch.diff $ids | sed -E 's/^\[(C[0-9]+) rc=([0-9]+) violations=([0-9]+) maxcount=([0-9]+)\].*/\1:rc=\2\/v=\3\/n=\4/' | tr '\n' ' ')
      killed=no; echo "$res" | grep -q "rc=1" && killed=yes
      echo "$n killed=$killed $res" >> $tmp/out.$l
    done
    git -C /repo worktree remove --force $wt
  ) &
done
wait
(cat $tmp/head; cat $tmp/out.* | sort) > /verif/seeded/MATRIX.txt
rm -rf $tmp
git -C /repo worktree prune
grep -c "killed=yes" /verif/seeded/MATRIX.txt; grep -v "killed=yes" /verif/seeded/MATRIX.txt
