#!/bin/bash
# seedverify.sh <seed-dir> <worktree>   — confirm a seeded change: suite green with it, demo red with it, demo green without.
# Prints a one-line verdict; exit 0 when all three hold.
export GOFLAGS=-mod=mod GOPROXY=off GOSUMDB=off GOTOOLCHAIN=local
SD="$1"; WT="$2"
[ -f "$SD/patch.diff" ] || { echo "no patch in $SD"; exit 2; }
PKG=$(python3 -c "import json,sys;print(json.load(open('$SD/meta.json')).get('demo_pkg_dir','.'))" 2>/dev/null || echo .)
DEMO=$(ls "$SD"/*_test.go 2>/dev/null | head -1)
cd "$WT" || exit 2
git checkout -q -- . && git clean -fdq
git apply "$SD/patch.diff" || { echo "SEED $SD: patch does not apply"; exit 2; }
go build ./... || { echo "SEED $SD: does not compile"; git checkout -q -- .; exit 1; }
if go test -vet=off -count=1 ./... >/tmp/seedverify.$$.log 2>&1; then SUITE=green; else SUITE=RED; fi
cp "$DEMO" "$WT/$PKG/seed_demo_test.go"
if (cd "$WT/$PKG" && go test -vet=off -count=1 -run . . >/tmp/seedverify.$$.d1 2>&1); then WITH=green; else WITH=red; fi
git checkout -q -- .
if (cd "$WT/$PKG" && go test -vet=off -count=1 -run . . >/tmp/seedverify.$$.d2 2>&1); then WITHOUT=green; else WITHOUT=RED; fi
rm -f "$WT/$PKG/seed_demo_test.go"; git clean -fdq
echo "SEED $SD: suite=$SUITE demo_with_change=$WITH demo_without=$WITHOUT"
[ "$SUITE" = green ] && [ "$WITH" = red ] && [ "$WITHOUT" = green ] || { tail -5 /tmp/seedverify.$$.log /tmp/seedverify.$$.d1 /tmp/seedverify.$$.d2; rm -f /tmp/seedverify.$$.*; exit 1; }
rm -f /tmp/seedverify.$$.*
exit 0
