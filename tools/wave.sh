#!/bin/bash
# wave.sh prep <N> | run <N> [ids...] | summary <N> | clean <N>  — housekeeping for a wave of independently seeded changes.
#  prep:    /tmp/seed<N>-<ID>/{PROPERTY.md,ALREADY_TRIED.md} from properties.jsonl and seeded/*/meta.json, worktrees /tmp/wt<N>-<ID> at /repo HEAD
#  run:     for every /tmp/seed<N>-<ID>/<A|B|C>: seedverify + the property's own check (plus checks named in EXTRA_<ID>) through wtrun.sh, three lanes
#  summary: kills / misses from the lane logs;  clean: remove the worktrees
cmd=$1; N=$2; shift 2
cd /verif
case $cmd in
prep)
  for i in $(seq -w 1 20); do id=C$i; mkdir -p /tmp/seed$N-$id
    python3 - $id $N <<'PY'
import json,sys,glob
id,N=sys.argv[1],sys.argv[2]
import shutil
shutil.copy(f'/verif/tools/property_md/{id}.md', f'/tmp/seed{N}-{id}/PROPERTY.md')
out=["# Changes that were already tried for this property (do NOT repeat these or close variants; find different code sites and different mechanisms)\n"]
for d in sorted(glob.glob(f"/verif/seeded/{id}-*/"))+sorted(glob.glob(f"/verif/seeded/out-of-scope/{id}-*/")):
    try: m=json.load(open(d+"meta.json"))
    except Exception: continue
    out.append("- "+m.get("summary","")[:230].replace("\n"," "))
out.append(open('/verif/tools/wave_hints.md').read())
open(f"/tmp/seed{N}-{id}/ALREADY_TRIED.md","w").write("\n".join(out)+"\n")
PY
    git -C /repo worktree add -q --detach /tmp/wt$N-$id HEAD
  done
  git -C /repo worktree list | wc -l ;;
run)
  ids="$@"; [ -z "$ids" ] && ids=$(seq -w 1 20 | sed 's/^/C/')
  one() { id=$1; extra=$(grep "^$id " /verif/tools/wave_extra_checks.txt | cut -d' ' -f2-)
    for v in A B C; do d=/tmp/seed$N-$id/$v; [ -f $d/patch.diff ] || continue
      echo "== $id-$v"; tools/seedverify.sh $d /tmp/wt$N-$id 2>&1 | tail -1; tools/wtrun.sh /tmp/wt$N-$id $d/patch.diff $id $extra; done; }
  rm -rf /tmp/wave$N.harness; cp -r /verif/harness /tmp/wave$N.harness; export HARNESS_DIR=/tmp/wave$N.harness   # frozen copy: the harness may be edited while the lanes run
  rm -f /tmp/wave$N.*.log; l=0
  for id in $ids; do l=$(( (l % 3) + 1 )); eval "lane$l=\"\$lane$l $id\""; done
  for l in 1 2 3; do eval "lst=\$lane$l"; ( for id in $lst; do one $id; done ) > /tmp/wave$N.$l.log 2>&1 & done
  wait; rm -rf /tmp/wave$N.harness ;;
summary)
  cat /tmp/wave$N.*.log | awk '/^==/{name=$2; seen[name]=1} /^SEED/{ if ($0 !~ /suite=green demo_with_change=red demo_without=green/) bad[name]=$0 } /^\[/{ if ($0 ~ /rc=1/) k[name]=1; if ($0 ~ /rc=2|build failed/) b[name]=$0 } END{n=0; for (s in seen) { n++; if (!k[s]) print s, "NOT-KILLED"; if (s in b) print s, "BROKEN", b[s]; if (s in bad) print s, "UNVERIFIED", bad[s] } print n, "seeds" }' | sort ;;
clean)
  for i in $(seq -w 1 20); do git -C /repo worktree remove --force /tmp/wt$N-C$i 2>/dev/null; done; git -C /repo worktree prune ;;
esac
