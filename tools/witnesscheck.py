#!/usr/bin/env python3
"""For every 'fixed' entry of known_findings.json: build the harness against /repo at the commit BEFORE the fix (scratch worktree
under /tmp, removed afterwards) and replay the witness. Prints the signatures the witness produces there: a fixed entry whose
witness is silent before its fix would be a regression test that tests nothing."""
import json, os, subprocess, shutil, sys
env = dict(os.environ, GOFLAGS="-mod=mod", GOPROXY="off", GOSUMDB="off", GOTOOLCHAIN="local", GOCACHE="/verif/.gocache")
kf = json.load(open("/verif/known_findings.json"))
only = set(sys.argv[1:])
wt, hc = "/tmp/wtfix", "/tmp/harness-copy"
bad = 0
for f in kf:
    if f["status"] != "fixed" or (only and f["id"] not in only):
        continue
    commit = f["commit"]
    subprocess.run(["git", "-C", "/repo", "worktree", "remove", "--force", wt], capture_output=True)
    shutil.rmtree(hc, ignore_errors=True)
    r = subprocess.run(["git", "-C", "/repo", "worktree", "add", "-q", "--detach", wt, commit + "^"], capture_output=True, text=True)
    if r.returncode != 0:
        print(f["id"], "cannot check out", commit, r.stderr.strip()); bad += 1; continue
    shutil.copytree("/verif/harness", hc)
    gm = open(hc + "/go.mod").read().replace("=> /repo", "=> " + wt)
    open(hc + "/go.mod", "w").write(gm)
    tags = "verif"
    b = subprocess.run(["go", "build", "-tags", tags, "-o", "/tmp/vcheck-fix", "./cmd/vcheck"], cwd=hc, env=env, capture_output=True, text=True)
    if b.returncode != 0:
        print(f["id"], "harness does not build against", commit + "^:", b.stderr.strip()[:300]); bad += 1; continue
    json.dump(f["witness"], open("/tmp/witness-case.json", "w"))
    subprocess.run(["/tmp/vcheck-fix", "replaycase", f["property"], "quick", "1", "/tmp/witness-case.json", "/tmp/witness-out.json"], env=dict(env, VERIF_ROOT="/tmp/witness-root"), capture_output=True)
    try:
        out = json.load(open("/tmp/witness-out.json"))
        sigs = sorted(out.get("sig_counts", {}).keys())
    except Exception as e:
        sigs = ["<worker died: crash before the fix>"]
    status = "ok  " if sigs else "SILENT"
    if not sigs: bad += 1
    print(status, f["id"], commit, "listed:", f["signature"], "| before the fix:", "; ".join(sigs)[:400])
subprocess.run(["git", "-C", "/repo", "worktree", "remove", "--force", wt], capture_output=True)
shutil.rmtree(hc, ignore_errors=True)
for p in ["/tmp/vcheck-fix", "/tmp/witness-case.json", "/tmp/witness-out.json"]:
    if os.path.exists(p): os.remove(p)
shutil.rmtree("/tmp/witness-root", ignore_errors=True)
sys.exit(1 if bad else 0)
