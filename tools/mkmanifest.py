#!/usr/bin/env python3
"""Generate /verif/MANIFEST.json from the table below (single source of truth for the registered checks)."""
import json, os, subprocess

root = os.path.dirname(os.path.dirname(os.path.abspath(__file__)))

# id -> (technique, level text, level note, design ref)
CHECKS = {
 "C01": ("crash/fatal/hang monitor + lexer-progress invariant + hook step counters + error-location bounds oracle over exhaustive short byte strings, corpus mutations, soups and nesting bombs",
         "Exploration: every input runs through ReadToken-to-EOF, ParseQuery, ParseSchema and the token-limited entry points in isolated worker processes; panics, fatal exits (stack exhaustion), hangs, step-budget overruns (deterministic hook counters, linear budget), nil-document-and-nil-error results and syntax-error locations outside the input are violations. ~190k inputs quick, ~3.7M thorough, bombs to 8 MiB under limits.",
         "Polynomial time is decided on logical step counts, not wall time; unlimited parsing explored to 64 KiB inputs; token limits to 100 000.",
         "DESIGN.md §4 C01"),
 "C02": ("crash/fatal/hang monitor in isolated workers + deterministic hook step counters: absolute budget C*n^2*log n per load/validation and doubling-ratio growth test on 20 size-parametrised adversarial families",
         "Exploration: 7k (quick) / 180k (thorough) schema texts (valid, 1-2 injected faults, random and token-mutated SDL) through LoadSchema and 11k / 290k documents (valid, 0-3 faults, collision, type-blind) through Validate (twice per tree), all under a step budget; 20 families (fragment fan-out under field/__schema/__type/subscription/aliases/inline fragments, cycles through fields, mutual spreads, alias chains, sibling floods, deep literals, @oneOf variables, loader chains/diamonds/unions/extensions) measured at k and 2k for k=4..32 (64 thorough) with ratio <= 24.",
         "Steps are hook counts (deterministic); loops without a hook fall back to the worker watchdog (600 s). One defect repaired (f60b1e2, exponential introspection-depth rule); crashes found through C07/C08 workloads are recorded there.",
         "DESIGN.md §4 C02"),
 "C03": ("reference-model monitor: independent spec-transcribed lexer compared token by token with lexer.ReadToken; metamorphic ignored-token insertion",
         "Exploration with exhaustive sub-spaces: all strings up to length 5 (quick) / 6 (thorough) over 19 lexically significant symbols and all block-string bodies up to 7 / 9 over 6 symbols, plus random Unicode token soups; kinds, character extents, semantic values and failure points compared with a reference lexer written from the October 2021 grammar.",
         "Trusts the reference lexer; abstains on invalid UTF-8, code points above U+FFFF and surrogate \\u escapes. One recorded known finding (block-string close run).",
         "DESIGN.md §4 C03"),
 "C04": ("position monitor: independent line index + reference token starts applied to every token, every *ast.Position found by reflection and every error location",
         "Exploration: documents of both grammars rendered with hostile trivia (multi-line block strings, CR/CRLF/LF CR, BOMs, comments, multi-byte) before every node kind, their single-token mutations (error locations), multi-file schema loads and validation errors; offset range, token-start, line, column, file and anchor text checked for every position the library reports.",
         "Trusts the line index (15 lines) and the reference lexer; lexical errors are only checked for bounds. One recorded known finding (quoted-string column, pinned by the suite).",
         "DESIGN.md §4 C04"),
 "C05": ("reference-model monitor: Earley recognizer running the Appendix-B executable grammar as data vs ParseQuery on bounded-exhaustive token sequences, rendered trees and token mutations; model-tree round trip under two trivia placements",
         "Exploration with an exhaustive core: every token sequence up to length 5 (quick) / 6 (thorough) over 18 token classes and every one-token extension of every viable prefix up to length 7 / 8 (4.3M sequences quick), 38k (quick) / 1.5M (thorough) single-token mutants of rendered documents, and 12k / 500k unmutated renderings whose parsed tree must equal the generated tree under hostile and single-space trivia.",
         "Trusts the grammar transcription (Oct 2021 Appendix B + fragment variable definitions) and the reference lexer; abstains on inputs the reference lexer abstains on. Two defects repaired (a09777e, de69567); one recorded finding (empty document accepted).",
         "DESIGN.md §4 C05"),
 "C06": ("reference-model monitor: Earley recognizer running the Appendix-B type-system grammar as data vs ParseSchema on bounded-exhaustive token sequences (viable-prefix extension, all one-token extensions of dead prefixes), rendered trees and token mutations; model-tree round trip; BuiltIn-flag monitor over multi-source parses",
         "Exploration with an exhaustive core: every token sequence up to length 3 (quick) / 4 (thorough) over 39 type-system token classes, every one-token extension of every viable prefix up to length 6 / 7 and every one-token extension of each freshly dead prefix (51M sequences quick), 29k / 750k single-token mutants of rendered documents, 9.6k / 250k unmutated renderings whose parsed tree must equal the generated tree under two trivia placements, and 2.4k / 62k multi-source parses checking the BuiltIn flag and source identity of every definition and extension.",
         "Trusts the grammar transcription (Oct 2021 Appendix B) and the reference lexer. Six defects repaired (4d982fd, ed840c2, b3e17c4, ce4e730, 4c3db2d, 11abd49); two recorded findings (reserved enum value names accepted - pinned by the suite; empty document accepted).",
         "DESIGN.md §4 C06"),
 "C07": ("three-way reference-model monitor: valid-by-construction schema generator, 36-entry fault catalogue (one injector per enumerated rule) and an independent type-system rule checker vs gqlparser.LoadSchema; graph-closure monitor over every returned *ast.Schema; inclusion of the October 2021 specification's built-ins (written down independently) in loaded schemas; valid and faulted variants of one schema loaded in both orders",
         "Fault enumeration + exploration: 5k (quick) / 200k (thorough) generated schemas must load; each with every applicable single injected violation (54k / 6M faulted schemas, all 36 rule codes reached, counted per code) must be rejected; 20k / 500k random SDL documents judged in the direction violation => rejected. Every loaded schema is walked: type references, interface/union member kinds, PossibleTypes/Implements equal the relations implied by the definitions (no nil, pointer identity), built-ins, roots, introspection fields.",
         "Trusts the rule checker (written from the property's rule list and spec section 3) and the C06-checked parser used to read SDL back into the model; rules the loader enforces beyond the enumeration are recognised and not judged. Two defects repaired (4ab1531, adc721d).",
         "DESIGN.md §4 C07"),
 "C08": ("three-way reference-model monitor: schema-directed valid-by-construction document generator, 45-entry fault catalogue (at least one per rule) and a reference validator written from the specification's algorithms vs validator.Validate; emptiness of the error list compared",
         "Fault enumeration + exploration: 2k (quick) / 50k (thorough) generated schemas x 8 valid documents each (must be accepted), each with two single faults (must be rejected, counted per fault class and reference reason code), multi-fault and type-blind documents judged by the reference validator alone; ~49k documents quick, ~1.2M thorough.",
         "Trusts the reference validator (spec section 5 algorithms: CollectFields, FieldsInSetCanMerge/SameResponseShape, IsVariableUsageAllowed, literal coercion tables, plus the library's root-type and introspection-depth rules); abstains where the specification is silent. Twelve defects repaired in validator rules and walker (see known_findings.json).",
         "DESIGN.md §4 C08"),
 "C09": ("link monitor: an independent top-down typing pass over every validated tree recomputes each annotation from names and the schema's maps and compares by pointer identity",
         "Exploration: 16k (quick) / 400k (thorough) documents valid by construction (deep literals, list-coerced values, fragments on unions/interfaces, __typename, introspection fields, variables through fragments, directives everywhere) are validated; ~190k fields, ~170k values, ~28k variable uses, ~32k directives per quick run are checked for Definition / ObjectDefinition / ExpectedType / VariableDefinition / Location links, in operations and in every fragment definition.",
         "Complete by construction over the documents generated (visits every node); custom-scalar literal contents are excepted as the property states; __typename's synthetic definition is checked by name and type.",
         "DESIGN.md §4 C09"),
 "C10": ("determinism monitor: byte equality of canonically serialized error lists across k fresh parses, re-validation of the validated tree, schema reloads and 4 worker processes (digests compared by the driver); an outline of the schema object before and after validation (a validation must leave its inputs as it found them)",
         "Exploration: 5k (quick) / 76k (thorough) invalid-biased cases (1-3 injected faults incl. near-miss names with several equidistant suggestion candidates, collision documents, faulted schemas) x 8 / 16 in-process repeats x 4 processes; any difference in rule, message, location or order on any axis is a violation. The case generator's own determinism is checked (same index, same text in every process).",
         "A cross-process difference is replayed with 64 in-process repeats; map-order effects show on both axes. One defect repaired (3c593d2).",
         "DESIGN.md §4 C10"),
 "C12": ("round-trip monitor: model(parse(x)) = model(parse(format_c(parse(x)))) and text fixpoint, over generated trees with hostile strings x 20 formatter configurations",
         "Exploration: 5k (quick) / 100k (thorough) documents rendered from random syntax trees with hostile string values, directives in every position (incl. variable definitions), fragment variables and comments are parsed, formatted under every combination of comments x compacted x 5 indents (builtin / no-description flags rotated), re-parsed and compared through an independent AST->model adapter; the second format must reproduce the first byte for byte.",
         "Trusts the model adapter and diff; comments and positions are not compared; relative order of operations vs fragments not compared (formatter emits operations first by design). Two defects found by this check were repaired (fix: commits fc85355, 36779a6).",
         "DESIGN.md §4 C12"),
 "C13": ("round-trip monitor: FormatSchemaDocument vs ParseSchema through the type-system model (80 configurations) and FormatSchema vs LoadSchema through a canonical loaded-schema dump (40 configurations), plus text fixpoint",
         "Exploration: 1.3k (quick) / 27k (thorough) type-system documents (random trees and valid generated schemas with hostile descriptions, extensions, schema directives, repeatable directives, described arguments) x 80 configurations, and 0.7k / 13k valid generated schemas (custom roots, default-root-named non-root types, extension-only types) loaded, formatted x 40 configurations, reloaded and compared canonically (types, fields, arguments, defaults, directives, roots, relations, descriptions); the second format must reproduce the first.",
         "FormatSchema with WithBuiltin is judged for totality only (its output repeats the prelude and cannot be loaded by design). Two defects repaired (9f2bb02, 13d6633); five recorded findings, three of them pinned by the repository's golden files.",
         "DESIGN.md §4 C13"),
 "C14": ("total-function monitor (panic observer) + independent conformance predicate on every returned value + defect-injection oracle (values that cannot conform must be rejected)",
         "Exploration: 270 variable types (every non-null pattern of list depth 0-3 over 5 built-in scalars, an enum, a recursive input object, a @oneOf object, a custom scalar) x 46 (quick) / 1150 (thorough) x 16 calls = 199k / 5M VariableValues calls with type-directed Go values (all numeric Go kinds, json.Number, typed slices, nested maps), one injected defect at a random depth in ~75% of them, single values for lists at every depth, omitted variables with and without defaults.",
         "The conformance predicate accepts the leniencies listed in the evidence (float for Int, numeric strings, json.Number, case-variant enum names, __typename key); @oneOf cardinality is outside the statement. Two defects repaired (e6343ba, 5280a2d).",
         "DESIGN.md §4 C14"),
 "C15": ("total-function monitor (panic observer) + independent argument-map evaluator over the model (literal > variable > variable default > argument default) compared with reflect.DeepEqual for every field and directive",
         "Exploration: 10k (quick) / 300k (thorough) valid documents from the typed generator, each with a per-variable choice of conforming value / explicit null / omission passed through VariableValues; ArgumentMap is called for every field and directive of every operation, of the fragments it reaches and of its variable definitions (75k / 2.2M maps), incl. custom-scalar arguments with arbitrary literals, nested variables and extreme numerals.",
         "Supplied variables are taken as coerced by the library (C14 judges that); omitted ones must have an entry. One recorded finding (panic on custom-scalar integer literals beyond int64).",
         "DESIGN.md §4 C15"),
 "C16": ("limit-exactness oracle against an independent reference token count, every limit 0..T+2; hook counters (lexer reads, last scanned byte) and allocated bytes (runtime.MemStats.TotalAlloc) for the work bound; lowered stack ceiling for recursion depth; the caller's Source must be left as given",
         "Exploration: ~8k (quick) / 60k (thorough) documents of both grammars (valid and single-token-mutated, comments everywhere) are parsed under every limit from 0 to T+2 through ParseQueryWithTokenLimit, ParseSchemaWithLimit and ParseSchemasWithLimit (per-source limits); success must be exact (L=0 or L>=T reproduces the unlimited tree by reflect.DeepEqual; 0<L<T fails) and monotone, and every limit failure must have read at most L+2 tokens and scanned no byte beyond reference token L+2. 1-8 MiB floods (nesting, tokens, comments) under limits 1..15000 run with a 32 MiB stack ceiling so unbounded recursion is a fatal exit.",
         "T comes from the reference lexer (C03); when the unlimited parse fails only failure (not the error text) is required of limits >= T, because the property asks no more. Work is measured in hook counters, not time.",
         "DESIGN.md §4 C16"),
 "C17": ("metamorphic monitor: canonical loaded-schema model under permutation of definitions and partition into 1-5 sources vs the single-file base arrangement; error-file oracle from the reference checker's involved definitions",
         "Exploration: 1k (quick) / 30k (thorough) generated schemas (half with one injected fault from the 36+3 entry catalogue) x 12 / 40 arrangements (as generated, extensions first, interfaces after implementers, reversed, roots last, random; 1-5 sources in random order); verdict and canonical schema (fields, values, members, interfaces, directive applications as sets; relations; roots) must equal the base arrangement, and a load error must name a file holding a definition involved in a violation the reference checker sees.",
         "Trusts the canonical dump and the reference checker's involved-definition sets; schemas violating rules outside C07's enumeration are judged for order independence only.",
         "DESIGN.md §4 C17"),
 "C18": ("multiset-algebra monitor over error lists of rule subsets: default vs explicit full list (ordered), every exported rule alone, random subsets in random order vs the union of their members, rule tags, suggestion-free variants vs their standard rules",
         "Exploration: 3k (quick) / 60k (thorough) fault-heavy (schema, document) pairs x (31 singletons + 12 / 40 random subsets of 2-7 rules in random order + the full set + the default call), every validation on a fresh parse; 95k single-rule and 37k subset validations per quick run.",
         "Clause (1) assumes the registration order is the alphabetical order of the rule files. Needs no reference model: the library is compared with itself.",
         "DESIGN.md §4 C18"),
 "C19": ("runtime round-trip monitor: model(parse(x)) vs model(json.Unmarshal(json.Marshal(parse(x)))) over generated documents, then a node-by-node reflective comparison of the encoded and the decoded tree through everything encoding/json carries (positions and comments excepted; for validated documents as deep as the linked schema definitions go)",
         "Exploration: every generated document is parsed by the real parser, encoded and decoded by the real (un)marshalers and compared with an independent AST→model adapter; 20k (quick) / 500k (thorough) documents with all three selection kinds at every depth and order. Held on what was observed, not a proof.",
         "Trusts encoding/json and the harness's model adapter; positions, comments and validation annotations are outside the property and not compared.",
         "DESIGN.md §4 C19"),
}

LEVELS = {}
 
CHECKS["C20"] = ("well-formedness monitor on every error object from every entry point and on its generically decoded JSON; exhaustive path encode/decode round trip over a 9-element alphabet",
         "Exploration with an exhaustive part: every path of names and indices up to length 4 (quick, 7.4k) / 6 (thorough, 600k) over {a, empty, b.c, 0, quoted unicode, 0, 1, 7, 2^31-1} round-trips through JSON; 24k / 480k error-biased cases (token-mutated documents of both grammars with hostile trivia, lexical soups, faulted schemas over named sources, faulted documents under every rule, defective variable maps) feed ~12k error objects per quick run through the shape checks, counted by (entry point, message template).",
         "The token-limit error (plain error, no source) and Validate's nil-argument guard errors are only checked for a non-empty message.",
         "DESIGN.md §4 C20")
 
CHECKS["C11"] = ("Go race detector (go build -race) over concurrent histories on one shared schema with seeded yield injection at hook sites + deep reflective schema snapshot (slices to capacity) before/after + per-call result equality against sequential baselines, in the same process and in a second worker process that plays the same rounds in the opposite order",
         "Exploration: 120 (quick) / 600 (thorough) rounds, each played by two worker processes (forward, and backward with warm and cold rounds swapped); in each, one generated schema is shared by 2-32 goroutines running 40 / 120 seeded operations each on their own documents (validate with default and explicit rule lists, VariableValues, ArgumentMap over whole documents, FormatSchema, relation lookups): ~37k concurrent operations per quick run under the race detector. Any race report touching gqlparser, any snapshot difference and any result that differs from the same call run alone (before and after the round, and alone in the other worker process with its other history) is a violation; the evidence lists distinct completion orders observed.",
         "Interleavings are those the scheduler produced (yield probability 0, 3%, 30% at walker events); happens-before race detection does not need the bad interleaving to occur. Races inside the harness itself would be reported as a broken check, not as a violation.",
         "DESIGN.md §4 C11")

PENDING_REASON = "check under construction in this round (design in DESIGN.md §4); not claimed until its monitor runs clean on the unchanged tree"

def main():
    props = [json.loads(l) for l in open(os.path.join(root, "properties.jsonl"))]
    checks = []
    na = []
    for p in props:
        pid = p["id"]
        if pid in CHECKS:
            tech, text, note, ref = CHECKS[pid]
            checks.append({
                "property_id": pid,
                "quick_cmd": f"./run.sh {pid} quick",
                "thorough_cmd": f"./run.sh {pid} thorough",
                "evidence_file": f"/verif/evidence/{pid}.json",
                "replay_cmd_template": f"./run.sh {pid} --replay {{path}}",
                "engine": "vcheck",
                "level_claimed": {"category": LEVELS.get(pid, "exploration"), "text": text, "design_ref": ref},
                "level_note": note,
                "technique": tech,
            })
        else:
            na.append({"property_id": pid, "reason": PENDING_REASON})
    try:
        hook_commits = subprocess.check_output(["git", "-C", "/repo", "log", "--format=%H", "--grep=^verif:"], text=True).split()
    except Exception:
        hook_commits = []
    man = {
        "version": 1,
        "setup_cmd": "./run.sh --setup",
        "hooks": {
            "guard": "verif",
            "enable": "go build -tags verif (run.sh builds harness/cmd/vcheck against /repo via a replace directive; C11 adds -race)",
            "baseline_off_cmd": "cd /repo && GOFLAGS=-mod=mod GOPROXY=off GOSUMDB=off GOTOOLCHAIN=local go test -vet=off -count=1 ./...",
            "source_commits": hook_commits,
            "add_only": True,
        },
        "engines": [{
            "name": "vcheck",
            "path": "/verif/harness",
            "serves_properties": sorted(CHECKS.keys()),
            "kind_free_text": "Go runtime-monitoring harness: driver + isolated worker processes running the real gqlparser code (built from /repo with -tags verif) under generated/hostile workloads; monitors = crash/fatal/hang observer, step-counter hooks, independent reference models, metamorphic/round-trip oracles, Go race detector (C11)",
        }],
        "checks": checks,
        "not_applicable": na,
        "notes": "All checks: exit 0 = held on everything explored, exit 1 + 'VIOLATION property=<id> replay=<path>' lines, exit 2 = broken check (harness defect or empty workload). Known findings: /verif/known_findings.json (never written at run time). VERIF_SEED selects the random parts of every case list.",
    }
    json.dump(man, open(os.path.join(root, "MANIFEST.json"), "w"), indent=1, ensure_ascii=False)
    print("wrote MANIFEST.json:", len(checks), "checks,", len(na), "not_applicable")

main()
